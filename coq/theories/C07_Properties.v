(* C07_Properties.v — the property theorems of C07 and nothing else.

   Vocabulary (C07_Spec): [block stop t rest] = the maximal block of tasks immediately
   following the head [t] that have metadata, t's hook name and t's task type (and at
   which the caller's stopCombineFn, if any, does not say stop); [after_block] = what is
   left of [rest]; [spec_compact] = of every maximal run of adjacent equal-group contexts
   keep the last one, keep all contexts of runs without group.

   Hypotheses of the layout theorems = the situation the property speaks about: the
   executed task [t] has metadata and stands at the head of the queue [t :: rest]; task
   ids are unique (uuids) over the queue and the tasks [app] appended to it between the
   function's Iterate and Filter steps.  [stop] is an ARBITRARY predicate: nil (constantly
   false) for ordinary heads; since commit 7b8a7f4 taskHandleHookRun passes, for a
   Synchronization head, "same-hook Synchronization with ExecuteOnSynchronization = false";
   addon-operator passes its own.  The merged block is then the maximal prefix of the
   following same-hook same-type tasks on which the predicate is false. *)
From Verif Require Import Common C07_Model C07_Spec C07_Proofs.

(* the whole decidable predicate P of C07_Spec holds of the model on EVERY input
   (P itself restricts to well-formed layouts) *)
Theorem C07_P_holds : forall i, P i (run_model i) = true.
Proof. exact P_holds. Qed.
Print Assumptions C07_P_holds.

Theorem C07_contexts_are_concat_compacted : forall stop t rest app,
  t_meta t = true -> NoDup (map t_id (t :: rest ++ app)) ->
  let b := block stop t rest in
  let C := t_ctxs t ++ flat_map t_ctxs b in
  let r := fst (combine_concurrent stop t (t :: rest) app) in
  (r = None <-> b = []) /\
  (forall res, r = Some res -> r_ctxs res = spec_compact C) /\
  delivered_ctxs t r = (if is_nil b then t_ctxs t else spec_compact C) /\
  (compact (t_ctxs t) = t_ctxs t -> delivered_ctxs t r = spec_compact C).
Proof. exact contexts_are_concat_compacted. Qed.
Print Assumptions C07_contexts_are_concat_compacted.

Theorem C07_queue_remainder : forall stop t rest app,
  t_meta t = true -> NoDup (map t_id (t :: rest ++ app)) ->
  snd (combine_concurrent stop t (t :: rest) app) = t :: after_block stop t rest ++ app
  /\ rest = block stop t rest ++ after_block stop t rest.
Proof. exact queue_remainder. Qed.
Print Assumptions C07_queue_remainder.

Theorem C07_compact_keeps_last_of_run : forall l,
  let rs := runs l in
  concat rs = l /\ Forall uniform_run rs /\ adjacent_differ rs
  /\ compact l = flat_map survivors rs
  /\ sublist (compact l) l
  /\ filter ungrouped (compact l) = filter ungrouped l
  /\ compact (compact l) = compact l.
Proof. exact compact_keeps_last_of_run. Qed.
Print Assumptions C07_compact_keeps_last_of_run.

Theorem C07_never_merges_other_hook_or_type : forall stop t rest app,
  t_meta t = true -> NoDup (map t_id (t :: rest ++ app)) ->
  (forall x, In x (t :: rest ++ app) ->
             ~ In (t_id x) (map t_id (snd (combine_concurrent stop t (t :: rest) app))) ->
             In x (block stop t rest)
             /\ t_meta x = true /\ t_hook x = t_hook t /\ t_ty x = t_ty t /\ stop x = false)
  /\ (forall y tl, after_block stop t rest = y :: tl -> mergeable stop t y = false).
Proof. exact never_merges_other_hook_or_type. Qed.
Print Assumptions C07_never_merges_other_hook_or_type.

Theorem C07_monitor_ids_concat : forall stop t rest app,
  t_meta t = true -> NoDup (map t_id (t :: rest ++ app)) ->
  let r := fst (combine_concurrent stop t (t :: rest) app) in
  (forall res, r = Some res -> r_mids res = t_mids t ++ flat_map t_mids (block stop t rest)) /\
  delivered_mids t r = t_mids t ++ flat_map t_mids (block stop t rest).
Proof. exact monitor_ids_concat. Qed.
Print Assumptions C07_monitor_ids_concat.

Theorem C07_concurrent_appends_survive : forall stop t rest app,
  t_meta t = true -> NoDup (map t_id (t :: rest ++ app)) ->
  combine_concurrent stop t (t :: rest) app
  = (fst (combine stop t (t :: rest)), snd (combine stop t (t :: rest)) ++ app).
Proof. exact concurrent_appends_survive. Qed.
Print Assumptions C07_concurrent_appends_survive.

Theorem C07_exact_when_head_compacted : forall i,
  wf i = true -> compact (t_ctxs (i_t i)) = t_ctxs (i_t i) ->
  obs_ctxs (i_t i) (run_model i)
  = spec_compact (t_ctxs (i_t i)
                  ++ flat_map t_ctxs (block (stop_of (i_stop i)) (i_t i) (tl (i_q i)))).
Proof. exact P_exact. Qed.
Print Assumptions C07_exact_when_head_compacted.

(* non-vacuity: a concrete layout meets the hypotheses, something is merged, something
   is compacted away, another hook's and another type's task stay, an appended task
   survives.  Head 1 (hook 1, type 0, contexts g1 g1), then 2 (same hook/type: g1, none,
   g2), 3 (same: g2), 4 (same hook, other type), 5 (hook 2), 6 (hook 1 again, not
   adjacent); 7 is appended concurrently. *)
Definition ex_t : task := (mkTask 1 1 0 true [mkCtx 10 1; mkCtx 11 1] [100])%N.
Definition ex_rest : list task :=
  [ mkTask 2 1 0 true [mkCtx 20 1; mkCtx 21 0; mkCtx 22 2] [200; 201];
    mkTask 3 1 0 true [mkCtx 30 2] [];
    mkTask 4 1 1 true [mkCtx 40 2] [400];
    mkTask 5 2 0 true [mkCtx 50 2] [];
    mkTask 6 1 0 true [mkCtx 60 2] [] ]%N.
Definition ex_app : list task := [ mkTask 7 1 0 true [mkCtx 70 2] [700] ]%N.

Example C07_hyp_met :
  t_meta ex_t = true
  /\ NoDup (map t_id (ex_t :: ex_rest ++ ex_app))
  /\ wf (mkIn ex_t [] (ex_t :: ex_rest) ex_app) = true
  /\ map t_id (block (fun _ => false) ex_t ex_rest) = [2; 3]%N
  /\ combine_concurrent (fun _ => false) ex_t (ex_t :: ex_rest) ex_app
     = (Some (mkResult [mkCtx 20 1; mkCtx 21 0; mkCtx 30 2] [100; 200; 201])%N,
        ex_t :: skipn 2 ex_rest ++ ex_app).
Proof.
  split; [reflexivity|]. split; [apply nodupb_NoDup; vm_compute; reflexivity|].
  repeat split; vm_compute; reflexivity.
Qed.
