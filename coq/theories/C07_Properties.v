(* C07_Properties.v — the property theorems of C07 and nothing else.

   Vocabulary (C07_Spec): [block stop t rest] = the maximal block of tasks immediately
   following the head [t] that have metadata, t's hook name and t's task type (and at
   which the caller's stopCombineFn, if any, does not say stop); [after_block] = what is
   left of [rest]; [spec_compact] = of every maximal run of adjacent equal-group contexts
   keep the last one, keep all contexts of runs without group.

   Hypotheses of the layout theorems = the situation the property speaks about: the
   executed task [t] has metadata and stands at the head of the queue [t :: rest]; task
   ids are unique (uuids) over the queue and the tasks [app] appended to it between the
   function's Iterate and Filter steps.  [stop] is an ARBITRARY predicate: nil (constantly
   false) for ordinary heads; since commit 7b8a7f4 taskHandleHookRun passes, for a
   Synchronization head, "same-hook Synchronization with ExecuteOnSynchronization = false";
   addon-operator passes its own.  The merged block is then the maximal prefix of the
   following same-hook same-type tasks on which the predicate is false.

   The queue SET (part 2) and the task handler (part 3).  [qset] = the named queues of
   TaskQueueSet; [get_by_name] = GetByName; the executed task carries its queue name [t_qn]
   (0 = the empty name); [combine_set] = the call of taskHandleHookRun,
   combineBindingContextForHook(tqs, tqs.GetByName(t.GetQueueName()), t, stop); [arrivals n app]
   = the tasks that arrived for queue n while the call was in progress.  [model_step] = one
   step of the operator: the worker of a queue executes its head ([SHead]), or a task that sits
   in no queue is handed to the task handler ([SLoose]: what the admission and conversion
   webhook handlers do, with the empty name).  [v0s] = the hooks with a v0 config.

   Heads that are NOT executed (part 3, after seeded change C07-6).  taskHandleHookRun decides first
   whether the hook is run ([should_run]: not for a Synchronization task - first context [c_sync] - of a
   v0 hook or with ExecuteOnSynchronization = false, [t_exec]) and calls the combiner only behind the
   gate [gate] (run, v1, not an ungrouped kubernetes Synchronization), with stopCombineFn
   [stop_combine].  Spec vocabulary: [not_executed], [stop_rule], [exempt], [synchronization]. *)
From Verif Require Import Common C07_Model C07_Spec C07_Proofs C07_PolicyProofs C07_LongSpec C07_LongProofs.

(* the whole decidable predicate P of C07_Spec holds of the model on EVERY input
   (P itself restricts to well-formed layouts) *)
Theorem C07_P_holds : forall i, P i (run_model i) = true.
Proof. exact P_holds. Qed.
Print Assumptions C07_P_holds.

Theorem C07_contexts_are_concat_compacted : forall stop t rest app,
  t_meta t = true -> NoDup (map t_id (t :: rest ++ app)) ->
  let b := block stop t rest in
  let C := t_ctxs t ++ flat_map t_ctxs b in
  let r := fst (combine_concurrent stop t (t :: rest) app) in
  (r = None <-> b = []) /\
  (forall res, r = Some res -> r_ctxs res = spec_compact C) /\
  delivered_ctxs t r = (if is_nil b then t_ctxs t else spec_compact C) /\
  (compact (t_ctxs t) = t_ctxs t -> delivered_ctxs t r = spec_compact C).
Proof. exact contexts_are_concat_compacted. Qed.
Print Assumptions C07_contexts_are_concat_compacted.

Theorem C07_queue_remainder : forall stop t rest app,
  t_meta t = true -> NoDup (map t_id (t :: rest ++ app)) ->
  snd (combine_concurrent stop t (t :: rest) app) = t :: after_block stop t rest ++ app
  /\ rest = block stop t rest ++ after_block stop t rest.
Proof. exact queue_remainder. Qed.
Print Assumptions C07_queue_remainder.

Theorem C07_compact_keeps_last_of_run : forall l,
  let rs := runs l in
  concat rs = l /\ Forall uniform_run rs /\ adjacent_differ rs
  /\ compact l = flat_map survivors rs
  /\ sublist (compact l) l
  /\ filter ungrouped (compact l) = filter ungrouped l
  /\ compact (compact l) = compact l.
Proof. exact compact_keeps_last_of_run. Qed.
Print Assumptions C07_compact_keeps_last_of_run.

Theorem C07_never_merges_other_hook_or_type : forall stop t rest app,
  t_meta t = true -> NoDup (map t_id (t :: rest ++ app)) ->
  (forall x, In x (t :: rest ++ app) ->
             ~ In (t_id x) (map t_id (snd (combine_concurrent stop t (t :: rest) app))) ->
             In x (block stop t rest)
             /\ t_meta x = true /\ t_hook x = t_hook t /\ t_ty x = t_ty t /\ stop x = false)
  /\ (forall y tl, after_block stop t rest = y :: tl -> mergeable stop t y = false).
Proof. exact never_merges_other_hook_or_type. Qed.
Print Assumptions C07_never_merges_other_hook_or_type.

Theorem C07_monitor_ids_concat : forall stop t rest app,
  t_meta t = true -> NoDup (map t_id (t :: rest ++ app)) ->
  let r := fst (combine_concurrent stop t (t :: rest) app) in
  (forall res, r = Some res -> r_mids res = t_mids t ++ flat_map t_mids (block stop t rest)) /\
  delivered_mids t r = t_mids t ++ flat_map t_mids (block stop t rest).
Proof. exact monitor_ids_concat. Qed.
Print Assumptions C07_monitor_ids_concat.

Theorem C07_concurrent_appends_survive : forall stop t rest app,
  t_meta t = true -> NoDup (map t_id (t :: rest ++ app)) ->
  combine_concurrent stop t (t :: rest) app
  = (fst (combine stop t (t :: rest)), snd (combine stop t (t :: rest)) ++ app).
Proof. exact concurrent_appends_survive. Qed.
Print Assumptions C07_concurrent_appends_survive.

Theorem C07_exact_when_head_compacted : forall i,
  wf i = true -> compact (t_ctxs (i_t i)) = t_ctxs (i_t i) ->
  obs_ctxs (i_t i) (run_model i)
  = spec_compact (t_ctxs (i_t i)
                  ++ flat_map t_ctxs (block (stop_of (i_stop i)) (i_t i) (tl (i_q i)))).
Proof. exact P_exact. Qed.
Print Assumptions C07_exact_when_head_compacted.

(* non-vacuity: a concrete layout meets the hypotheses, something is merged, something
   is compacted away, another hook's and another type's task stay, an appended task
   survives.  Head 1 (hook 1, type 0, contexts g1 g1), then 2 (same hook/type: g1, none,
   g2), 3 (same: g2), 4 (same hook, other type), 5 (hook 2), 6 (hook 1 again, not
   adjacent); 7 is appended concurrently. *)
Definition ex_t : task := (mkTask 1 1 0 true [mkCtx 10 1; mkCtx 11 1] [100] 1)%N.
Definition ex_rest : list task :=
  [ mkTask 2 1 0 true [mkCtx 20 1; mkCtx 21 0; mkCtx 22 2] [200; 201] 1;
    mkTask 3 1 0 true [mkCtx 30 2] [] 1;
    mkTask 4 1 1 true [mkCtx 40 2] [400] 1;
    mkTask 5 2 0 true [mkCtx 50 2] [] 1;
    mkTask 6 1 0 true [mkCtx 60 2] [] 1 ]%N.
Definition ex_app : list task := [ mkTask 7 1 0 true [mkCtx 70 2] [700] 1 ]%N.

Example C07_hyp_met :
  t_meta ex_t = true
  /\ NoDup (map t_id (ex_t :: ex_rest ++ ex_app))
  /\ wf (mkIn ex_t [] (ex_t :: ex_rest) ex_app) = true
  /\ map t_id (block (fun _ => false) ex_t ex_rest) = [2; 3]%N
  /\ combine_concurrent (fun _ => false) ex_t (ex_t :: ex_rest) ex_app
     = (Some (mkResult [mkCtx 20 1; mkCtx 21 0; mkCtx 30 2] [100; 200; 201])%N,
        ex_t :: skipn 2 ex_rest ++ ex_app).
Proof.
  split; [reflexivity|]. split; [apply nodupb_NoDup; vm_compute; reflexivity|].
  repeat split; vm_compute; reflexivity.
Qed.

(* ---------------------------------------------------------------- the queue set *)

(* the decidable predicate of the set level holds of the model on EVERY input: any number of
   named queues, the executed task carrying any name and sitting anywhere or nowhere *)
Theorem C07_set_P_holds : forall i, P_set i (run_set i) = true.
Proof. exact P_set_holds. Qed.
Print Assumptions C07_set_P_holds.

(* a task whose name no queue of the set has (the empty name of the webhook handlers' tasks
   included): nothing is merged and no queue is touched - each holds what it held plus its
   arrivals *)
Theorem C07_queueless_run_merges_nothing : forall stop t qs app,
  ~ In (t_qn t) (map fst qs) ->
  combine_set stop t qs app = (None, arrive app qs)
  /\ forall n, get_by_name n (arrive app qs)
               = option_map (fun q => q ++ arrivals n app) (get_by_name n qs).
Proof. intros stop t qs app H. split; [exact (combine_set_no_queue stop t qs app H) | intros n; apply get_arrive]. Qed.
Print Assumptions C07_queueless_run_merges_nothing.

(* a run in queue A never touches queue B: whatever the layout, a queue the executed task does
   not name holds afterwards what it held plus its arrivals; the set of queues is the same *)
Theorem C07_other_queues_untouched : forall stop t qs app,
  map fst (snd (combine_set stop t qs app)) = map fst qs
  /\ forall n, n <> t_qn t ->
       get_by_name n (snd (combine_set stop t qs app))
       = option_map (fun q => q ++ arrivals n app) (get_by_name n qs).
Proof. intros stop t qs app. split; [apply combine_set_names | intros n; apply combine_set_others]. Qed.
Print Assumptions C07_other_queues_untouched.

(* on the queue the task names, the call IS the single-queue call: every theorem above about
   [combine_concurrent] speaks about that queue of the set *)
Theorem C07_set_run_is_queue_run : forall stop t qs app q,
  get_by_name (t_qn t) qs = Some q ->
  fst (combine_set stop t qs app) = fst (combine_concurrent stop t q (arrivals (t_qn t) app))
  /\ get_by_name (t_qn t) (snd (combine_set stop t qs app))
     = Some (snd (combine_concurrent stop t q (arrivals (t_qn t) app))).
Proof. exact combine_set_own. Qed.
Print Assumptions C07_set_run_is_queue_run.

(* ---------------------------------------------------------------- the task handler *)

(* every step of the operator model - a worker executing the head of its queue (hook exit 0 or
   not; the head a schedule / kubernetes Event / Synchronization task, executed or not, of a v0 or v1
   hook), or a queue-less task run by a webhook handler - meets the step predicate, from EVERY
   state of the queue set; hence every session does *)
Theorem C07_op_step_holds : forall v0s qs st, P_step v0s qs st (model_step v0s qs st) = true.
Proof. exact P_step_holds. Qed.
Print Assumptions C07_op_step_holds.

Theorem C07_op_session_holds : forall v0s steps qs, P_session v0s qs steps (run_session v0s qs steps) = true.
Proof. exact P_session_holds. Qed.
Print Assumptions C07_op_session_holds.

(* the run of a task whose name no queue has: exactly one execution, with exactly the task's
   own contexts (none if the task is not to be executed), and the queue set afterwards IS the queue
   set before (the status: the exit code, or Success all the same if the task allows failure - the
   webhook handlers' tasks never do) *)
Theorem C07_webhook_run_leaves_queues : forall v0s qs t ok,
  ~ In (t_qn t) (map fst qs) ->
  model_step v0s qs (SLoose t ok)
  = if should_run (mem_N (t_hook t) v0s) t then mkSO [mkRun (t_hook t) (t_ctxs t)] (forgiven ok t) qs
    else mkSO [] true qs.
Proof. exact loose_run_leaves_queues. Qed.
Print Assumptions C07_webhook_run_leaves_queues.

(* a head that is NOT executed (a Synchronization of a v0 hook, or of a binding with
   executeHookOnSynchronization: false), whatever stands behind it in whatever queue: no run, the
   handler says Success, the head leaves - and that is ALL: the queue is exactly the tasks that stood
   behind it, every other queue is what it was, nothing is merged *)
Theorem C07_skipped_head_merges_nothing : forall v0s qs qn t rest ok,
  get_by_name qn qs = Some (t :: rest) -> t_ty t = 0%N ->
  should_run (mem_N (t_hook t) v0s) t = false ->
  model_step v0s qs (SHead qn ok) = mkSO [] true (set_queue qn rest qs).
Proof. exact skipped_head_merges_nothing. Qed.
Print Assumptions C07_skipped_head_merges_nothing.

(* the combiner is not even reached by a task that is not run, by a task of a v0 hook, by an ungrouped
   kubernetes Synchronization: the handler leaves the task's metadata and every queue as they are *)
Theorem C07_closed_gate_touches_nothing : forall v0 t qs,
  should_run v0 t = false \/ v0 = true \/ (t_kube t = true /\ is_sync t = true /\ t_group t = 0%N) ->
  snd (fst (handle_hook_run v0 t qs)) = t /\ snd (handle_hook_run v0 t qs) = qs.
Proof. exact closed_gate_touches_nothing. Qed.
Print Assumptions C07_closed_gate_touches_nothing.

(* an EXECUTED head of a v1 hook, explicitly: one run with the compacted concatenation of the head's
   and the block's contexts, the queue afterwards = (the head if the handler says Fail: the run failed and
   the merged task does not allow failure) then everything behind the block; the block ends where the stop rule says - in particular an executed
   Synchronization head never takes in a Synchronization that is itself not to be executed *)
Theorem C07_executed_head_block : forall v0s qs t rest ok,
  wf_state qs = true -> get_by_name (t_qn t) qs = Some (t :: rest) -> t_ty t = 0%N ->
  mem_N (t_hook t) v0s = false -> should_run false t = true ->
  let o := model_step v0s qs (SHead (t_qn t) ok) in
  let b := block (stop_rule t) t rest in
  st_runs o = [mkRun (t_hook t) (if is_nil b then t_ctxs t else spec_compact (t_ctxs t ++ flat_map t_ctxs b))]
  /\ map t_id (match get_by_name (t_qn t) (st_state o) with Some q => q | None => [] end)
     = (if st_success o then [] else [t_id t]) ++ map t_id (after_block (stop_rule t) t rest)
  /\ Forall (fun x => exempt x = false \/ synchronization t = false) b.
Proof. exact executed_head_block. Qed.
Print Assumptions C07_executed_head_block.

(* non-vacuity: two queues; main (1) = hook 1, hook 1, hook 2; queue 2 = hook 1, hook 1.
   A validating webhook task of hook 1 (empty name, in no queue) arrives: hypothesis met, the
   queues stay; then main's head is executed and fails (merges 12, stays with both contexts),
   is retried and succeeds; queue 2 is never touched by the runs of main. *)
Definition ex_qs : qset :=
  [ (1, [ mkTask 11 1 0 true [mkCtx 1 0] [] 1; mkTask 12 1 0 true [mkCtx 2 0] [] 1;
          mkTask 13 2 0 true [mkCtx 3 0] [] 1 ]);
    (2, [ mkTask 21 1 0 true [mkCtx 4 1] [] 2; mkTask 22 1 0 true [mkCtx 5 1] [] 2 ]) ]%N.
Definition ex_hook_task : task := (mkTask 99 1 0 true [mkCtx 9 0] [] 0)%N.

Example C07_set_hyp_met :
  ~ In (t_qn ex_hook_task) (map fst ex_qs)
  /\ wf_set (mkSIn ex_hook_task [] ex_qs [(2, mkTask 23 1 0 true [mkCtx 6 1] [] 2)]%N) = true
  /\ wf_state ex_qs = true
  /\ get_by_name 1 ex_qs = Some (snd (hd (0%N, []) ex_qs))
  /\ map (fun o => (st_runs o, st_success o, map (fun p => (fst p, map t_id (snd p))) (st_state o)))
         (run_session [] ex_qs [SLoose ex_hook_task true; SHead 1 false; SHead 1 true; SHead 2 true])
     = [ ([mkRun 1 [mkCtx 9 0]], true, [(1, [11; 12; 13]); (2, [21; 22])]);
         ([mkRun 1 [mkCtx 1 0; mkCtx 2 0]], false, [(1, [11; 13]); (2, [21; 22])]);
         ([mkRun 1 [mkCtx 1 0; mkCtx 2 0]], true, [(1, [13]); (2, [21; 22])]);
         ([mkRun 1 [mkCtx 5 1]], true, [(1, [13]); (2, [])]) ]%N.
Proof.
  split; [vm_compute; intros [H|[H|[]]]; discriminate|].
  repeat split; vm_compute; reflexivity.
Qed.

(* non-vacuity for the heads that are not executed: the start-up of a v1 hook (1) with two kubernetes
   bindings in group 1, the FIRST one a snapshot source only (executeHookOnSynchronization: false,
   monitor 101), the second ordinary (monitor 102); behind them a schedule task of the same hook and a
   task of hook 2 (a v0 hook: its Synchronization 15 is not executed either).  Head 11 meets the
   hypothesis of C07_skipped_head_merges_nothing: no run, 12..16 stay; then 12 is executed (hypotheses
   of C07_executed_head_block met) and takes in the schedule task 13, not 14 (hook 2); 14 runs alone
   (v0), 15 is skipped, 16 (hook 1, ungrouped Synchronization) runs alone although 17 follows it. *)
Definition ex_sync_qs : qset :=
  [ (1, [ mkTaskK 11 1 0 true [mkCtxK 1 1 true] [101] 1 true 1 false false;
          mkTaskK 12 1 0 true [mkCtxK 2 1 true] [102] 1 true 1 true false;
          mkTask 13 1 0 true [mkCtx 3 0] [] 1;
          mkTaskK 14 2 0 true [mkCtxK 4 0 false] [] 1 true 0 false false;
          mkTaskK 15 2 0 true [mkCtxK 5 0 true] [201] 1 true 0 false false;
          mkTaskK 16 1 0 true [mkCtxK 6 0 true] [103] 1 true 0 true false;
          mkTask 17 1 0 true [mkCtx 7 0] [] 1 ]) ]%N.

Example C07_skip_hyp_met :
  wf_state ex_sync_qs = true
  /\ (exists rest, get_by_name 1 ex_sync_qs
                   = Some ((mkTaskK 11 1 0 true [mkCtxK 1 1 true] [101] 1 true 1 false false)%N :: rest))
  /\ mem_N 1 [2]%N = false
  /\ (let t16 := (mkTaskK 16 1 0 true [mkCtxK 6 0 true] [103] 1 true 0 true false)%N in
      t_kube t16 = true /\ is_sync t16 = true /\ t_group t16 = 0%N)
  /\ should_run (mem_N 1 [2])%N (mkTaskK 11 1 0 true [mkCtxK 1 1 true] [101] 1 true 1 false false)%N = false
  /\ should_run false (mkTaskK 12 1 0 true [mkCtxK 2 1 true] [102] 1 true 1 true false)%N = true
  /\ map (fun o => (st_runs o, st_success o, map (fun p => (fst p, map t_id (snd p))) (st_state o)))
         (run_session [2] ex_sync_qs [SHead 1 true; SHead 1 false; SHead 1 true; SHead 1 true; SHead 1 true; SHead 1 true])%N
     = [ ([], true, [(1, [12; 13; 14; 15; 16; 17])]);
         ([mkRun 1 [mkCtxK 2 1 true; mkCtx 3 0]], false, [(1, [12; 14; 15; 16; 17])]);
         ([mkRun 1 [mkCtxK 2 1 true; mkCtx 3 0]], true, [(1, [14; 15; 16; 17])]);
         ([mkRun 2 [mkCtx 4 0]], true, [(1, [15; 16; 17])]);
         ([], true, [(1, [16; 17])]);
         ([mkRun 1 [mkCtxK 6 0 true]], true, [(1, [17])]) ]%N.
Proof.
  split; [vm_compute; reflexivity|]. split; [eexists; vm_compute; reflexivity|].
  repeat split; vm_compute; reflexivity.
Qed.

(* ---------------------------------------------------------------- the failure policy (seeded change C07-7) *)

(* "The tasks immediately following it for the same hook are merged into it" - whatever the
   `allowFailure` of their bindings.  [repolicy f] gives every task of a layout another failure policy
   ([f] arbitrary); two layouts that differ in the policies only are re-policied copies of each other. *)

(* the combiner (any stop function that does not look at the policy: nil, by id, the handler's): the
   result - contexts and monitor ids - is identical and the queue afterwards holds the same tasks *)
Theorem C07_policy_takes_no_part_in_combine : forall f stopfn t qi qf,
  policy_blind stopfn ->
  combine_at stopfn (repolicy f t) (map (repolicy f) qi) (map (repolicy f) qf)
  = (fst (combine_at stopfn t qi qf), map (repolicy f) (snd (combine_at stopfn t qi qf))).
Proof. exact combine_at_rp. Qed.
Print Assumptions C07_policy_takes_no_part_in_combine.

(* one observed call (result, ids left in the queue, tasks appended meanwhile): THE SAME observation *)
Theorem C07_policy_same_observation : forall f i,
  run_model (mkIn (repolicy f (i_t i)) (i_stop i) (map (repolicy f) (i_q i)) (map (repolicy f) (i_app i)))
  = run_model i.
Proof. exact run_model_rp. Qed.
Print Assumptions C07_policy_same_observation.

(* the task handler, from every state of the queue set, for every executed task (schedule, kubernetes
   Event, Synchronization; v0 or v1 hook; in a queue or not): the same executions with the same
   contexts, the same tasks left in every queue, the same contexts and monitor ids stored in the task *)
Theorem C07_policy_takes_no_part_in_handler : forall f v0 t qs,
  let h := handle_hook_run v0 t qs in
  let h' := handle_hook_run v0 (repolicy f t) (repolicy_qs f qs) in
  fst (fst h') = fst (fst h)
  /\ snd h' = repolicy_qs f (snd h)
  /\ with_af false (snd (fst h')) = with_af false (snd (fst h)).
Proof. exact handle_hook_run_rp. Qed.
Print Assumptions C07_policy_takes_no_part_in_handler.

(* the specification's block does not see the policy either, and the rules that delimit it are blind *)
Theorem C07_policy_block_blind : forall f sp t rest,
  policy_blind sp ->
  block sp (repolicy f t) (map (repolicy f) rest) = map (repolicy f) (block sp t rest)
  /\ after_block sp (repolicy f t) (map (repolicy f) rest) = map (repolicy f) (after_block sp t rest).
Proof. exact block_rp. Qed.
Print Assumptions C07_policy_block_blind.

Theorem C07_stop_rules_policy_blind : forall t ids,
  policy_blind (stop_rule t) /\ policy_blind (stop_combine t) /\ policy_blind (stop_of ids)
  /\ forall f, stop_rule (repolicy f t) = stop_rule t.
Proof.
  intros t ids. split; [exact (stop_rule_blind t)|]. split; [exact (stop_combine_blind t)|].
  split; [exact (stop_of_blind ids) | intros f; reflexivity].
Qed.
Print Assumptions C07_stop_rules_policy_blind.

(* non-vacuity: hook 1 has a strict and a lenient schedule binding; three ticks strict, lenient, strict
   pile up in main (the demonstration of the seeded change), a task of hook 2 behind them.  The head is
   executed ONCE with the three contexts, whether the policies are as declared, all strict, all lenient
   or the other way round; as declared the failed run is a Fail (one merged task is strict) and the head
   stays with the three contexts and the policy "strict"; all lenient, the failed run is forgiven. *)
Definition ex_mixed (a b c : bool) : qset :=
  [ (1, [ with_af a (mkTask 1 1 0 true [mkCtx 10 0] [] 1); with_af b (mkTask 2 1 0 true [mkCtx 20 0] [] 1);
          with_af c (mkTask 3 1 0 true [mkCtx 30 0] [] 1); mkTask 4 2 0 true [mkCtx 40 0] [] 1 ]) ]%N.

Example C07_policy_hyp_met :
  policy_blind (stop_of [3]%N)
  /\ repolicy_qs (fun x => N.eqb (t_id x) 2) (ex_mixed true false true) = ex_mixed false true false
  /\ (forall a b c,
        let o := model_step [] (ex_mixed a b c) (SHead 1 false) in
        st_runs o = [mkRun 1 [mkCtx 10 0; mkCtx 20 0; mkCtx 30 0]]%N
        /\ st_success o = (a && b && c)
        /\ map (fun p => (fst p, map t_id (snd p))) (st_state o)
           = [(1, if a && b && c then [4] else [1; 4])]%N)
  /\ st_state (model_step [] (ex_mixed false true false) (SHead 1 false))
     = [(1, [ mkTask 1 1 0 true [mkCtx 10 0; mkCtx 20 0; mkCtx 30 0] [] 1; mkTask 4 2 0 true [mkCtx 40 0] [] 1 ])]%N
  /\ P_step [] (ex_mixed false true false) (SHead 1 false)
            (mkSO [mkRun 1 [mkCtx 10 0]] false (ex_mixed false true false)) = false.
Proof.
  split; [exact (stop_of_blind _)|]. split; [vm_compute; reflexivity|].
  split; [intros [] [] []; vm_compute; repeat split; reflexivity|].
  split; vm_compute; reflexivity.
Qed.

(* ---------------------------------------------------------------- the LENGTH of the backlog (seeded change C07-9)

   "the tasks immediately following it for the same hook are merged into it ... all their binding contexts,
   exactly those tasks disappear" has no bound.  Every theorem above quantifies over all lists already; here
   the length is made explicit.  Vocabulary (C07_LongSpec): [len_N] = length as an N; [followers stop t rest] =
   the length of the maximal run of tasks at the front of [rest] that are mergeable into the head [t] (N);
   [P_count] / [P_set_count] / [P_session_count] = "the queue gets shorter by exactly that number" on an
   observation of a call / of a call on a queue set / of every step of a session that executes a head of a v1 hook. *)

(* a run of mergeable tasks, of ANY length, followed by a task that is not mergeable is the block *)
Theorem C07_run_of_any_length_is_the_block : forall stop t run other tail,
  forallb (mergeable stop t) run = true -> mergeable stop t other = false ->
  block stop t (run ++ other :: tail) = run /\ after_block stop t (run ++ other :: tail) = other :: tail.
Proof. exact block_of_run. Qed.
Print Assumptions C07_run_of_any_length_is_the_block.

(* one call of the combiner on [t; run ...; other; tail ...] (+ [app] arriving meanwhile), [run] of any
   length >= 1: the result holds the compacted concatenation of the contexts of the head and of the WHOLE
   run and all their monitor ids; the queue is [t; other; tail ...; app ...]; the number of tasks that
   disappeared is the length of the run *)
Theorem C07_backlog_of_any_length_is_merged : forall stop t run other tail app,
  t_meta t = true -> NoDup (map t_id (t :: (run ++ other :: tail) ++ app)) ->
  run <> [] ->
  forallb (mergeable stop t) run = true -> mergeable stop t other = false ->
  let p := combine_concurrent stop t (t :: run ++ other :: tail) app in
  (exists res, fst p = Some res
               /\ r_ctxs res = spec_compact (t_ctxs t ++ flat_map t_ctxs run)
               /\ r_mids res = t_mids t ++ flat_map t_mids run)
  /\ snd p = t :: other :: tail ++ app
  /\ (N.of_nat (length (t :: (run ++ other :: tail) ++ app)) - N.of_nat (length (snd p)))%N = len_N run.
Proof. exact long_backlog_merged. Qed.
Print Assumptions C07_backlog_of_any_length_is_merged.

(* the number of followers the model merges is the length of the maximal same-hook run, whatever it is *)
Theorem C07_merged_count_is_run_length : forall stop t rest app,
  t_meta t = true -> NoDup (map t_id (t :: rest ++ app)) ->
  (len_N (snd (combine_concurrent stop t (t :: rest) app)) + followers stop t rest)%N
  = len_N (t :: rest ++ app)
  /\ followers stop t rest = N.of_nat (length (block stop t rest)).
Proof. intros stop t rest app Hm Hnd. split; [now apply merged_count_is_run_length | apply followers_block]. Qed.
Print Assumptions C07_merged_count_is_run_length.

(* the count clauses follow from the property's predicates, for ANY observation; so they hold of the model *)
Theorem C07_P_implies_count : forall i o, P i o = true -> P_count i o = true.
Proof. exact P_implies_P_count. Qed.
Print Assumptions C07_P_implies_count.

Theorem C07_count_holds : forall i, P_count i (run_model i) = true.
Proof. exact P_count_holds. Qed.
Print Assumptions C07_count_holds.

Theorem C07_set_count_holds : forall i, P_set_count i (run_set i) = true.
Proof. exact P_set_count_holds. Qed.
Print Assumptions C07_set_count_holds.

Theorem C07_session_count_holds : forall v0s steps qs,
  P_session_count v0s qs steps (run_session v0s qs steps) = true.
Proof. exact P_session_count_holds. Qed.
Print Assumptions C07_session_count_holds.

(* the forms of the predicates that the generated case files evaluate (linear time under call-by-value)
   are the predicates of C07_Spec *)
Theorem C07_lz_is_P : forall i o, P_lz i o = P i o.
Proof. exact P_lz_eq. Qed.
Print Assumptions C07_lz_is_P.

Theorem C07_lz_is_P_set : forall i o, P_set_lz i o = P_set i o.
Proof. exact P_set_lz_eq. Qed.
Print Assumptions C07_lz_is_P_set.

Theorem C07_lz_is_P_session : forall v0s steps qs obs, P_session_lz v0s qs steps obs = P_session v0s qs steps obs.
Proof. exact P_session_lz_eq. Qed.
Print Assumptions C07_lz_is_P_session.

(* non-vacuity: a backlog of 300 tasks of hook 1 (task k carries context k of group "a" for k divisible by 3,
   without group otherwise, and monitor id 1000+k) behind the head, then a task of hook 2, then one of hook 1;
   one more task of hook 1 arrives meanwhile.  A "batch" of 128 does not satisfy the predicates. *)
Fixpoint ex_run (n : nat) (k : N) : list task :=
  match n with
  | O => []
  | S n' => mkTask k 1 0 true [mkCtx k (if N.eqb (k mod 3) 0 then 1 else 0)] [1000 + k] 1 :: ex_run n' (N.succ k)
  end%N.
Definition ex_long_t : task := mkTask 1 1 0 true [mkCtx 1 0] [] 1.
Definition ex_long_run : list task := ex_run (N.to_nat 300) 2.
Definition ex_long_other : task := mkTask 900 2 0 true [mkCtx 900 0] [] 1.
Definition ex_long_tail : list task := [mkTask 901 1 0 true [mkCtx 901 0] [] 1]%N.
Definition ex_long_app : list task := [mkTask 902 1 0 true [mkCtx 902 0] [] 1]%N.
Definition ex_long_in : input :=
  mkIn ex_long_t [] (ex_long_t :: ex_long_run ++ ex_long_other :: ex_long_tail) ex_long_app.
(* what a combiner that absorbs at most 128 tasks would leave: a result with the head's and 128 followers'
   contexts, the other 172 followers still in the queue *)
Definition ex_batch_obs : obs :=
  mkObs (Some (compact (t_ctxs ex_long_t ++ flat_map t_ctxs (firstn 128 ex_long_run)),
               flat_map t_mids (firstn 128 ex_long_run)))
        (map t_id (ex_long_t :: skipn 128 ex_long_run ++ ex_long_other :: ex_long_tail ++ ex_long_app)).

Example C07_long_hyp_met :
  t_meta ex_long_t = true
  /\ NoDup (map t_id (ex_long_t :: (ex_long_run ++ ex_long_other :: ex_long_tail) ++ ex_long_app))
  /\ ex_long_run <> []
  /\ forallb (mergeable (fun _ => false) ex_long_t) ex_long_run = true
  /\ mergeable (fun _ => false) ex_long_t ex_long_other = false
  /\ len_N ex_long_run = 300%N
  /\ followers (fun _ => false) ex_long_t (ex_long_run ++ ex_long_other :: ex_long_tail) = 300%N
  /\ map t_id (snd (combine_concurrent (fun _ => false) ex_long_t
                     (ex_long_t :: ex_long_run ++ ex_long_other :: ex_long_tail) ex_long_app))
     = [1; 900; 901; 902]%N
  /\ wf ex_long_in = true
  /\ P ex_long_in ex_batch_obs = false
  /\ P_count ex_long_in ex_batch_obs = false.
Proof.
  split; [reflexivity|]. split; [apply nodupb_NoDup; vm_compute; reflexivity|].
  split; [discriminate|].
  (* [P] itself is evaluated in its _lz form (C07_lz_is_P): under call-by-value the form of C07_Spec needs 2^n steps *)
  rewrite <- C07_lz_is_P.
  do 7 (split; [vm_compute; reflexivity|]). vm_compute; reflexivity.
Qed.
