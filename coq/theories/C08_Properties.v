(* C08_Properties.v — the property theorems of C08 and nothing else.

   Model: C08_Model ([handle] after resourceInformer.handleWatchEvent, [glue] after
   jq.Filter.ApplyFilter, [with_event_types] after MonitorConfig.WithEventTypes).
   Oracle: [jq o] = (outputs, failed) of the binding's jqFilter on object o — a
   parameter of every theorem (gojq is not modelled; the correspondence fills it per
   case from /usr/bin/jq and runs the real gojq in the implementation).
   Assumptions stated in the model: md5 is collision-free on the serialised projections;
   JSON objects handed over by the oracle are in canonical form ([oracle_canonical]).

   Full statement of the property (every oracle, configuration and history):

     C08_full_statement := forall jq types filter h, oracle_canonical jq h ->
                           P jq types filter h (model_obs jq (mkConfig types filter) h) = true.

   It is FALSE of the faithful model and of the code, in two independent ways:
     F8  (C08_refuted)      jq results that are not a single JSON object all project to {}:
                            a change of `.spec.replicas` 3 -> 4 never triggers;
     F16 (C08_refuted_F16)  a filter that fails on an object makes handleWatchEvent drop
                            the delivery: no event (not even Deleted), stale snapshot.
   What is proved at full strength is C08_partial: P for every history outside both
   triggers.  C08_fire_iff / C08_redelivery_silent / C08_cache_always_latest /
   C08_default_all_three hold of the model as it is (w.r.t. the model's own projection).

   Delivery forms.  The handlers receive `object interface{}`: the object itself
   ([Plain]) or, for an object that disappeared while the watch was broken, a
   cache.DeletedFinalStateUnknown tombstone by value ([Tombstone]).  The specification
   speaks of CHANGES ([change_of] forgets the form), so the full statement over histories
   of deliveries is

     C08_full_statement_deliveries := forall jq types filter (h : list dstep),
         oracle_canonical jq (map change_of h) ->
         P jq types filter (map change_of h) (model_obs_d jq (mkConfig types filter) h) = true.

   C08_tombstone_same_as_object / C08_deleted_any_form / C08_partial_deliveries /
   C08_relist_snapshot are proved; the full statement over deliveries is refuted by the
   same two findings (C08_refuted_deliveries).

   The start of a binding.  Objects that exist when the binding is enabled do not arrive as
   deliveries first: resourceInformer.loadExistedObjects lists them directly ([load_existed],
   no event: they are the Synchronization snapshot) and only then the shared informer is
   started / joined (FactoryStore.Start) and re-delivers each of them through OnAdd
   ([start_replay]).  The specification knows these objects from the list on ([P_start]).

     C08_full_statement_start := forall jq types filter listed (h : list dstep), oracle_canonical .. ->
         exists c0, load_existed jq cfg listed [] = Some c0 /\
                    P_start jq types filter listed (map change_of h) (obs of run_d from c0 over h) = true.

   C08_partial_start (outside the two findings, every listed set and every history),
   C08_start_redelivery_silent (the replay of the listed objects fires nothing and leaves the
   snapshot untouched, for EVERY binding; environment assumption: the objects the informer
   delivers at its start are the objects the initial List returned) and C08_refuted_start.

   The binding as DECLARED.  "Listed in executeHookOnEvent" and "all subsets of {Added,
   Modified, Deleted}" speak of the list the user writes in the hook configuration.  A v1
   binding has two keys for it, executeHookOnEvent and the deprecated watchEvent, each absent
   or present with any list (the empty one included), also both ([decl]).
   HookConfigV1.ConvertAndCheck (config_v1.go) turns the declaration into
   MonitorConfig.EventTypes ([effective_types]); the specification reads the list off the
   declaration ([declared_types]: executeHookOnEvent whenever the key is present - `[]` is the
   documented snapshot-only binding -, else the former name, else the documented default, all
   three) and has the clause [only_listed] for "only if its watch-event type is listed in
   executeHookOnEvent".  [P_decl] = [P_start] w.r.t. the declared list + that clause.

     C08_full_statement_declared := forall jq d filter listed (h : list dstep), oracle_canonical .. ->
         exists c0, load_existed jq (mkConfig (effective_types d) filter) listed [] = Some c0 /\
                    P_decl jq d filter listed (map change_of h) (obs of run_d from c0 over h) = true.

   C08_effective_types_as_declared, C08_execute_hook_on_event_has_priority,
   C08_declared_only_listed and C08_only_listed_holds (every oracle, filter, cache and history:
   no finding touches the event-type gate), C08_snapshot_only_binding, C08_partial_declared
   (every declaration = every pair of absent / any list, outside the two findings) and
   C08_refuted_declared.

   Results with SEVERAL outputs (C08_MergeProofs).  A jqFilter may output any number of values
   of any kinds for an object (`.metadata.labels, .data`, `.a, .b, .c`, `.[]?`, `empty`), and
   which of them are objects depends on the object's own state.  ApplyFilter merges the object
   outputs ([glue]).  C08_merge_rule says what the merged object is - for every key the value
   the LAST object output binding it gives ([last_out]; the specification's clause [fr_shows]
   for the filterResult a snapshot shows) - and C08_merge_skips_nonobject /
   C08_merge_only_objects / C08_merge_precedence / C08_merge_keeps_object_keys /
   C08_merge_no_foreign_key / C08_merged_result_shows are its consequences for every sequence
   of outputs.  C08_object_part_change_triggers: a change at some key of the part the object
   outputs produce triggers (type listed) and the snapshot shows the new filterResult, whatever
   null / scalar / array outputs stand before or after.  The finding F8 is narrowed to what it
   is ([T_F8m]: two DIFFERING results of the history merge into the same object;
   C08_F8m_narrower): C08_partial_merge / C08_partial_merge_declared prove P for every history
   outside [T_F8m] and F16 (no canonicity assumption needed), C08_refuted_merge keeps the
   witness. *)
From Verif Require Import Common Json C08_Model C08_Spec C08_Proofs C08_MergeProofs.
From Verif Require Import C08_Text C08_TextProofs.
From Verif Require Import C08_WinProofs.

Definition C08_full_statement : Prop :=
  forall jq types filter h, oracle_canonical jq h ->
  P jq types filter h (model_obs jq (mkConfig types filter) h) = true.

(* the trigger decision of one delivery, in terms of the projection the code compares *)
Theorem C08_fire_iff : forall jq cfg c t id o e,
  apply_filter jq cfg o = Some e ->
  (snd (handle jq cfg c t id o) <> None <->
   should_fire cfg t = true /\
   (t = Deleted \/ c_get id c = None \/
    exists cached, c_get id c = Some cached /\ e_proj cached <> e_proj e)).
Proof. exact fire_iff_prop. Qed.
Print Assumptions C08_fire_iff.

(* re-delivery of the object the snapshot already shows fires nothing and changes nothing *)
Theorem C08_redelivery_silent : forall jq cfg h id e t,
  c_get id (final_cache jq cfg [] h) = Some e -> t <> Deleted ->
  let c := final_cache jq cfg [] h in
  snd (handle jq cfg c t id (e_obj e)) = None /\
  forall id', c_get id' (fst (handle jq cfg c t id (e_obj e))) = c_get id' c.
Proof. exact redelivery_silent. Qed.
Print Assumptions C08_redelivery_silent.

(* after any history on which the filter never fails, the cache holds, for every id, the
   object of its last delivery (nothing after a Deleted) — fired or suppressed alike *)
Theorem C08_cache_always_latest : forall jq cfg h id,
  never_fails jq cfg h ->
  option_map e_obj (c_get id (final_cache jq cfg [] h)) = latest id None h.
Proof. exact cache_always_latest. Qed.
Print Assumptions C08_cache_always_latest.

(* executeHookOnEvent not configured = all three types *)
Theorem C08_default_all_three :
  with_event_types None = [Added; Modified; Deleted] /\
  forall filter t, should_fire (mkConfig (with_event_types None) filter) t = true.
Proof. exact default_all_three. Qed.
Print Assumptions C08_default_all_three.

(* the property, for every history outside the two recorded findings *)
Theorem C08_partial : forall jq types filter h,
  oracle_canonical jq h -> T_F8 jq filter h = false -> T_F16 jq filter h = false ->
  P jq types filter h (model_obs jq (mkConfig types filter) h) = true.
Proof. exact partial. Qed.
Print Assumptions C08_partial.

(* F8: filter `.spec.replicas`, all three types, Added replicas=3 then Modified replicas=4:
   the Modified does not fire *)
Theorem C08_refuted : exists jq types filter h,
  oracle_canonical jq h /\ T_F8 jq filter h = true /\ T_F16 jq filter h = false /\
  P jq types filter h (model_obs jq (mkConfig types filter) h) = false.
Proof. exact refuted_F8. Qed.
Print Assumptions C08_refuted.

(* F16: filter `{r: .spec.replicas.foo}`, Added {spec:{}}, Modified {spec:{replicas:4}}
   (the filter fails: dropped, snapshot stale), Deleted (dropped too: no event, ghost) *)
Theorem C08_refuted_F16 : exists jq types filter h,
  oracle_canonical jq h /\ T_F16 jq filter h = true /\ T_F8 jq filter h = false /\
  P jq types filter h (model_obs jq (mkConfig types filter) h) = false.
Proof. exact refuted_F16. Qed.
Print Assumptions C08_refuted_F16.

(* ---- the form of the delivered argument ---- *)

Definition C08_full_statement_deliveries : Prop :=
  forall jq types filter (h : list dstep), oracle_canonical jq (map change_of h) ->
  P jq types filter (map change_of h) (model_obs_d jq (mkConfig types filter) h) = true.

(* a tombstone is handled exactly as the object it wraps, for every handler and cache *)
Theorem C08_tombstone_same_as_object : forall jq cfg c t id key o,
  handle_d jq cfg c t id (Tombstone key o) = handle_d jq cfg c t id (Plain o).
Proof. exact tombstone_same. Qed.
Print Assumptions C08_tombstone_same_as_object.

(* "a Deleted change triggers whenever Deleted is listed": in either form, whatever the
   cache holds; the event carries the delivered object and exactly this id leaves the cache *)
Theorem C08_deleted_any_form : forall jq cfg c id d e,
  apply_filter jq cfg (unwrap d) = Some e ->
  snd (handle_d jq cfg c Deleted id d)
    = (if should_fire cfg Deleted then Some (mkEvent Deleted id e) else None) /\
  e_obj e = unwrap d /\
  forall id', c_get id' (fst (handle_d jq cfg c Deleted id d))
              = if N.eqb id' id then None else c_get id' c.
Proof. exact deleted_any_form. Qed.
Print Assumptions C08_deleted_any_form.

(* the property for every history of deliveries (any mix of forms) outside the two findings *)
Theorem C08_partial_deliveries : forall jq types filter (h : list dstep),
  oracle_canonical jq (map change_of h) ->
  T_F8 jq filter (map change_of h) = false -> T_F16 jq filter (map change_of h) = false ->
  P jq types filter (map change_of h) (model_obs_d jq (mkConfig types filter) h) = true.
Proof. exact partial_d. Qed.
Print Assumptions C08_partial_deliveries.

(* a relist (client-go: DeltaFIFO.Replace + processDeltas, [relist]) from a cache that shows
   what the shared informer's store holds leaves a cache that shows exactly the new list:
   objects that disappeared during the outage are gone, whichever unchanged re-deliveries
   the shared informer leaves out ([quiet]) *)
Theorem C08_relist_snapshot : forall jq cfg quiet c store listed,
  store_agrees c store -> NoDup (map fst listed) ->
  never_fails jq cfg (map change_of (relist quiet store listed)) ->
  store_agrees (final_cache_d jq cfg c (relist quiet store listed)) listed.
Proof. exact relist_snapshot. Qed.
Print Assumptions C08_relist_snapshot.

(* the full statement over deliveries fails for the same two reasons *)
Theorem C08_refuted_deliveries :
  (exists jq types filter h,
    oracle_canonical jq (map change_of h) /\ T_F8 jq filter (map change_of h) = true /\
    T_F16 jq filter (map change_of h) = false /\
    P jq types filter (map change_of h) (model_obs_d jq (mkConfig types filter) h) = false) /\
  (exists jq types filter h,
    oracle_canonical jq (map change_of h) /\ T_F16 jq filter (map change_of h) = true /\
    T_F8 jq filter (map change_of h) = false /\
    P jq types filter (map change_of h) (model_obs_d jq (mkConfig types filter) h) = false).
Proof. exact refuted_d. Qed.
Print Assumptions C08_refuted_deliveries.

(* non-vacuity of the delivery theorems: the filter is the `{r:.spec.replicas}`-like oracle
   [jq_obj] below; object 1 disappears during an outage and object 3 appears: the relist
   delivers an Added for 3 and a tombstone for 1, the unchanged object 2 is left out *)
Definition jq_obj (o : json) : list json * bool :=
  if json_eqb o (o_rep 3) then ([JObj [(k_r, JNum 3)]], false)
  else if json_eqb o (o_rep 4) then ([JObj [(k_r, JNum 4)]], false)
  else ([JObj [(k_r, JNull)]], false).

Example C08_relist_hyp_met :
  let cfg := mkConfig all3 true in
  let h0 := [(Added, 1%N, Plain (o_rep 3)); (Added, 2%N, Plain o_norep)] in
  let store := [(1%N, o_rep 3); (2%N, o_norep)] in
  let listed := [(2%N, o_norep); (3%N, o_rep 4)] in
  let r := relist (fun _ => true) store listed in
  store_agrees (final_cache_d jq_obj cfg [] h0) store /\
  NoDup (map fst listed) /\
  never_fails jq_obj cfg (map change_of r) /\
  r = [(Added, 3%N, Plain (o_rep 4)); (Deleted, 1%N, Tombstone 1%N (o_rep 3))] /\
  T_F8 jq_obj true (map change_of (h0 ++ r)) = false /\
  T_F16 jq_obj true (map change_of (h0 ++ r)) = false /\
  map o_fired (model_obs_d jq_obj cfg (h0 ++ r)) = [[Added]; [Added]; [Added]; [Deleted]] /\
  map (fun o => map fst (o_snapshot o)) (model_obs_d jq_obj cfg (h0 ++ r))
  = [[1]; [1; 2]; [1; 2; 3]; [2; 3]]%N.
Proof.
  cbv zeta. split; [|split; [|split; [|repeat split; vm_compute; reflexivity]]].
  - intros id. vm_compute final_cache_d. cbn [c_get a_get option_map].
    destruct (N.eqb id 1); [reflexivity|]. destruct (N.eqb id 2); reflexivity.
  - cbn [map fst]. constructor; [intros [H|[]]; discriminate|].
    constructor; [intros []|constructor].
  - intros s Hs. vm_compute in Hs. destruct Hs as [H|[H|[]]]; subst s; vm_compute; discriminate.
Qed.

(* ---- the start of a binding: initial list (loadExistedObjects), then the shared
   informer's replay of the existing objects (FactoryStore.Start) ---- *)

Definition C08_full_statement_start : Prop :=
  forall jq types filter listed (h : list dstep),
    oracle_canonical jq (listed_steps listed ++ map change_of h) ->
    exists c0, load_existed jq (mkConfig types filter) listed [] = Some c0 /\
      P_start jq types filter listed (map change_of h)
              (map to_obs (run_d jq (mkConfig types filter) c0 h)) = true.

(* the property for every binding, every set of objects that exist when it is enabled and
   every history of deliveries that follows (the informer's replay at its start first),
   outside the two findings: the objects are known from the initial list on *)
Theorem C08_partial_start : forall jq types filter listed (h : list dstep),
  oracle_canonical jq (listed_steps listed ++ map change_of h) ->
  T_F8 jq filter (listed_steps listed ++ map change_of h) = false ->
  T_F16 jq filter (listed_steps listed ++ map change_of h) = false ->
  exists c0, load_existed jq (mkConfig types filter) listed [] = Some c0 /\
    P_start jq types filter listed (map change_of h)
            (map to_obs (run_d jq (mkConfig types filter) c0 h)) = true.
Proof. exact partial_start. Qed.
Print Assumptions C08_partial_start.

(* "Re-delivery of an unchanged object (informer start ...) triggers nothing", for all
   bindings (any filter, also outside the findings' triggers, any event types) and all object
   sets.  ENVIRONMENT ASSUMPTION [incl delivered listed]: every object the shared informer
   hands to the handler at its start is, id and content, an object the binding's initial
   List returned (nothing changed in the cluster in between and the informer delivers objects
   as the List does); order and multiplicity are free.  Then no delivery of the replay fires,
   every one leaves the cache as loadExistedObjects filled it, and that cache shows exactly
   the listed objects.  The correspondence checks the assumption on every case that runs the
   real shared informer: the delivered objects are observed and compared with the cluster's. *)
Theorem C08_start_redelivery_silent : forall jq cfg listed delivered c0,
  NoDup (map fst listed) ->
  load_existed jq cfg listed [] = Some c0 ->
  incl delivered listed ->
  Forall (fun r : cache * option event => snd r = None /\ forall id, c_get id (fst r) = c_get id c0)
         (run_d jq cfg c0 (start_replay delivered)) /\
  store_agrees c0 listed.
Proof. exact start_silent. Qed.
Print Assumptions C08_start_redelivery_silent.

(* the full statement at the start fails for the recorded reason F8 (object listed with
   replicas=3, Modified to replicas=4 fires nothing) *)
Theorem C08_refuted_start :
  exists jq types filter listed (h : list dstep) c0,
    oracle_canonical jq (listed_steps listed ++ map change_of h) /\
    T_F8 jq filter (listed_steps listed ++ map change_of h) = true /\
    T_F16 jq filter (listed_steps listed ++ map change_of h) = false /\
    load_existed jq (mkConfig types filter) listed [] = Some c0 /\
    P_start jq types filter listed (map change_of h)
            (map to_obs (run_d jq (mkConfig types filter) c0 h)) = false.
Proof. exact refuted_start. Qed.
Print Assumptions C08_refuted_start.

(* non-vacuity of the start theorems: two objects exist; the informer replays them in the
   other order; then object 1 really changes.  No filter (whole-object projection) and the
   `{r:.spec.replicas}`-like oracle alike: the replay is silent, the change fires; and the
   specification REJECTS an observation in which the replay of the unchanged object 1 fires. *)
Example C08_start_hyp_met :
  let listed := [(1%N, o_rep 3); (2%N, o_norep)] in
  let delivered := [(2%N, o_norep); (1%N, o_rep 3)] in
  let h := start_replay delivered ++ [(Modified, 1%N, Plain (o_rep 4))] in
  NoDup (map fst listed) /\ incl delivered listed /\
  (forall filter, exists c0,
     load_existed jq_obj (mkConfig all3 filter) listed [] = Some c0 /\
     map (fun ie => (fst ie, e_obj (snd ie))) c0 = listed /\
     map o_fired (map to_obs (run_d jq_obj (mkConfig all3 filter) c0 h)) = [[]; []; [Modified]] /\
     P_start jq_obj all3 filter listed (map change_of h)
             (map to_obs (run_d jq_obj (mkConfig all3 filter) c0 h)) = true) /\
  T_F8 jq_obj true (listed_steps listed ++ map change_of h) = false /\
  T_F16 jq_obj true (listed_steps listed ++ map change_of h) = false /\
  (forall filter,
     P_start jq_obj all3 filter listed (map change_of (start_replay delivered))
             [mkObs [] listed; mkObs [Added] listed] = false /\
     P_start jq_obj all3 filter listed (map change_of (start_replay delivered))
             [mkObs [] listed; mkObs [] listed] = true).
Proof.
  cbv zeta. split; [|split; [|split; [|split; [|split]]]].
  - cbn [map fst]. constructor; [intros [H|[]]; discriminate|].
    constructor; [intros []|constructor].
  - intros io [H|[H|[]]]; subst io; [right; left | left]; reflexivity.
  - intros filter. destruct filter; eexists; (split; [vm_compute; reflexivity|]);
      (split; [vm_compute; reflexivity|]); (split; vm_compute; reflexivity).
  - vm_compute; reflexivity.
  - vm_compute; reflexivity.
  - intros filter; destruct filter; split; vm_compute; reflexivity.
Qed.

(* ---- the binding as declared: executeHookOnEvent / watchEvent ---- *)

Definition C08_full_statement_declared : Prop :=
  forall jq d filter listed (h : list dstep),
    oracle_canonical jq (listed_steps listed ++ map change_of h) ->
    exists c0, load_existed jq (mkConfig (effective_types d) filter) listed [] = Some c0 /\
      P_decl jq d filter listed (map change_of h)
             (map to_obs (run_d jq (mkConfig (effective_types d) filter) c0 h)) = true.

(* the conversion of the hook configuration (config_v1.go) produces, for EVERY declaration -
   either key absent or present with any list -, the list the specification reads off the
   declaration, and the informer's gate decides by membership in it *)
Theorem C08_effective_types_as_declared : forall d,
  effective_types d = declared_types d /\
  forall filter t, should_fire (mkConfig (effective_types d) filter) t = listed (declared_types d) t.
Proof. exact effective_as_declared. Qed.
Print Assumptions C08_effective_types_as_declared.

(* executeHookOnEvent present (any list, also the empty one): it IS the effective list,
   whatever the deprecated key says beside it *)
Theorem C08_execute_hook_on_event_has_priority : forall l w,
  effective_types (mkDecl (Some l) w) = l.
Proof. exact exec_priority. Qed.
Print Assumptions C08_execute_hook_on_event_has_priority.

(* "triggers the hook only if its watch-event type is listed in executeHookOnEvent": whenever
   the key is present, for every oracle (also inside the findings' domains), every filter
   setting, every cache and every history of deliveries in either form *)
Theorem C08_declared_only_listed : forall jq d filter l c h,
  d_exec d = Some l ->
  Forall (fun r : cache * option event => forall ev, snd r = Some ev -> In (ev_type ev) l)
         (run_d jq (mkConfig (effective_types d) filter) c h).
Proof. exact declared_only_listed. Qed.
Print Assumptions C08_declared_only_listed.

(* the specification's clause [only_listed] holds of the model's observations, no hypothesis *)
Theorem C08_only_listed_holds : forall jq d filter c h,
  only_listed d (map to_obs (run_d jq (mkConfig (effective_types d) filter) c h)) = true.
Proof. exact only_listed_model. Qed.
Print Assumptions C08_only_listed_holds.

(* the documented snapshot-only binding `executeHookOnEvent: []`: no delivery ever fires,
   whatever watchEvent says, and (where the filter does not fail) the snapshot shows the
   latest state of every object all the same *)
Theorem C08_snapshot_only_binding : forall jq w filter,
  (forall c h, Forall (fun r : cache * option event => snd r = None)
                      (run_d jq (mkConfig (effective_types (mkDecl (Some []) w)) filter) c h)) /\
  (forall h id,
     let cfg := mkConfig (effective_types (mkDecl (Some []) w)) filter in
     never_fails jq cfg (map change_of h) ->
     option_map e_obj (c_get id (final_cache_d jq cfg [] h)) = latest id None (map change_of h)).
Proof. exact snapshot_only_binding. Qed.
Print Assumptions C08_snapshot_only_binding.

(* the property for every declared binding - executeHookOnEvent absent or any list, watchEvent
   absent or any list -, every set of objects that exist when it is enabled and every history
   of deliveries, outside the two findings *)
Theorem C08_partial_declared : forall jq d filter listed (h : list dstep),
  oracle_canonical jq (listed_steps listed ++ map change_of h) ->
  T_F8 jq filter (listed_steps listed ++ map change_of h) = false ->
  T_F16 jq filter (listed_steps listed ++ map change_of h) = false ->
  exists c0, load_existed jq (mkConfig (effective_types d) filter) listed [] = Some c0 /\
    P_decl jq d filter listed (map change_of h)
           (map to_obs (run_d jq (mkConfig (effective_types d) filter) c0 h)) = true.
Proof. exact partial_declared. Qed.
Print Assumptions C08_partial_declared.

(* the full statement for declared bindings fails for the recorded reason F8 *)
Theorem C08_refuted_declared :
  exists jq d filter listed (h : list dstep) c0,
    oracle_canonical jq (listed_steps listed ++ map change_of h) /\
    T_F8 jq filter (listed_steps listed ++ map change_of h) = true /\
    T_F16 jq filter (listed_steps listed ++ map change_of h) = false /\
    load_existed jq (mkConfig (effective_types d) filter) listed [] = Some c0 /\
    P_decl jq d filter listed (map change_of h)
           (map to_obs (run_d jq (mkConfig (effective_types d) filter) c0 h)) = false.
Proof. exact refuted_declared. Qed.
Print Assumptions C08_refuted_declared.

(* non-vacuity of the declaration theorems.  History: object 1 exists (replicas 3), the
   informer replays it, it changes to replicas 4, object 2 appears, object 1 is deleted.
   (1) `executeHookOnEvent: []` beside a leftover `watchEvent: [Added, Modified, Deleted]`:
       nothing fires, the snapshot follows, P_decl holds - and P_decl REJECTS the observation
       in which these deliveries fire as the watchEvent list would have it;
   (2) only `watchEvent: [Added]`: exactly the Added fires;   (3) neither key: all fire;
   (4) `executeHookOnEvent: [Deleted, Deleted]` beside `watchEvent: [Added]`: the Deleted fires. *)
Example C08_declared_hyp_met :
  let listed := [(1%N, o_rep 3)] in
  let h := start_replay listed ++
           [(Modified, 1%N, Plain (o_rep 4)); (Added, 2%N, Plain o_norep); (Deleted, 1%N, Tombstone 1%N (o_rep 4))] in
  let run d := match load_existed jq_obj (mkConfig (effective_types d) true) listed [] with
               | Some c0 => map to_obs (run_d jq_obj (mkConfig (effective_types d) true) c0 h)
               | None => []
               end in
  let snap_only := mkDecl (Some []) (Some all3) in
  T_F8 jq_obj true (listed_steps listed ++ map change_of h) = false /\
  T_F16 jq_obj true (listed_steps listed ++ map change_of h) = false /\
  d_exec snap_only = Some [] /\
  map o_fired (run snap_only) = [[]; []; []; []] /\
  map (fun o => map fst (o_snapshot o)) (run snap_only) = [[1]; [1]; [1; 2]; [2]]%N /\
  P_decl jq_obj snap_only true listed (map change_of h) (run snap_only) = true /\
  P_decl jq_obj snap_only true listed (map change_of h) (run (mkDecl None (Some all3))) = false /\
  only_listed snap_only (run (mkDecl None (Some all3))) = false /\
  map o_fired (run (mkDecl None (Some [Added]))) = [[]; []; [Added]; []] /\
  P_decl jq_obj (mkDecl None (Some [Added])) true listed (map change_of h) (run (mkDecl None (Some [Added]))) = true /\
  map o_fired (run (mkDecl None None)) = [[]; [Modified]; [Added]; [Deleted]] /\
  P_decl jq_obj (mkDecl None None) true listed (map change_of h) (run (mkDecl None None)) = true /\
  map o_fired (run (mkDecl (Some [Deleted; Deleted]) (Some [Added]))) = [[]; []; []; [Deleted]] /\
  P_decl jq_obj (mkDecl (Some [Deleted; Deleted]) (Some [Added])) true listed (map change_of h)
         (run (mkDecl (Some [Deleted; Deleted]) (Some [Added]))) = true.
Proof. cbv zeta. repeat split; vm_compute; reflexivity. Qed.

(* non-vacuity.  (1) C08_partial's hypotheses are met by a non-trivial history: filter
   `{r:.spec.replicas}`-like oracle returning one canonical object per state; a change
   inside the projection fires, a re-delivery and a Deleted behave as the text says.
   (2) the F8 witness: what the model (and the code) does.  (3) the F16 witness. *)
Example C08_hyp_met :
  let h := [(Added, 1%N, o_rep 3); (Modified, 1%N, o_rep 3); (Modified, 1%N, o_rep 4);
            (Added, 2%N, o_norep); (Deleted, 1%N, o_rep 4)] in
  T_F8 jq_obj true h = false /\ T_F16 jq_obj true h = false /\
  map o_fired (model_obs jq_obj (mkConfig all3 true) h)
  = [[Added]; []; [Modified]; [Added]; [Deleted]] /\
  map (fun o => map fst (o_snapshot o)) (model_obs jq_obj (mkConfig all3 true) h)
  = [[1]; [1]; [1]; [1; 2]; [2]]%N /\
  never_fails jq_obj (mkConfig all3 true) h.
Proof.
  cbv zeta. repeat split; try (vm_compute; reflexivity).
  intros s [H|[H|[H|[H|[H|[]]]]]]; subst s; vm_compute; discriminate.
Qed.

Example C08_F8_behaviour :
  map o_fired (model_obs jq_replicas (mkConfig all3 true) h_F8) = [[Added]; []].
Proof. vm_compute; reflexivity. Qed.

Example C08_filter_error_drops_change :
  map o_fired (model_obs jq_foo (mkConfig all3 true) h_F16) = [[Added]; []; []] /\
  map o_snapshot (model_obs jq_foo (mkConfig all3 true) h_F16)
  = [[(1%N, o_norep)]; [(1%N, o_norep)]; [(1%N, o_norep)]].
Proof. split; vm_compute; reflexivity. Qed.

(* ======== jqFilter results with several outputs of mixed kinds ======== *)

(* THE MERGE RULE of jq.Filter.ApplyFilter, for every sequence of outputs and every key: the
   merged object shows what the last object output that binds the key says *)
Theorem C08_merge_rule : forall outs k, jget k (glue outs) = last_out k outs.
Proof. exact glue_get. Qed.
Print Assumptions C08_merge_rule.

(* an output that is no object (null, scalar, array) changes nothing, wherever it stands *)
Theorem C08_merge_skips_nonobject : forall pre v post,
  is_object v = false -> glue (pre ++ v :: post) = glue (pre ++ post).
Proof. exact glue_skips_nonobject. Qed.
Print Assumptions C08_merge_skips_nonobject.

Theorem C08_merge_only_objects : forall outs, glue outs = glue (List.filter is_object outs).
Proof. exact glue_only_objects. Qed.
Print Assumptions C08_merge_only_objects.

(* order of precedence between object outputs: the later one wins, key by key *)
Theorem C08_merge_precedence : forall pre m post k v,
  last_binding k m = Some v ->
  jget k (glue (pre ++ JObj m :: post))
  = match last_out k post with Some w => Some w | None => Some v end.
Proof. exact glue_precedence. Qed.
Print Assumptions C08_merge_precedence.

(* an object output's keys are in the projection whatever surrounds the output *)
Theorem C08_merge_keeps_object_keys : forall pre m post k v,
  last_binding k m = Some v -> jget k (glue (pre ++ JObj m :: post)) <> None.
Proof. exact glue_keeps_object_keys. Qed.
Print Assumptions C08_merge_keeps_object_keys.

Theorem C08_merge_no_foreign_key : forall outs k,
  ~ In k (out_keys outs) -> jget k (glue outs) = None.
Proof. exact glue_no_foreign_key. Qed.
Print Assumptions C08_merge_no_foreign_key.

(* the merged object meets the specification's clause for the filterResult a snapshot shows *)
Theorem C08_merged_result_shows : forall outs, fr_shows outs (glue outs) = true.
Proof. exact glue_fr_shows. Qed.
Print Assumptions C08_merged_result_shows.

(* a change in the part produced by the object outputs is a change of the projection: the hook
   is triggered with the current filterResult and the snapshot holds it *)
Theorem C08_object_part_change_triggers : forall jq cfg c t id o cached k,
  c_filter cfg = true -> t <> Deleted -> should_fire cfg t = true ->
  c_get id c = Some cached -> apply_filter jq cfg (e_obj cached) = Some cached ->
  snd (jq o) = false ->
  last_out k (fst (jq (e_obj cached))) <> last_out k (fst (jq o)) ->
  let e := mkEntry o (glue (fst (jq o))) (Some (glue (fst (jq o)))) in
  handle jq cfg c t id o = (c_set id e c, Some (mkEvent t id e)) /\
  fr_shows (fst (jq o)) (glue (fst (jq o))) = true.
Proof. exact object_part_change_triggers. Qed.
Print Assumptions C08_object_part_change_triggers.

(* the narrowed trigger fires only where the old one fires *)
Theorem C08_F8m_narrower : forall jq filter h,
  oracle_canonical jq h -> T_F8m jq filter h = true -> T_F8 jq filter h = true.
Proof. exact T_F8m_narrower. Qed.
Print Assumptions C08_F8m_narrower.

(* P for every history outside the narrowed trigger and F16: any number of outputs, any kinds *)
Theorem C08_partial_merge : forall jq types filter h,
  T_F8m jq filter h = false -> T_F16 jq filter h = false ->
  P jq types filter h (model_obs jq (mkConfig types filter) h) = true.
Proof. exact partial_merge. Qed.
Print Assumptions C08_partial_merge.

Theorem C08_partial_merge_declared : forall jq d filter listed (h : list dstep),
  T_F8m jq filter (listed_steps listed ++ map change_of h) = false ->
  T_F16 jq filter (listed_steps listed ++ map change_of h) = false ->
  exists c0, load_existed jq (mkConfig (effective_types d) filter) listed [] = Some c0 /\
    P_decl jq d filter listed (map change_of h)
           (map to_obs (run_d jq (mkConfig (effective_types d) filter) c0 h)) = true.
Proof. exact partial_merge_declared. Qed.
Print Assumptions C08_partial_merge_declared.

(* the F8 witness is inside the narrowed trigger too *)
Theorem C08_refuted_merge : exists jq types filter h,
  T_F8m jq filter h = true /\ T_F16 jq filter h = false /\
  P jq types filter h (model_obs jq (mkConfig types filter) h) = false.
Proof. exists jq_replicas, all3, true, h_F8. vm_compute. repeat split; reflexivity. Qed.
Print Assumptions C08_refuted_merge.

(* non-vacuity: `.metadata.labels, .data` on an object without labels ([null, {k:..}]); the old
   trigger holds, the narrowed one does not; Added, re-delivery, data changes *)
Example C08_multi_hyp_met :
  T_F8 jq_labels_data true h_multi = true /\
  T_F8m jq_labels_data true h_multi = false /\ T_F16 jq_labels_data true h_multi = false /\
  map o_fired (model_obs jq_labels_data (mkConfig [Added; Modified; Deleted] true) h_multi)
  = [[Added]; []; [Modified]].
Proof. exact multi_hyp_met. Qed.

Example C08_object_part_change_hyp_met :
  let cached := mkEntry (o_data 1) (glue [JNull; JObj [(k_k, JNum 1)]]) (Some (glue [JNull; JObj [(k_k, JNum 1)]])) in
  apply_filter jq_labels_data (mkConfig [Modified] true) (e_obj cached) = Some cached /\
  last_out k_k (fst (jq_labels_data (e_obj cached))) <> last_out k_k (fst (jq_labels_data (o_data 2))).
Proof. cbv zeta. split; [vm_compute; reflexivity | vm_compute; discriminate]. Qed.

(* ---- WHEN two projections differ: the value domain (C08_Text.v) ----
   The code compares md5 checksums of the canonical JSON text of the projections.
   [val_ok]: numbers as the harness hands them over (integral -> JNum, else a non-integer literal). *)

(* the canonical text is injective on JSON values: two values have the same text iff they are
   equal - 9090 / "9090", true / "true", null / "null", {"a":"x","b":"y"} / {"a":"x b:y"}, a map or
   array / the string that prints it: all have different texts *)
Theorem C08_json_text_injective : forall a b,
  val_ok a = true -> val_ok b = true -> (json_text a = json_text b <-> a = b).
Proof. exact json_text_injective. Qed.
Print Assumptions C08_json_text_injective.

(* under the ONE trusted statement about md5 (no collision among canonical texts of JSON values):
   the checksums are equal iff the projections are equal as JSON values *)
Theorem C08_checksum_decides_equality : forall md5, collision_free md5 -> forall a b,
  val_ok a = true -> val_ok b = true ->
  bytes_eqb (checksum md5 a) (checksum md5 b) = json_eqb a b.
Proof. exact checksum_decides_equality. Qed.
Print Assumptions C08_checksum_decides_equality.

(* the model that compares checksums (handleWatchEvent as written) behaves on every history
   exactly as the model that compares projections (the one all theorems above speak of) *)
Theorem C08_checksum_model_is_projection_model : forall md5, collision_free md5 -> forall jq cfg h c,
  cache_ok c -> projs_ok jq cfg h -> run_ck md5 jq cfg c h = run jq cfg c h.
Proof. exact run_ck_run. Qed.
Print Assumptions C08_checksum_model_is_projection_model.

(* the property for the checksum model, on every history outside the recorded findings *)
Theorem C08_checksum_model_partial : forall md5, collision_free md5 -> forall jq types filter h,
  projs_ok jq (mkConfig types filter) h ->
  T_F8m jq filter h = false -> T_F16 jq filter h = false ->
  P jq types filter h (map to_obs (run_ck md5 jq (mkConfig types filter) [] h)) = true.
Proof. exact checksum_model_partial. Qed.
Print Assumptions C08_checksum_model_partial.

(* the clause about values: a Modified delivery of a known object fires iff Modified is listed
   and the projection, as a JSON value, differs from the last one known *)
Theorem C08_modified_value_change_triggers : forall md5, collision_free md5 -> forall jq types filter h,
  projs_ok jq (mkConfig types filter) h ->
  T_F8m jq filter h = false -> T_F16 jq filter h = false ->
  modified_values_ok jq types filter [] h (map to_obs (run_ck md5 jq (mkConfig types filter) [] h)) = true.
Proof. exact modified_value_change_triggers. Qed.
Print Assumptions C08_modified_value_change_triggers.

(* whatever observations satisfy P satisfy the clause (it is part of the property) *)
Theorem C08_P_implies_modified_values : forall jq types filter h k obs_l,
  P_from jq types filter k h obs_l = true -> modified_values_ok jq types filter k h obs_l = true.
Proof. intros jq types filter h k obs_l. exact (P_from_modified_values jq types filter h k obs_l). Qed.
Print Assumptions C08_P_implies_modified_values.

(* non-vacuity.  The look-alikes are values ([val_ok]) and pairwise different, so by the
   theorem their texts differ; a history over them meets the hypotheses; the identity function
   is collision-free (the hypothesis about md5 is satisfiable). *)
Definition b_9090 : bytes := [57; 48; 57; 48]%N.
Definition b_tp : bytes := [116; 112]%N.                      (* tp *)
Definition b_a : bytes := [97]%N.
Definition b_b : bytes := [98]%N.
Definition b_x : bytes := [120]%N.
Definition b_y : bytes := [121]%N.
Definition b_x_b_y : bytes := [120; 32; 98; 58; 121]%N.        (* x b:y *)
Definition b_true : bytes := [116; 114; 117; 101]%N.
Definition b_null : bytes := [110; 117; 108; 108]%N.
Definition b_1_5 : bytes := [49; 46; 53]%N.                    (* 1.5 *)
Definition look_alikes : list json :=
  [JNum 9090; JStr b_9090; JBool true; JStr b_true; JNull; JStr b_null; JFlt b_1_5; JStr b_1_5;
   JObj [(b_a, JStr b_x); (b_b, JStr b_y)]; JObj [(b_a, JStr b_x_b_y)];
   JArr [JStr b_x; JStr b_y]; JArr [JStr (b_x ++ [32%N] ++ b_y)]].

Example C08_look_alikes_are_values : forallb val_ok look_alikes = true.
Proof. vm_compute. reflexivity. Qed.

Example C08_look_alikes_texts_differ :
  json_text (JNum 9090) <> json_text (JStr b_9090) /\
  json_text (JObj [(b_a, JStr b_x); (b_b, JStr b_y)]) <> json_text (JObj [(b_a, JStr b_x_b_y)]).
Proof. split; apply text_differs; try (vm_compute; reflexivity); discriminate. Qed.

Example C08_collision_free_satisfiable : collision_free (fun t => t).
Proof. intros a b _ _ E. exact E. Qed.

(* jqFilter {tp:.spec.ports[0].targetPort} over an object whose targetPort goes 9090 -> "9090" -> "9090":
   Added fires, the change of the scalar's TYPE fires, the re-delivery does not *)
Definition svc_obj (tp : json) : json := JObj [(b_tp, tp)].
Definition jq_tp (o : json) : list json * bool := ([o], false).
Definition h_tp : list step :=
  [(Added, 1%N, svc_obj (JNum 9090)); (Modified, 1%N, svc_obj (JStr b_9090)); (Modified, 1%N, svc_obj (JStr b_9090))].

Example C08_value_hyp_met :
  projs_ok jq_tp (mkConfig [Added; Modified; Deleted] true) h_tp /\
  T_F8m jq_tp true h_tp = false /\ T_F16 jq_tp true h_tp = false /\
  map o_fired (map to_obs (run_ck (fun t => t) jq_tp (mkConfig [Added; Modified; Deleted] true) [] h_tp))
  = [[Added]; [Modified]; []].
Proof.
  split; [|vm_compute; repeat split; reflexivity].
  intros s e Hin He. cbn [h_tp In] in Hin.
  destruct Hin as [<-|[<-|[<-|[]]]]; vm_compute in He; injection He as <-; vm_compute; reflexivity.
Qed.

(* ---- the window in which the binding's events are SAVED (monitor started, not yet unlocked):
   eventCbEnabled / eventBuf, flapping histories (A -> B -> A -> B; create / delete / re-create) ---- *)

Definition C08_full_statement_window : Prop :=
  forall jq d filter listed (h1 h2 : list dstep),
    exists c0, load_existed jq (mkConfig (effective_types d) filter) listed [] = Some c0 /\
      let cfg := mkConfig (effective_types d) filter in
      let rs := run_w jq cfg (mkW c0 false []) (window_ops h1 h2) in
      let n := length h1 in
      P_win_decl jq d filter listed
                 (map change_of h1) (map w_to_obs (firstn n rs))
                 (map ev_step (snd (nth n rs (mkW [] true [], []))))
                 (map change_of h2) (map w_to_obs (skipn (S n) rs)) = true.

(* the model of the window, for ALL configurations, caches and histories h1 (delivered while
   the events are saved) and h2 (after the unlock): no delivery of the window hands anything to
   the callback; the unlock hands over EXACTLY the events the deliveries of h1 fire when judged
   one after the other against the cache ([run_d]: the last known projection) - one per passing
   delivery, in delivery order, however often the same event occurred before - and leaves the
   buffer empty; afterwards every fired event goes straight to the callback *)
Theorem C08_window_unlock_hands_over_passing_deliveries : forall jq cfg c h1 h2,
  run_w jq cfg (mkW c false []) (window_ops h1 h2)
  = locked_steps [] (run_d jq cfg c h1)
    ++ (mkW (final_cache_d jq cfg c h1) true [], fired (run_d jq cfg c h1))
       :: map (enabled_step []) (run_d jq cfg (final_cache_d jq cfg c h1) h2).
Proof. exact window_run. Qed.
Print Assumptions C08_window_unlock_hands_over_passing_deliveries.

Theorem C08_window_deliveries_are_silent : forall (rs : list (cache * option event)) buf,
  Forall (fun r : wstate * list event => snd r = [] /\ w_enabled (fst r) = false) (locked_steps buf rs).
Proof. exact locked_steps_silent. Qed.
Print Assumptions C08_window_deliveries_are_silent.

(* for ALL sequences of deliveries and unlocks (any number of unlocks, anywhere): what the
   callback has got so far followed by what is still saved is the sequence of the events the
   deliveries fire - nothing lost, nothing doubled, nothing reordered *)
Theorem C08_window_nothing_lost : forall jq cfg ops w,
  w_wf w ->
  flat_map snd (run_w jq cfg w ops) ++ w_buf (final_w jq cfg w ops)
  = w_buf w ++ fired (run_d jq cfg (w_cache w) (deliveries ops)).
Proof. exact conservation. Qed.
Print Assumptions C08_window_nothing_lost.

(* a fired event carries the handler's type, the object's id and the delivered object *)
Theorem C08_event_carries_the_change : forall jq cfg c t id o ev,
  snd (handle jq cfg c t id o) = Some ev -> ev_step ev = (t, id, o).
Proof. exact handle_event_shape. Qed.
Print Assumptions C08_event_carries_the_change.

(* the window clause of the specification for the model: every declared binding, every set of
   objects that exist when it is enabled, every history in the window and every history after
   it, outside the two findings: the triggers handed over by the unlock are exactly the changes
   of the window that pass the rule (each judged against the last known projection at its place),
   in order; the snapshots follow every change; after the unlock the property goes on *)
Theorem C08_window_partial : forall jq d filter listed (h1 h2 : list dstep),
  T_F8m jq filter (listed_steps listed ++ map change_of (h1 ++ h2)) = false ->
  T_F16 jq filter (listed_steps listed ++ map change_of (h1 ++ h2)) = false ->
  exists c0, load_existed jq (mkConfig (effective_types d) filter) listed [] = Some c0 /\
    let cfg := mkConfig (effective_types d) filter in
    let rs := run_w jq cfg (mkW c0 false []) (window_ops h1 h2) in
    let n := length h1 in
    P_win_decl jq d filter listed
               (map change_of h1) (map w_to_obs (firstn n rs))
               (map ev_step (snd (nth n rs (mkW [] true [], []))))
               (map change_of h2) (map w_to_obs (skipn (S n) rs)) = true.
Proof. exact window_partial. Qed.
Print Assumptions C08_window_partial.

(* non-vacuity: object 1 exists with replicas=3 and flaps 3 -> 4 -> 3 -> 4 inside the window (after
   the informer's replay), object 2 is created, deleted and re-created with the same content; then
   the unlock; then 1 flaps back once more.  With and without the filter: the hypotheses hold, the
   model's unlock hands over all seven changes in order, and the specification REJECTS a hand-over
   that keeps each (type, object, state) once ("the buffer already has this event"). *)
Example C08_window_hyp_met :
  let listed := [(1%N, o_rep 3)] in
  let h1 := [(Added, 1%N, Plain (o_rep 3));
             (Modified, 1%N, Plain (o_rep 4)); (Modified, 1%N, Plain (o_rep 3)); (Modified, 1%N, Plain (o_rep 4));
             (Added, 2%N, Plain o_norep); (Deleted, 2%N, Plain o_norep); (Added, 2%N, Plain o_norep);
             (Deleted, 2%N, Tombstone 2%N o_norep)] in
  let h2 := [(Modified, 1%N, Plain (o_rep 3))] in
  let d := mkDecl None None in
  let flush := [(Modified, 1%N, o_rep 4); (Modified, 1%N, o_rep 3); (Modified, 1%N, o_rep 4);
                (Added, 2%N, o_norep); (Deleted, 2%N, o_norep); (Added, 2%N, o_norep); (Deleted, 2%N, o_norep)] in
  let dedup := [(Modified, 1%N, o_rep 4); (Modified, 1%N, o_rep 3);
                (Added, 2%N, o_norep); (Deleted, 2%N, o_norep)] in
  T_F8m jq_obj true (listed_steps listed ++ map change_of (h1 ++ h2)) = false /\
  T_F16 jq_obj true (listed_steps listed ++ map change_of (h1 ++ h2)) = false /\
  (forall filter,
     let cfg := mkConfig (effective_types d) filter in
     let c0 := [(1%N, match apply_filter jq_obj cfg (o_rep 3) with Some e => e | None => mkEntry JNull JNull None end)] in
     let rs := run_w jq_obj cfg (mkW c0 false []) (window_ops h1 h2) in
     load_existed jq_obj cfg listed [] = Some c0 /\
     map ev_step (snd (nth 8 rs (mkW [] true [], []))) = flush /\
     map (fun r => map ev_step (snd r)) (skipn 9 rs) = [[(Modified, 1%N, o_rep 3)]] /\
     P_win_decl jq_obj d filter listed (map change_of h1) (map w_to_obs (firstn 8 rs)) flush
                (map change_of h2) (map w_to_obs (skipn 9 rs)) = true /\
     P_win_decl jq_obj d filter listed (map change_of h1) (map w_to_obs (firstn 8 rs)) dedup
                (map change_of h2) (map w_to_obs (skipn 9 rs)) = false).
Proof.
  cbv zeta. split; [vm_compute; reflexivity|]. split; [vm_compute; reflexivity|].
  intros filter; destruct filter; repeat split; vm_compute; reflexivity.
Qed.

Example C08_window_nothing_lost_hyp_met : w_wf (mkW [] false []) /\ w_wf (mkW [] true []).
Proof. split; intros H; [discriminate|reflexivity]. Qed.
