(* C08_Properties.v — the property theorems of C08 and nothing else.

   Model: C08_Model ([handle] after resourceInformer.handleWatchEvent, [glue] after
   jq.Filter.ApplyFilter, [with_event_types] after MonitorConfig.WithEventTypes).
   Oracle: [jq o] = (outputs, failed) of the binding's jqFilter on object o — a
   parameter of every theorem (gojq is not modelled; the correspondence fills it per
   case from /usr/bin/jq and runs the real gojq in the implementation).
   Assumptions stated in the model: md5 is collision-free on the serialised projections;
   JSON objects handed over by the oracle are in canonical form ([oracle_canonical]).

   Full statement of the property (every oracle, configuration and history):

     C08_full_statement := forall jq types filter h, oracle_canonical jq h ->
                           P jq types filter h (model_obs jq (mkConfig types filter) h) = true.

   It is FALSE of the faithful model and of the code, in two independent ways:
     F8  (C08_refuted)      jq results that are not a single JSON object all project to {}:
                            a change of `.spec.replicas` 3 -> 4 never triggers;
     F16 (C08_refuted_F16)  a filter that fails on an object makes handleWatchEvent drop
                            the delivery: no event (not even Deleted), stale snapshot.
   What is proved at full strength is C08_partial: P for every history outside both
   triggers.  C08_fire_iff / C08_redelivery_silent / C08_cache_always_latest /
   C08_default_all_three hold of the model as it is (w.r.t. the model's own projection).

   Delivery forms.  The handlers receive `object interface{}`: the object itself
   ([Plain]) or, for an object that disappeared while the watch was broken, a
   cache.DeletedFinalStateUnknown tombstone by value ([Tombstone]).  The specification
   speaks of CHANGES ([change_of] forgets the form), so the full statement over histories
   of deliveries is

     C08_full_statement_deliveries := forall jq types filter (h : list dstep),
         oracle_canonical jq (map change_of h) ->
         P jq types filter (map change_of h) (model_obs_d jq (mkConfig types filter) h) = true.

   C08_tombstone_same_as_object / C08_deleted_any_form / C08_partial_deliveries /
   C08_relist_snapshot are proved; the full statement over deliveries is refuted by the
   same two findings (C08_refuted_deliveries). *)
From Verif Require Import Common Json C08_Model C08_Spec C08_Proofs.

Definition C08_full_statement : Prop :=
  forall jq types filter h, oracle_canonical jq h ->
  P jq types filter h (model_obs jq (mkConfig types filter) h) = true.

(* the trigger decision of one delivery, in terms of the projection the code compares *)
Theorem C08_fire_iff : forall jq cfg c t id o e,
  apply_filter jq cfg o = Some e ->
  (snd (handle jq cfg c t id o) <> None <->
   should_fire cfg t = true /\
   (t = Deleted \/ c_get id c = None \/
    exists cached, c_get id c = Some cached /\ e_proj cached <> e_proj e)).
Proof. exact fire_iff_prop. Qed.
Print Assumptions C08_fire_iff.

(* re-delivery of the object the snapshot already shows fires nothing and changes nothing *)
Theorem C08_redelivery_silent : forall jq cfg h id e t,
  c_get id (final_cache jq cfg [] h) = Some e -> t <> Deleted ->
  let c := final_cache jq cfg [] h in
  snd (handle jq cfg c t id (e_obj e)) = None /\
  forall id', c_get id' (fst (handle jq cfg c t id (e_obj e))) = c_get id' c.
Proof. exact redelivery_silent. Qed.
Print Assumptions C08_redelivery_silent.

(* after any history on which the filter never fails, the cache holds, for every id, the
   object of its last delivery (nothing after a Deleted) — fired or suppressed alike *)
Theorem C08_cache_always_latest : forall jq cfg h id,
  never_fails jq cfg h ->
  option_map e_obj (c_get id (final_cache jq cfg [] h)) = latest id None h.
Proof. exact cache_always_latest. Qed.
Print Assumptions C08_cache_always_latest.

(* executeHookOnEvent not configured = all three types *)
Theorem C08_default_all_three :
  with_event_types None = [Added; Modified; Deleted] /\
  forall filter t, should_fire (mkConfig (with_event_types None) filter) t = true.
Proof. exact default_all_three. Qed.
Print Assumptions C08_default_all_three.

(* the property, for every history outside the two recorded findings *)
Theorem C08_partial : forall jq types filter h,
  oracle_canonical jq h -> T_F8 jq filter h = false -> T_F16 jq filter h = false ->
  P jq types filter h (model_obs jq (mkConfig types filter) h) = true.
Proof. exact partial. Qed.
Print Assumptions C08_partial.

(* F8: filter `.spec.replicas`, all three types, Added replicas=3 then Modified replicas=4:
   the Modified does not fire *)
Theorem C08_refuted : exists jq types filter h,
  oracle_canonical jq h /\ T_F8 jq filter h = true /\ T_F16 jq filter h = false /\
  P jq types filter h (model_obs jq (mkConfig types filter) h) = false.
Proof. exact refuted_F8. Qed.
Print Assumptions C08_refuted.

(* F16: filter `{r: .spec.replicas.foo}`, Added {spec:{}}, Modified {spec:{replicas:4}}
   (the filter fails: dropped, snapshot stale), Deleted (dropped too: no event, ghost) *)
Theorem C08_refuted_F16 : exists jq types filter h,
  oracle_canonical jq h /\ T_F16 jq filter h = true /\ T_F8 jq filter h = false /\
  P jq types filter h (model_obs jq (mkConfig types filter) h) = false.
Proof. exact refuted_F16. Qed.
Print Assumptions C08_refuted_F16.

(* ---- the form of the delivered argument ---- *)

Definition C08_full_statement_deliveries : Prop :=
  forall jq types filter (h : list dstep), oracle_canonical jq (map change_of h) ->
  P jq types filter (map change_of h) (model_obs_d jq (mkConfig types filter) h) = true.

(* a tombstone is handled exactly as the object it wraps, for every handler and cache *)
Theorem C08_tombstone_same_as_object : forall jq cfg c t id key o,
  handle_d jq cfg c t id (Tombstone key o) = handle_d jq cfg c t id (Plain o).
Proof. exact tombstone_same. Qed.
Print Assumptions C08_tombstone_same_as_object.

(* "a Deleted change triggers whenever Deleted is listed": in either form, whatever the
   cache holds; the event carries the delivered object and exactly this id leaves the cache *)
Theorem C08_deleted_any_form : forall jq cfg c id d e,
  apply_filter jq cfg (unwrap d) = Some e ->
  snd (handle_d jq cfg c Deleted id d)
    = (if should_fire cfg Deleted then Some (mkEvent Deleted id e) else None) /\
  e_obj e = unwrap d /\
  forall id', c_get id' (fst (handle_d jq cfg c Deleted id d))
              = if N.eqb id' id then None else c_get id' c.
Proof. exact deleted_any_form. Qed.
Print Assumptions C08_deleted_any_form.

(* the property for every history of deliveries (any mix of forms) outside the two findings *)
Theorem C08_partial_deliveries : forall jq types filter (h : list dstep),
  oracle_canonical jq (map change_of h) ->
  T_F8 jq filter (map change_of h) = false -> T_F16 jq filter (map change_of h) = false ->
  P jq types filter (map change_of h) (model_obs_d jq (mkConfig types filter) h) = true.
Proof. exact partial_d. Qed.
Print Assumptions C08_partial_deliveries.

(* a relist (client-go: DeltaFIFO.Replace + processDeltas, [relist]) from a cache that shows
   what the shared informer's store holds leaves a cache that shows exactly the new list:
   objects that disappeared during the outage are gone, whichever unchanged re-deliveries
   the shared informer leaves out ([quiet]) *)
Theorem C08_relist_snapshot : forall jq cfg quiet c store listed,
  store_agrees c store -> NoDup (map fst listed) ->
  never_fails jq cfg (map change_of (relist quiet store listed)) ->
  store_agrees (final_cache_d jq cfg c (relist quiet store listed)) listed.
Proof. exact relist_snapshot. Qed.
Print Assumptions C08_relist_snapshot.

(* the full statement over deliveries fails for the same two reasons *)
Theorem C08_refuted_deliveries :
  (exists jq types filter h,
    oracle_canonical jq (map change_of h) /\ T_F8 jq filter (map change_of h) = true /\
    T_F16 jq filter (map change_of h) = false /\
    P jq types filter (map change_of h) (model_obs_d jq (mkConfig types filter) h) = false) /\
  (exists jq types filter h,
    oracle_canonical jq (map change_of h) /\ T_F16 jq filter (map change_of h) = true /\
    T_F8 jq filter (map change_of h) = false /\
    P jq types filter (map change_of h) (model_obs_d jq (mkConfig types filter) h) = false).
Proof. exact refuted_d. Qed.
Print Assumptions C08_refuted_deliveries.

(* non-vacuity of the delivery theorems: the filter is the `{r:.spec.replicas}`-like oracle
   [jq_obj] below; object 1 disappears during an outage and object 3 appears: the relist
   delivers an Added for 3 and a tombstone for 1, the unchanged object 2 is left out *)
Definition jq_obj (o : json) : list json * bool :=
  if json_eqb o (o_rep 3) then ([JObj [(k_r, JNum 3)]], false)
  else if json_eqb o (o_rep 4) then ([JObj [(k_r, JNum 4)]], false)
  else ([JObj [(k_r, JNull)]], false).

Example C08_relist_hyp_met :
  let cfg := mkConfig all3 true in
  let h0 := [(Added, 1%N, Plain (o_rep 3)); (Added, 2%N, Plain o_norep)] in
  let store := [(1%N, o_rep 3); (2%N, o_norep)] in
  let listed := [(2%N, o_norep); (3%N, o_rep 4)] in
  let r := relist (fun _ => true) store listed in
  store_agrees (final_cache_d jq_obj cfg [] h0) store /\
  NoDup (map fst listed) /\
  never_fails jq_obj cfg (map change_of r) /\
  r = [(Added, 3%N, Plain (o_rep 4)); (Deleted, 1%N, Tombstone 1%N (o_rep 3))] /\
  T_F8 jq_obj true (map change_of (h0 ++ r)) = false /\
  T_F16 jq_obj true (map change_of (h0 ++ r)) = false /\
  map o_fired (model_obs_d jq_obj cfg (h0 ++ r)) = [[Added]; [Added]; [Added]; [Deleted]] /\
  map (fun o => map fst (o_snapshot o)) (model_obs_d jq_obj cfg (h0 ++ r))
  = [[1]; [1; 2]; [1; 2; 3]; [2; 3]]%N.
Proof.
  cbv zeta. split; [|split; [|split; [|repeat split; vm_compute; reflexivity]]].
  - intros id. vm_compute final_cache_d. cbn [c_get a_get option_map].
    destruct (N.eqb id 1); [reflexivity|]. destruct (N.eqb id 2); reflexivity.
  - cbn [map fst]. constructor; [intros [H|[]]; discriminate|].
    constructor; [intros []|constructor].
  - intros s Hs. vm_compute in Hs. destruct Hs as [H|[H|[]]]; subst s; vm_compute; discriminate.
Qed.

(* non-vacuity.  (1) C08_partial's hypotheses are met by a non-trivial history: filter
   `{r:.spec.replicas}`-like oracle returning one canonical object per state; a change
   inside the projection fires, a re-delivery and a Deleted behave as the text says.
   (2) the F8 witness: what the model (and the code) does.  (3) the F16 witness. *)
Example C08_hyp_met :
  let h := [(Added, 1%N, o_rep 3); (Modified, 1%N, o_rep 3); (Modified, 1%N, o_rep 4);
            (Added, 2%N, o_norep); (Deleted, 1%N, o_rep 4)] in
  T_F8 jq_obj true h = false /\ T_F16 jq_obj true h = false /\
  map o_fired (model_obs jq_obj (mkConfig all3 true) h)
  = [[Added]; []; [Modified]; [Added]; [Deleted]] /\
  map (fun o => map fst (o_snapshot o)) (model_obs jq_obj (mkConfig all3 true) h)
  = [[1]; [1]; [1]; [1; 2]; [2]]%N /\
  never_fails jq_obj (mkConfig all3 true) h.
Proof.
  cbv zeta. repeat split; try (vm_compute; reflexivity).
  intros s [H|[H|[H|[H|[H|[]]]]]]; subst s; vm_compute; discriminate.
Qed.

Example C08_F8_behaviour :
  map o_fired (model_obs jq_replicas (mkConfig all3 true) h_F8) = [[Added]; []].
Proof. vm_compute; reflexivity. Qed.

Example C08_filter_error_drops_change :
  map o_fired (model_obs jq_foo (mkConfig all3 true) h_F16) = [[Added]; []; []] /\
  map o_snapshot (model_obs jq_foo (mkConfig all3 true) h_F16)
  = [[(1%N, o_norep)]; [(1%N, o_norep)]; [(1%N, o_norep)]].
Proof. split; vm_compute; reflexivity. Qed.
