(* C08_Properties.v — the property theorems of C08 and nothing else.

   Model: C08_Model ([handle] after resourceInformer.handleWatchEvent, [glue] after
   jq.Filter.ApplyFilter, [with_event_types] after MonitorConfig.WithEventTypes).
   Oracle: [jq o] = (outputs, failed) of the binding's jqFilter on object o — a
   parameter of every theorem (gojq is not modelled; the correspondence fills it per
   case from /usr/bin/jq and runs the real gojq in the implementation).
   Assumptions stated in the model: md5 is collision-free on the serialised projections;
   JSON objects handed over by the oracle are in canonical form ([oracle_canonical]).

   Full statement of the property (every oracle, configuration and history):

     C08_full_statement := forall jq types filter h, oracle_canonical jq h ->
                           P jq types filter h (model_obs jq (mkConfig types filter) h) = true.

   It is FALSE of the faithful model and of the code, in two independent ways:
     F8  (C08_refuted)      jq results that are not a single JSON object all project to {}:
                            a change of `.spec.replicas` 3 -> 4 never triggers;
     F16 (C08_refuted_F16)  a filter that fails on an object makes handleWatchEvent drop
                            the delivery: no event (not even Deleted), stale snapshot.
   What is proved at full strength is C08_partial: P for every history outside both
   triggers.  C08_fire_iff / C08_redelivery_silent / C08_cache_always_latest /
   C08_default_all_three hold of the model as it is (w.r.t. the model's own projection). *)
From Verif Require Import Common Json C08_Model C08_Spec C08_Proofs.

Definition C08_full_statement : Prop :=
  forall jq types filter h, oracle_canonical jq h ->
  P jq types filter h (model_obs jq (mkConfig types filter) h) = true.

(* the trigger decision of one delivery, in terms of the projection the code compares *)
Theorem C08_fire_iff : forall jq cfg c t id o e,
  apply_filter jq cfg o = Some e ->
  (snd (handle jq cfg c t id o) <> None <->
   should_fire cfg t = true /\
   (t = Deleted \/ c_get id c = None \/
    exists cached, c_get id c = Some cached /\ e_proj cached <> e_proj e)).
Proof. exact fire_iff_prop. Qed.
Print Assumptions C08_fire_iff.

(* re-delivery of the object the snapshot already shows fires nothing and changes nothing *)
Theorem C08_redelivery_silent : forall jq cfg h id e t,
  c_get id (final_cache jq cfg [] h) = Some e -> t <> Deleted ->
  let c := final_cache jq cfg [] h in
  snd (handle jq cfg c t id (e_obj e)) = None /\
  forall id', c_get id' (fst (handle jq cfg c t id (e_obj e))) = c_get id' c.
Proof. exact redelivery_silent. Qed.
Print Assumptions C08_redelivery_silent.

(* after any history on which the filter never fails, the cache holds, for every id, the
   object of its last delivery (nothing after a Deleted) — fired or suppressed alike *)
Theorem C08_cache_always_latest : forall jq cfg h id,
  never_fails jq cfg h ->
  option_map e_obj (c_get id (final_cache jq cfg [] h)) = latest id None h.
Proof. exact cache_always_latest. Qed.
Print Assumptions C08_cache_always_latest.

(* executeHookOnEvent not configured = all three types *)
Theorem C08_default_all_three :
  with_event_types None = [Added; Modified; Deleted] /\
  forall filter t, should_fire (mkConfig (with_event_types None) filter) t = true.
Proof. exact default_all_three. Qed.
Print Assumptions C08_default_all_three.

(* the property, for every history outside the two recorded findings *)
Theorem C08_partial : forall jq types filter h,
  oracle_canonical jq h -> T_F8 jq filter h = false -> T_F16 jq filter h = false ->
  P jq types filter h (model_obs jq (mkConfig types filter) h) = true.
Proof. exact partial. Qed.
Print Assumptions C08_partial.

(* F8: filter `.spec.replicas`, all three types, Added replicas=3 then Modified replicas=4:
   the Modified does not fire *)
Theorem C08_refuted : exists jq types filter h,
  oracle_canonical jq h /\ T_F8 jq filter h = true /\ T_F16 jq filter h = false /\
  P jq types filter h (model_obs jq (mkConfig types filter) h) = false.
Proof. exact refuted_F8. Qed.
Print Assumptions C08_refuted.

(* F16: filter `{r: .spec.replicas.foo}`, Added {spec:{}}, Modified {spec:{replicas:4}}
   (the filter fails: dropped, snapshot stale), Deleted (dropped too: no event, ghost) *)
Theorem C08_refuted_F16 : exists jq types filter h,
  oracle_canonical jq h /\ T_F16 jq filter h = true /\ T_F8 jq filter h = false /\
  P jq types filter h (model_obs jq (mkConfig types filter) h) = false.
Proof. exact refuted_F16. Qed.
Print Assumptions C08_refuted_F16.

(* non-vacuity.  (1) C08_partial's hypotheses are met by a non-trivial history: filter
   `{r:.spec.replicas}`-like oracle returning one canonical object per state; a change
   inside the projection fires, a re-delivery and a Deleted behave as the text says.
   (2) the F8 witness: what the model (and the code) does.  (3) the F16 witness. *)
Definition jq_obj (o : json) : list json * bool :=
  if json_eqb o (o_rep 3) then ([JObj [(k_r, JNum 3)]], false)
  else if json_eqb o (o_rep 4) then ([JObj [(k_r, JNum 4)]], false)
  else ([JObj [(k_r, JNull)]], false).

Example C08_hyp_met :
  let h := [(Added, 1%N, o_rep 3); (Modified, 1%N, o_rep 3); (Modified, 1%N, o_rep 4);
            (Added, 2%N, o_norep); (Deleted, 1%N, o_rep 4)] in
  T_F8 jq_obj true h = false /\ T_F16 jq_obj true h = false /\
  map o_fired (model_obs jq_obj (mkConfig all3 true) h)
  = [[Added]; []; [Modified]; [Added]; [Deleted]] /\
  map (fun o => map fst (o_snapshot o)) (model_obs jq_obj (mkConfig all3 true) h)
  = [[1]; [1]; [1]; [1; 2]; [2]]%N /\
  never_fails jq_obj (mkConfig all3 true) h.
Proof.
  cbv zeta. repeat split; try (vm_compute; reflexivity).
  intros s [H|[H|[H|[H|[H|[]]]]]]; subst s; vm_compute; discriminate.
Qed.

Example C08_F8_behaviour :
  map o_fired (model_obs jq_replicas (mkConfig all3 true) h_F8) = [[Added]; []].
Proof. vm_compute; reflexivity. Qed.

Example C08_filter_error_drops_change :
  map o_fired (model_obs jq_foo (mkConfig all3 true) h_F16) = [[Added]; []; []] /\
  map o_snapshot (model_obs jq_foo (mkConfig all3 true) h_F16)
  = [[(1%N, o_norep)]; [(1%N, o_norep)]; [(1%N, o_norep)]].
Proof. split; vm_compute; reflexivity. Qed.
