(* C14_Model.v — executable model of the admission webhook path of flant/shell-operator,
   as the code is AFTER the repair F19 (admission.FromReader rejects a response object that
   is followed by other data).  NO proofs in this file.

     pkg/utils/string_helper/safe_url.go          SafeURLString
     pkg/webhook/admission/config.go              UpdateIds: webhook id = SafeURLString(binding name),
                                                  configuration id = "hooks"
     pkg/webhook/admission/resource.go            createWebhookPath: "/" conf "/" webhookId
     pkg/webhook/admission/handler.go             serveReviewRequest, handleReviewRequest,
                                                  detectConfigurationAndWebhook, errored
     pkg/hook/controller/admission_bindings_controller.go   links by webhook id, CanHandleEvent
     pkg/hook/hook_manager.go                     HandleAdmissionEvent (validating hooks, then mutating)
     pkg/shell-operator/operator.go:226-279       the event handler: run the task, Fail => deny,
                                                  no response prop => error
     pkg/shell-operator/operator.go handleRunHook the steps of one HookRun task after the hook process
                                                  has ended: Run (parse metrics, response, conversion
                                                  response), ParseOperations, ExecuteOperations,
                                                  SendBatch, and only then SetProp("admissionResponse")
     pkg/webhook/admission/response.go            ResponseFromFile (empty => nil), FromReader (one JSON
                                                  object and nothing after it — REPAIRED, F19)
     pkg/hook/hook.go Run                         non-zero exit / undecodable metrics, response or
                                                  conversion response => error => Fail

   Strings are byte lists (Common.bytes). *)
From Verif Require Import Common.

(* ------------------------------------------------------------------ strings *)

Definition slash : N := 47.
Definition dash : N := 45.

(* strings.Split(s, "/") *)
Fixpoint split_slash_aux (cur : bytes) (s : bytes) : list bytes :=
  match s with
  | [] => [rev cur]
  | c :: r => if N.eqb c slash then rev cur :: split_slash_aux [] r else split_slash_aux (c :: cur) r
  end.
Definition split_slash (s : bytes) : list bytes := split_slash_aux [] s.

(* strings.Join(parts, "/") *)
Fixpoint join_slash (parts : list bytes) : bytes :=
  match parts with
  | [] => []
  | [p] => p
  | p :: r => p ++ slash :: join_slash r
  end.

Definition is_upper (c : N) : bool := N.leb 65 c && N.leb c 90.
Definition is_safe (c : N) : bool :=
  (N.leb 97 c && N.leb c 122) || (N.leb 48 c && N.leb c 57) || N.eqb c dash || N.eqb c slash.

(* safe_url.go: "-" before every A-Z, lower-case, every byte outside [a-z0-9-/] becomes "-",
   runs of "-" collapse.  (On valid UTF-8 replacing per byte or per rune gives the same
   result once runs are collapsed.) *)
Fixpoint dash_upper (s : bytes) : bytes :=
  match s with
  | [] => []
  | c :: r => if is_upper c then dash :: (c + 32)%N :: dash_upper r else c :: dash_upper r
  end.
Definition replace_unsafe (s : bytes) : bytes := map (fun c => if is_safe c then c else dash) s.
Fixpoint collapse (s : bytes) : bytes :=
  match s with
  | [] => []
  | c :: r =>
    match r with
    | c' :: _ => if N.eqb c dash && N.eqb c' dash then collapse r else c :: collapse r
    | [] => [c]
    end
  end.
Definition safe_url (s : bytes) : bytes := collapse (replace_unsafe (dash_upper s)).

(* admission.DefaultConfigurationId = "hooks" *)
Definition default_conf : bytes := [104; 111; 111; 107; 115]%N.

(* handler.go:135 detectConfigurationAndWebhook *)
Definition detect (path : bytes) : bytes * bytes :=
  match filter (fun p => negb (bytes_eqb p [])) (split_slash path) with
  | [] => ([], [])
  | conf :: rest => (conf, join_slash rest)
  end.

(* resource.go createWebhookPath for a binding named [name] *)
Definition webhook_id (name : bytes) : bytes := safe_url name.
Definition registered_path (name : bytes) : bytes := slash :: default_conf ++ slash :: webhook_id name.

(* ------------------------------------------------------------------ hooks and links *)

Inductive btype := Validating | Mutating.

(* one hook: the names of its kubernetesValidating and kubernetesMutating bindings *)
Record hook := mkHook { h_val : list bytes; h_mut : list bytes }.

Definition link := (bytes * (btype * bytes))%type.       (* webhook id -> (binding type, binding name) *)

Fixpoint link_get (ls : list link) (id : bytes) : option (btype * bytes) :=
  match ls with
  | [] => None
  | (i, x) :: r => if bytes_eqb i id then Some x else link_get r id
  end.
Fixpoint link_put (ls : list link) (id : bytes) (x : btype * bytes) : list link :=
  match ls with
  | [] => [(id, x)]
  | (i, y) :: r => if bytes_eqb i id then (i, x) :: r else (i, y) :: link_put r id x
  end.

(* EnableValidatingBindings then EnableMutatingBindings fill AdmissionLinks (a map keyed by
   webhook id: a later binding with the same id replaces the earlier one) *)
Definition hook_links (h : hook) : list link :=
  let ls := fold_left (fun ls n => link_put ls (webhook_id n) (Validating, n)) (h_val h) [] in
  fold_left (fun ls n => link_put ls (webhook_id n) (Mutating, n)) (h_mut h) ls.

(* the controller's ConfigurationId: "hooks" once any binding was enabled, else "" *)
Definition hook_conf (h : hook) : bytes :=
  match h_val h, h_mut h with [], [] => [] | _, _ => default_conf end.

(* CanHandleEvent *)
Definition can_handle (h : hook) (conf id : bytes) : bool :=
  bytes_eqb (hook_conf h) conf && match link_get (hook_links h) id with Some _ => true | None => false end.

(* hook_manager.go HandleAdmissionEvent: the hooks with validating bindings in name order,
   then the hooks with mutating bindings; every hook that can handle the event creates the
   task, the handler keeps the last one.  Hooks are numbered by position. *)
Definition indexed (hooks : list hook) : list (N * hook) := combine (map N.of_nat (seq 0 (length hooks))) hooks.

Definition find_task (hooks : list hook) (conf id : bytes) : option (N * (btype * bytes)) :=
  let vs := filter (fun ih => match h_val (snd ih) with [] => false | _ => true end) (indexed hooks) in
  let ms := filter (fun ih => match h_mut (snd ih) with [] => false | _ => true end) (indexed hooks) in
  fold_left (fun acc ih =>
               if can_handle (snd ih) conf id
               then match link_get (hook_links (snd ih)) id with
                    | Some x => Some (fst ih, x)
                    | None => acc
                    end
               else acc) (vs ++ ms) None.

(* ------------------------------------------------------------------ one hook execution *)

(* what the hook left in $VALIDATING_RESPONSE_PATH.  FResp: the file starts with a complete
   JSON value that decodes into admission.Response {allowed, message, warnings, patch}
   (message 0 = "", patch 0 = none/empty); trailing = other data follows that value: since
   the repair F19 FromReader refuses such a file (before it, Decode read one value and did
   not look further, so {"allowed":true}{"allowed":false} was an allow). *)
Inductive rfile :=
| FEmpty
| FMalformed
| FResp (allowed : bool) (msg : N) (warnings : list N) (patch : N) (trailing : bool).

(* what the hook left in $METRICS_PATH.  MUnparsable: operation.MetricOperationsFromFile fails
   (hook.go Run returns the error).  MOps: a stream of metric operations that decodes;
   invalid = at least one of them is refused by operation.ValidateOperations, which
   HookMetricStorage.SendBatch runs over the whole batch before it applies anything;
   marker = the batch contains the harness' marker operation (a valid one), whose effect on
   the hooks' metric storage is observable. *)
Inductive mfile :=
| MEmpty
| MUnparsable
| MOps (marker : bool) (invalid : bool).

(* what the hook left in $CONVERSION_RESPONSE_PATH (every hook run reads it, whatever the
   binding type).  CMalformed: conversion.ResponseFromFile fails. *)
Inductive cfile := CEmpty | COk | CMalformed.

(* what the hook left in $KUBERNETES_PATCH_PATH.  KUnparsable: objectpatch.ParseOperations
   fails (not JSON/YAML documents, or a document the schema refuses: nothing is applied).
   KOps: every document is a valid operation; rejected = the API server refuses at least one
   of them (ObjectPatcher.ExecuteOperations executes EVERY operation and returns the collected
   errors); marker = the harness' marker operation (one the API server accepts) is among
   them, its effect on the cluster is observable. *)
Inductive kfile :=
| KEmpty
| KUnparsable
| KOps (marker : bool) (rejected : bool).

Record run := mkRun { exit_zero : bool; file : rfile; metrics : mfile; conv : cfile; kpatch : kfile }.

(* the hook's verdict as decoded: allowed, message, warnings, patch *)
Definition resp := (bool * N * list N * N)%type.

(* pkg/hook/hook.go Run, after the hook process has ended: exit status, then the metrics file,
   the admission response file, the conversion response file are parsed in this order and the
   patch file is read; the first error ends Run.  None = Run returned an error;
   Some o = Result with AdmissionResponse o (nil for an empty file). *)
Definition hook_run (r : run) : option (option resp) :=
  if negb (exit_zero r) then None                                   (* RunAndLogLines: "<hook> FAILED" *)
  else match metrics r with
       | MUnparsable => None                                        (* "got bad metrics" *)
       | _ =>
         match file r with
         | FMalformed => None                                       (* "got bad validating response" *)
         | FResp _ _ _ _ true => None                               (* REPAIRED (F19): data after the object *)
         | f =>
           match conv r with
           | CMalformed => None                                     (* "got bad conversion response" *)
           | _ => Some (match f with
                        | FResp allowed msg warnings patch _ => Some (allowed, msg, warnings, patch)
                        | _ => None
                        end)
           end
         end
       end.

(* the HookRun task when taskHandler returns: its status, its "admissionResponse" prop, and
   what the run did to the cluster / the hooks' metric storage (marker effects) *)
Record task_end := mkEnd { t_fail : bool; t_prop : option resp; t_kapplied : bool; t_mapplied : bool }.

(* operator.go handleRunHook + the status taskHandleHookRun derives from its error (admission
   bindings never allow failure).  After Run: ParseOperations, ExecuteOperations, SendBatch,
   and ONLY THEN t.SetProp("admissionResponse") — every error before it returns at once, so a
   failed task has no response prop.  (When Run itself fails, Result.KubernetesPatchBytes has
   not been read yet: the patch-status-on-error branch has nothing to do.) *)
Definition handle_run_hook (r : run) : task_end :=
  match hook_run r with
  | None => mkEnd true None false false
  | Some o =>
    match kpatch r with
    | KUnparsable => mkEnd true None false false                    (* ParseOperations *)
    | k =>
      let kap := match k with KOps marker _ => marker | _ => false end in
      match k with
      | KOps _ true => mkEnd true None kap false                    (* ExecuteOperations *)
      | _ =>
        match metrics r with
        | MOps _ true => mkEnd true None kap false                  (* SendBatch: ValidateOperations *)
        | m => mkEnd false o kap (match m with MOps marker _ => marker | _ => false end)
        end
      end
    end
  end.

(* ------------------------------------------------------------------ the HTTP exchange *)

Inductive body :=
| BReview (uid : N)           (* a JSON AdmissionReview with a request *)
| BNoRequest                  (* valid JSON without "request" *)
| BMalformed                  (* not JSON *)
| BWrongContentType.          (* a review sent with another Content-Type *)

Inductive amsg := AMNone | AMHook (m : N) | AMHookFailed | AMNoHook | AMPropError | AMOther.

Record review := mkReview {
  a_uid : N; a_allowed : bool; a_code : N; a_msg : amsg;
  a_warnings : list N; a_patch : N; a_patchtype : bool }.

Inductive answer := AStatus (code : N) | AReview (r : review).

(* which hook process ran: hook number, the binding and the type it was told *)
Definition ran := option (N * (btype * bytes)).

(* errored(err) with the UID set by serveReviewRequest *)
Definition errored (uid : N) (m : amsg) : review := mkReview uid false 500 m [] 0 false.

(* operator.go:262-278 (the event handler after taskHandler returned) + handler.go:86-132:
   status Fail is looked at FIRST => "Hook failed"; then the response prop: none => error *)
Definition answer_of_task (uid : N) (t : task_end) : review :=
  if t_fail t then mkReview uid false 403 AMHookFailed [] 0 false
  else match t_prop t with
       | None => errored uid AMPropError                            (* "hook task prop error" *)
       | Some (allowed, msg, warnings, patch) =>
         mkReview uid allowed
                  (if allowed then 0 else 403)
                  (if allowed then AMNone else if N.eqb msg 0 then AMNone else AMHook msg)
                  warnings patch (negb (N.eqb patch 0))
       end.

(* operator.go:226-279 + handler.go:86-132 *)
Definition admit_review (hooks : list hook) (path : bytes) (uid : N) (r : run) : review * ran :=
  let '(conf, id) := detect path in
  match find_task hooks conf id with
  | None => (errored uid AMNoHook, None)                       (* "no hook found for ..." *)
  | Some (h, l) => (answer_of_task uid (handle_run_hook r), Some (h, l))
  end.

(* serveReviewRequest behind the router's middlewares *)
Definition admit_request (hooks : list hook) (path : bytes) (b : body) (r : run) : answer * ran :=
  match b with
  | BWrongContentType => (AStatus 415, None)
  | BMalformed | BNoRequest => (AStatus 400, None)
  | BReview uid => let '(rv, who) := admit_review hooks path uid r in (AReview rv, who)
  end.

(* what the exchange did outside the answer: (the marker Kubernetes operation was applied,
   the marker metric operation was applied).  Nothing happens unless a hook ran. *)
Definition admit_effects (hooks : list hook) (path : bytes) (b : body) (r : run) : bool * bool :=
  match b with
  | BReview _ =>
    let '(conf, id) := detect path in
    match find_task hooks conf id with
    | None => (false, false)
    | Some _ => let t := handle_run_hook r in (t_kapplied t, t_mapplied t)
    end
  | _ => (false, false)
  end.

(* what gets registered (resource.go Register): per hook, its validating bindings then its
   mutating ones, each under createWebhookPath *)
Record reg := mkReg { g_hook : N; g_type : btype; g_name : bytes; g_path : bytes }.
Definition model_regs (hooks : list hook) : list reg :=
  flat_map (fun ih =>
              map (fun n => mkReg (fst ih) Validating n (registered_path n)) (h_val (snd ih))
              ++ map (fun n => mkReg (fst ih) Mutating n (registered_path n)) (h_mut (snd ih)))
           (indexed hooks).
