(* C02_WinSpec.v — C02 for histories with changes inside the start window of a monitor:
   "once the cluster is quiet they equal the real cluster state, also after a restart ... each
   with the binding's filter applied".  Once the history is over, the snapshot shows exactly the
   objects of the cluster AS IT IS THEN that match the binding (namespace named / carrying the
   label, name selected), each once, ordered by namespace and name, each entry showing the
   CURRENT content of its object (filter result, whole object when kept) - wherever in the
   history the last change of an object lies: before the monitor was created, between its
   creation and its start, or after the start. *)
From Verif Require Import Common C02_Model C02_Spec C02_Win.
Open Scope N_scope.

Definition wmatching (i : win_in) (o : obj) : bool :=
  (if wi_dyn i then mem_N (o_ns o) (wi_nss i)
   else match wi_nss i with [] => true | l => mem_N (o_ns o) l end)
  && (match wi_names i with [] => true | l => mem_N (o_name o) l end).

Definition wexpected_view (i : win_in) (o : obj) : view :=
  (o_ns o, o_name o,
   if wi_filter i then Some (snd o mod 10) else None,
   if wi_keep i then Some (snd o) else None).

Definition P_wview_list (i : win_in) (vs : list view) : bool :=
  v_strictly_sorted vs
  && forallb (fun v => existsb (fun o => wmatching i o && view_eqb v (wexpected_view i o)) (w_cluster2 i)) vs
  && forallb (fun o => if wmatching i o then mem_view (wexpected_view i o) vs else true) (w_cluster2 i).

Definition P_win (i : win_in) (vs : list view) (bad : bool) : bool := negb bad && P_wview_list i vs.

(* trigger of the recorded finding F26 in this domain, as narrow as it is: a matching object
   listed by LIST #1 is gone at LIST #2 (deleted in the window and not re-created there) AND
   nothing happens to an object of that namespace and name afterwards (a later create replaces
   the stale entry, and from then on it follows the cluster) *)
Definition has_key (o : obj) (l : list obj) : bool := existsb (same_key o) l.
Definition T_wghost (i : win_in) : bool :=
  existsb (fun o => wmatching i o
                    && negb (has_key o (w_cluster1 i))
                    && negb (existsb (fun op => same_key (snd op) o) (wi_after i)))
          (w_cluster0 i).
