(* C13_Properties.v — the property theorems of C13 and nothing else.

   PARTIAL (stated, not hidden):
   * "The same documents written as JSON or as YAML produce the same operations" is
     differential only: two decoders (encoding/json, yaml.v3) that are not modelled; the
     correspondence renders every stream both ways and compares the parsed operations
     and the effects.
   * Validity of one document (go-openapi against the embedded schema) is an oracle:
     a document is a well-formed operation or [DBad].
   * The cluster is the fake cluster's behaviour as stated by the api_* layer of
     C13_Model.v; JSON Patch is github.com/evanphx/json-patch as it is ("replace" of a
     missing member of an existing object succeeds).

   * Kinds served in several API groups/versions and sessions of several executions
     (C13_GModel / C13_GSpec, theorems named C13_g_...): resolution of (apiVersion, kind) is
     kube-client's GroupVersionResource as the fake cluster answers it (without an
     apiVersion: first resource list in discovery order that holds the kind); kinds are
     compared exactly (plural / short names and letter case are not modelled).

   * Another writer on the cluster (C13_CModel / C13_CSpec, theorems named C13_conc_...): the API
     server (resourceVersion per object, changed by every write; an Update with an outdated one
     is refused) and the other writer (one write right before each mutating request of the
     operation; it sets a data key or creates the object, it never deletes) are an oracle
     played by a layer of the harness; retry.RetryOnConflict is 4 attempts, its sleeps are
     not modelled.

   * Patch files as TEXT (C13_TModel / C13_TSpec, theorems named C13_text_...): the JSON path
     of unmarshalFromJSONOrYAML is modelled byte by byte (encoding/json's scanner and the
     Decoder loop: value after value until EOF, anything else is an error) with the fallback
     rule; the YAML decoder stays an oracle (a parameter: what it makes of the whole text), and
     so does the meaning of one document text (a table).  Invalid UTF-8 and the decoding of a
     value into OperationSpec beyond "object or null" are not modelled.

   The model follows the tree AFTER the repair of F12 (YAML integers reached
   Unstructured.DeepCopy as Go int: panic); there is no known-finding trigger. *)
From Coq Require Import String.
From Verif Require Import Common Json C13_Model C13_Spec C13_Proofs C13_GModel C13_GSpec C13_GProofs C13_CModel C13_CSpec C13_CProofs C13_TModel C13_TSpec C13_TProofs.

(* the whole property on the model: for every initial cluster, every stream of
   documents and every projection of objects, one hook run satisfies the predicate *)
Theorem C13_handle_run_meets_spec : forall proj c ds, P_run proj c ds (handle_run c ds) = true.
Proof. exact handle_run_meets_spec. Qed.
Print Assumptions C13_handle_run_meets_spec.

(* the same, as seen from outside the operator (task status, API calls, final cluster) *)
Theorem C13_hook_run_meets_spec : forall proj c ds,
  let r := handle_run c ds in P_hook_run proj c ds (failed r) (r_cluster r) (r_calls r) = true.
Proof. exact hook_run_meets_spec. Qed.
Print Assumptions C13_hook_run_meets_spec.

(* any invalid document: the cluster is untouched, no API call is made, the run fails *)
Theorem C13_all_or_nothing : forall c ds,
  In DBad ds ->
  handle_run c ds = mkOutcome false c [] [] /\ failed (handle_run c ds) = true.
Proof. intros c ds H. rewrite (all_or_nothing c ds H). split; reflexivity. Qed.
Print Assumptions C13_all_or_nothing.

(* operations are applied once each in order: executing a ++ b is executing a, then b
   from the state a left, whatever errors a produced; calls and errors are concatenated;
   one operation is one exec_op *)
Theorem C13_in_order_once : forall c a b,
  exec c (a ++ b) =
  match exec c a with
  | (c1, k1, e1) => match exec c1 b with (c2, k2, e2) => (c2, k1 ++ k2, e1 ++ e2) end
  end.
Proof. intros c a b. apply exec_app. Qed.
Print Assumptions C13_in_order_once.

Theorem C13_one_operation : forall c o,
  exec c [o] = match exec_op c o with (c1, k1, e1) => (c1, k1, opt_list e1) end.
Proof. exact exec_one. Qed.
Print Assumptions C13_one_operation.

(* the code's way of carrying out the operations (API round trips) has the documented
   effect of C13_Spec.effects: same finite map, same errors *)
Theorem C13_refines_documented_effects : forall c os,
  match exec c os, effects c os with
  | (c1, _, es), (d1, fs) => cl_equiv c1 d1 /\ es = fs
  end.
Proof. intros c os. apply exec_refines, equiv_refl. Qed.
Print Assumptions C13_refines_documented_effects.

Theorem C13_create_variants : forall c obj,
  let k := key_of_object obj in
  (cl_get k c = None ->
     forall m, cluster_of (exec_create c m obj) = cl_set k obj c /\ error_of (exec_create c m obj) = None) /\
  (forall old, cl_get k c = Some old ->
     (cluster_of (exec_create c CPlain obj) = c /\ error_of (exec_create c CPlain obj) = Some EAlreadyExists) /\
     (cluster_of (exec_create c CIfNotExists obj) = c /\ error_of (exec_create c CIfNotExists obj) = None) /\
     (cluster_of (exec_create c COrUpdate obj) = cl_set k obj c /\ error_of (exec_create c COrUpdate obj) = None)) /\
  cl_get k (cl_set k obj c) = Some obj /\
  (forall k', k' <> k -> cl_get k' (cl_set k obj c) = cl_get k' c).
Proof. exact create_variants. Qed.
Print Assumptions C13_create_variants.

(* the three propagation modes leave the same cluster: the object is gone, nothing else
   changed, a missing object is not an error, deleting again changes nothing *)
Theorem C13_delete_idempotent : forall c m k,
  cluster_of (exec_delete c m k) = cl_del k c /\
  error_of (exec_delete c m k) = None /\
  cl_get k (cl_del k c) = None /\
  (forall k', k' <> k -> cl_get k' (cl_del k c) = cl_get k' c) /\
  (forall m', cluster_of (exec_delete (cl_del k c) m' k) = cl_del k c /\
              error_of (exec_delete (cl_del k c) m' k) = None).
Proof. exact delete_idempotent. Qed.
Print Assumptions C13_delete_idempotent.

Theorem C13_ignore_missing : forall c k body sub im,
  cl_get k c = None ->
  cluster_of (exec_patch c k body sub im) = c /\
  error_of (exec_patch c k body sub im) = (if im then None else Some ENotFound).
Proof. exact ignore_missing. Qed.
Print Assumptions C13_ignore_missing.

Theorem C13_subresource_same_effect : forall c k body sub sub' im,
  cluster_of (exec_patch c k body sub im) = cluster_of (exec_patch c k body sub' im) /\
  error_of (exec_patch c k body sub im) = error_of (exec_patch c k body sub' im).
Proof. exact subresource_same_effect. Qed.
Print Assumptions C13_subresource_same_effect.

(* ---------- kinds served in several groups; several executions ---------- *)

(* the whole property there: for every discovery (which groupVersions serve which kinds,
   in which order), every initial cluster, every session of patch files and every
   projection, every execution of the session satisfies the predicate, starting from
   the cluster the documented effects of the executions before it leave *)
Theorem C13_g_session_meets_spec : forall proj d c files,
  P_gsession proj d c files (ghandle_runs d c files) = true.
Proof. exact gsession_meets_spec. Qed.
Print Assumptions C13_g_session_meets_spec.

(* the same seen from outside the operator (failed?, cluster, API calls per execution) *)
Theorem C13_g_hook_session_meets_spec : forall proj d c files,
  P_ghook_session proj d c files (map hook_view (ghandle_runs d c files)) = true.
Proof. exact ghook_session_meets_spec. Qed.
Print Assumptions C13_g_hook_session_meets_spec.

(* the code's resolution of (apiVersion, kind) is the groupVersion the document names:
   its own apiVersion if the cluster serves the kind there, without apiVersion the
   preferred one; and the code's execution of a stream has the documented effects *)
Theorem C13_g_refines_documented_effects : forall d c os,
  (forall av kind, resolve d av kind = named_gv d av kind) /\
  match gexec d c os, geffects d c os with
  | (c1, _, es), (d1, fs) => cl_equiv c1 d1 /\ es = fs
  end.
Proof. intros d c os. split; [intros; apply resolve_named | apply gexec_refines, equiv_refl]. Qed.
Print Assumptions C13_g_refines_documented_effects.

(* exactly the named object: an operation changes no other object, and every API call it
   makes is a call for the object it names (no call at all when the kind is not served) *)
Theorem C13_g_only_named_object : forall d c o,
  (forall k', named d o <> Some k' -> cl_get k' (cluster_of (gexec_op d c o)) = cl_get k' c) /\
  Forall (fun cl => named d o = Some (call_key cl)) (calls_of (gexec_op d c o)).
Proof. exact gexec_op_only_named. Qed.
Print Assumptions C13_g_only_named_object.

(* an object that no document of a stream names is left as it was by the whole stream *)
Theorem C13_g_unnamed_untouched : forall d os c k',
  (forall o, In o os -> named d o <> Some k') ->
  cl_get k' (fst (fst (gexec d c os))) = cl_get k' c.
Proof. exact gexec_untouched. Qed.
Print Assumptions C13_g_unnamed_untouched.

(* in particular the same-named object of another group: a delete / patch document that
   names group g leaves kind/namespace/name of every other group g' as it was *)
Theorem C13_g_other_group_untouched : forall d c o a g g',
  (exists m, o = GDelete m a) \/ (exists body sub im, o = GPatch a body sub im) ->
  named_gv d (a_api a) (a_kind a) = Some g -> g' <> g -> ~ In bar g -> ~ In bar g' ->
  cl_get (key_at g' (a_kind a) (a_ns a) (a_name a)) (cluster_of (gexec_op d c o)) =
  cl_get (key_at g' (a_kind a) (a_ns a) (a_name a)) c.
Proof. exact other_group_untouched. Qed.
Print Assumptions C13_g_other_group_untouched.

(* object keys are faithful: different (groupVersion, kind, namespace, name) = different key *)
Theorem C13_g_keys_injective : forall g kind ns name g' kind' ns' name',
  ~ In bar g -> ~ In bar g' -> ~ In slash kind -> ~ In slash kind' -> ~ In slash ns -> ~ In slash ns' ->
  key_at g kind ns name = key_at g' kind' ns' name' ->
  g = g' /\ kind = kind' /\ ns = ns' /\ name = name'.
Proof. exact key_at_inj. Qed.
Print Assumptions C13_g_keys_injective.

(* a document without apiVersion does what the same document with the preferred
   apiVersion written out does (discovery with one resource list per groupVersion) *)
Theorem C13_g_omitted_is_preferred : forall d c kind ns name g,
  NoDup (map fst d) -> g <> [] -> preferred d kind = Some g ->
  (forall m, gexec_op d c (GDelete m (mkAddr [] kind ns name)) = gexec_op d c (GDelete m (mkAddr g kind ns name))) /\
  (forall body sub im, gexec_op d c (GPatch (mkAddr [] kind ns name) body sub im)
                       = gexec_op d c (GPatch (mkAddr g kind ns name) body sub im)).
Proof. exact omitted_is_preferred_op. Qed.
Print Assumptions C13_g_omitted_is_preferred.

(* nothing is carried from one execution to the next but the cluster: a session a ++ b
   is the session a followed by the session b started from the cluster a left, and two
   executions with the valid files a and b make the API calls, report the errors and
   leave the cluster of one execution with the file a ++ b *)
Theorem C13_g_executions_compose : forall d c a b,
  ghandle_runs d c (a ++ b) = ghandle_runs d c a ++ ghandle_runs d (final_cluster d c a) b.
Proof. intros d c a b. apply ghandle_runs_app. Qed.
Print Assumptions C13_g_executions_compose.

Theorem C13_g_split_irrelevant : forall d c a b,
  gall_valid a = true -> gall_valid b = true ->
  let r1 := ghandle_run d c a in
  let r2 := ghandle_run d (r_cluster r1) b in
  let r := ghandle_run d c (a ++ b) in
  r_parse_ok r = true /\ r_cluster r = r_cluster r2 /\
  r_calls r = r_calls r1 ++ r_calls r2 /\ r_errors r = r_errors r1 ++ r_errors r2.
Proof. exact g_split_irrelevant. Qed.
Print Assumptions C13_g_split_irrelevant.

(* an invalid document in one execution: that execution changes nothing and fails *)
Theorem C13_g_all_or_nothing : forall d c ds,
  In GDBad ds -> ghandle_run d c ds = mkOutcome false c [] [] /\ failed (ghandle_run d c ds) = true.
Proof. intros d c ds H. rewrite (g_all_or_nothing d c ds H). split; reflexivity. Qed.
Print Assumptions C13_g_all_or_nothing.

(* ---------- another writer on the cluster ---------- *)

(* the whole property there: for every initial cluster, every stream of documents, every
   queue of writes the other writer has ready per document and every projection, one hook
   run satisfies the predicate: each operation applied once, in order, on the LATEST state
   (every write of the other writer that happened is in place as the writer made it), or
   given up with a Conflict after the retry budget with nothing applied *)
Theorem C13_conc_run_meets_spec : forall proj c ds qs,
  P_conc attempts proj c ds qs (fst (chandle_run c ds qs)) (snd (chandle_run c ds qs)) = true.
Proof. intros proj c ds qs. pose proof (chandle_run_meets_spec proj c ds qs) as H. now destruct (chandle_run c ds qs). Qed.
Print Assumptions C13_conc_run_meets_spec.

(* one operation, for EVERY queue (every number of interfering writes): m writes happened,
   m is at most what was ready, and either the cluster is the documented effect of the
   operation on the state with exactly those m writes applied (and the error is the
   documented one) - no lost update, nothing computed from a stale object - or the operation
   reports a Conflict, the cluster holds those m writes and nothing else, and m is at least
   the 4 attempts of the retry budget *)
Theorem C13_conc_latest_state_or_budget : forall s o q d,
  cl_equiv (st_objs s) d ->
  match cexec_op s o q with (s', _, e, m) => op_ok o q d s' e m end.
Proof. exact cexec_op_ok. Qed.
Print Assumptions C13_conc_latest_state_or_budget.

(* the retry loop, whatever is retried: with [more] further attempts allowed, a loop of
   attempts that each either finish on the state as it is / after one more write, or are
   refused after one more write, ends done on the state after the m writes that happened, or
   with a Conflict after more + 1 refused attempts *)
Theorem C13_conc_retry_loop : forall k o Inv fn,
  attempt_ok k o Inv fn ->
  forall more y d y' e, Inv y -> cl_equiv (st_objs (y_store y)) d -> retry more fn y = (y', e) -> loop_ok k o more y d y' e.
Proof. exact retry_ok. Qed.
Print Assumptions C13_conc_retry_loop.

(* the function executeFilterOperation retries - with its Get INSIDE - is such an attempt,
   and so is the one of CreateOrUpdate while the object exists *)
Theorem C13_conc_attempts : forall k f sub im obj,
  attempt_ok k (OPatch k (PJq f) sub im) (fun _ => True) (filter_attempt k f sub im) /\
  attempt_ok (key_of_object obj) (OCreate COrUpdate obj) (holds (key_of_object obj)) (update_attempt (key_of_object obj) obj).
Proof. intros. split; [apply filter_attempt_ok | apply update_attempt_ok]. Qed.
Print Assumptions C13_conc_attempts.

(* optimistic concurrency of the store: a write gives the object a resourceVersion that an
   Update prepared before the write does not carry *)
Theorem C13_conc_stale_refused : forall k o s, N.eqb (ver k s) (ver k (st_put k o s)) = false.
Proof. intros. rewrite ver_put. apply stale_refused. Qed.
Print Assumptions C13_conc_stale_refused.

(* ---------- non-vacuity and sanity (computed examples, not theorems) ---------- *)

Definition s (x : string) : json := JStr (B x).
Definition cm (name : string) (data : list (bytes * json)) : json :=
  JObj [(B "apiVersion", s "v1"); (B "data", JObj data); (B "kind", s "ConfigMap");
        (B "metadata", JObj [(B "name", s name); (B "namespace", s "default")])].
Definition k1 : key := B "ConfigMap/default/cm1".
Definition c_ex : cluster := [(k1, cm "cm1" [(B "a", s "1")])].

(* hypotheses of the theorems are met by concrete, non-trivial inputs:
   - a stream with an invalid last document after two valid ones (all_or_nothing);
   - Create of an existing object, then a patch of a missing one, then a jq patch: two
     errors are collected and the third operation still runs (in_order_once);
   - key present / absent for create_variants and ignore_missing *)
Example C13_hyp_met :
  In DBad [DOp (ODelete DBackground k1); DOp (OCreate CPlain (cm "cm2" [])); DBad] /\
  cl_get k1 c_ex = Some (cm "cm1" [(B "a", s "1")]) /\
  cl_get (B "ConfigMap/default/nope") c_ex = None /\
  key_of_object (cm "cm1" []) = k1 /\
  handle_run c_ex [DOp (OCreate CPlain (cm "cm1" [(B "a", s "9")]));
                   DOp (OPatch (B "ConfigMap/default/nope") (PMerge (JObj [(B "data", JObj [(B "b", s "2")])])) [] false);
                   DOp (OPatch k1 (PJq (JQSet [B "data"; B "b"] (s "2"))) (B "status") false)]
  = mkOutcome true [(k1, cm "cm1" [(B "a", s "1"); (B "b", s "2")])]
      [(VCreate, k1, []); (VPatch, B "ConfigMap/default/nope", []); (VGet, k1, []); (VUpdate, k1, B "status")]
      [EAlreadyExists; ENotFound].
Proof. repeat split; vm_compute; auto. Qed.

(* the test vectors of RFC 7386, appendix A (those without arrays) *)
Example C13_merge_patch_rfc7386_vectors :
  let o l := JObj l in let a := B "a" in let b := B "b" in let c := B "c" in
  merge_patch (o [(a, s "b")]) (o [(a, s "c")]) = o [(a, s "c")] /\
  merge_patch (o [(a, s "b")]) (o [(b, s "c")]) = o [(a, s "b"); (b, s "c")] /\
  merge_patch (o [(a, s "b")]) (o [(a, JNull)]) = o [] /\
  merge_patch (o [(a, s "b"); (b, s "c")]) (o [(a, JNull)]) = o [(b, s "c")] /\
  merge_patch (o [(a, o [(b, s "c")])]) (o [(a, o [(b, s "d"); (c, JNull)])]) = o [(a, o [(b, s "d")])] /\
  merge_patch (o [(a, s "foo")]) JNull = JNull /\
  merge_patch (o [(a, s "foo")]) (s "bar") = s "bar" /\
  merge_patch (o [(B "e", JNull)]) (o [(a, JNum 1)]) = o [(a, JNum 1); (B "e", JNull)] /\
  merge_patch (o []) (o [(a, o [(B "bb", o [(B "ccc", JNull)])])]) = o [(a, o [(B "bb", o [])])].
Proof. repeat split; vm_compute; reflexivity. Qed.

(* ---------- non-vacuity for the C13_g_... theorems ---------- *)

Definition widget (api name owner : string) : json :=
  JObj [(B "apiVersion", s api); (B "data", JObj [(B "owner", s owner)]); (B "kind", s "Widget");
        (B "metadata", JObj [(B "name", s name); (B "namespace", s "default")])].
Definition d_ex : discovery :=
  [(B "v1", [B "ConfigMap"; B "Secret"]); (B "example.io/v1", [B "Widget"]); (B "legacy.example.io/v1", [B "Widget"; B "Gadget"])].
Definition kw (api : string) : key := key_at (B api) (B "Widget") (B "default") (B "w").
Definition cw_ex : cluster :=
  [(kw "example.io/v1", widget "example.io/v1" "w" "nobody"); (kw "legacy.example.io/v1", widget "legacy.example.io/v1" "w" "nobody")].
Definition aw (api : string) : addr := mkAddr (B api) (B "Widget") (B "default") (B "w").
Definition set_owner (v : string) : patch_body := PMerge (JObj [(B "data", JObj [(B "owner", s v)])]).

(* Widget is served in two groups, example.io first (preferred), Gadget in one; the
   hypotheses of other_group_untouched / omitted_is_preferred / keys_injective /
   split_irrelevant / all_or_nothing are met; and a session of two executions - a patch
   naming the legacy group, then a patch without apiVersion - patches the legacy Widget,
   then the preferred one, each once *)
Example C13_g_hyp_met :
  NoDup (map fst d_ex) /\
  preferred d_ex (B "Widget") = Some (B "example.io/v1") /\ B "example.io/v1" <> [] /\
  named_gv d_ex (B "legacy.example.io/v1") (B "Widget") = Some (B "legacy.example.io/v1") /\
  named_gv d_ex (B "example.io/v1") (B "Gadget") = None /\
  named_gv d_ex (B "nope.io/v1") (B "Widget") = None /\
  B "example.io/v1" <> B "legacy.example.io/v1" /\
  ~ In bar (B "example.io/v1") /\ ~ In bar (B "legacy.example.io/v1") /\
  ~ In slash (B "Widget") /\ ~ In slash (B "default") /\
  gall_valid [GDOp (GDelete DBackground (aw ""))] = true /\
  In GDBad [GDOp (GDelete DBackground (aw "")); GDBad] /\
  map r_cluster (ghandle_runs d_ex cw_ex
      [[GDOp (GPatch (aw "legacy.example.io/v1") (set_owner "first") [] false)];
       [GDOp (GPatch (aw "") (set_owner "second") [] false)]])
  = [[(kw "example.io/v1", widget "example.io/v1" "w" "nobody"); (kw "legacy.example.io/v1", widget "legacy.example.io/v1" "w" "first")];
     [(kw "example.io/v1", widget "example.io/v1" "w" "second"); (kw "legacy.example.io/v1", widget "legacy.example.io/v1" "w" "first")]] /\
  map r_errors (ghandle_runs d_ex cw_ex
      [[GDOp (GDelete DBackground (mkAddr (B "example.io/v1") (B "Gadget") (B "default") (B "w")));
        GDOp (GDelete DBackground (aw "legacy.example.io/v1"))]])
  = [[ENotServed]].
Proof.
  split; [repeat constructor; cbn; intuition discriminate|].
  repeat split; try (vm_compute; reflexivity); try discriminate;
    try (vm_compute; intuition discriminate).
Qed.

(* ---------- non-vacuity for the C13_conc_... theorems ---------- *)

Definition jq_hook : op := OPatch k1 (PJq (JQSet [B "data"; B "fromHook"] (s "yes"))) [] false.
Definition other (i : string) : write := WSet (B "other") (s i).

(* the hypothesis of latest_state_or_budget is met; a jq patch racing with 1 write is applied
   once on top of it after one refused Update (Get, Update, Get, Update); racing with 3 it
   succeeds at the 4th attempt; racing with 4 or 6 it gives up with a Conflict after 4
   attempts and the cluster holds the 4 writes only; a merge patch lets one write in and is
   applied on top of it; and the stream goes on after a Conflict *)
Example C13_conc_hyp_met :
  cl_equiv (st_objs (mkStore c_ex [])) c_ex /\
  cexec_op (mkStore c_ex []) jq_hook [other "1"]
  = (mkStore [(k1, cm "cm1" [(B "a", s "1"); (B "fromHook", s "yes"); (B "other", s "1")])] [(k1, 2%N); (k1, 1%N)],
     [(VGet, k1, []); (VUpdate, k1, []); (VGet, k1, []); (VUpdate, k1, [])], None, 1) /\
  (let '(_, calls, e, m) := cexec_op (mkStore c_ex []) jq_hook [other "1"; other "2"; other "3"] in
   (length calls, e, m) = (8, None, 3)) /\
  (let '(st, calls, e, m) := cexec_op (mkStore c_ex []) jq_hook [other "1"; other "2"; other "3"; other "4"; other "5"; other "6"] in
   (st_objs st, length calls, e, m) = ([(k1, cm "cm1" [(B "a", s "1"); (B "other", s "4")])], 8, Some EConflict, 4)) /\
  (let '(st, _, e, m) := cexec_op (mkStore c_ex []) (OPatch k1 (PMerge (JObj [(B "data", JObj [(B "b", s "2")])])) [] false) [other "1"; other "2"] in
   (st_objs st, e, m) = ([(k1, cm "cm1" [(B "a", s "1"); (B "b", s "2"); (B "other", s "1")])], None, 1)) /\
  (let '(r, ms) := chandle_run c_ex [DOp jq_hook; DOp (OCreate CPlain (cm "cm2" []))] [[other "1"; other "2"; other "3"; other "4"]] in
   (r_errors r, ms, map fst (r_cluster r)) = ([EConflict], [4; 0], [k1; B "ConfigMap/default/cm2"])).
Proof. split; [apply equiv_refl|]. repeat split; vm_compute; reflexivity. Qed.

(* ---------- patch files as text ---------- *)

(* the whole property there: for every text built as doc1 .. dock tail - complete JSON
   documents, any white space between them, and a tail that is white space (a well-formed
   stream) or no continuation of a JSON stream (a fault and whatever follows it) -, every
   answer of the YAML decoder, every meaning of the documents, every initial cluster: the
   run satisfies the predicate: all documents once in order, or nothing applied and failed *)
Theorem C13_text_run_meets_spec : forall proj c tb yaml sh,
  shape_ok sh = true -> P_text proj c tb yaml sh (handle_text_run c tb yaml (text_of sh)) = true.
Proof. exact text_run_meets_spec. Qed.
Print Assumptions C13_text_run_meets_spec.

Theorem C13_text_hook_run_meets_spec : forall proj c tb yaml sh,
  shape_ok sh = true ->
  let r := handle_text_run c tb yaml (text_of sh) in
  P_text_hook proj c tb yaml sh (failed r) (r_cluster r) (r_calls r) = true.
Proof. exact text_hook_run_meets_spec. Qed.
Print Assumptions C13_text_hook_run_meets_spec.

(* the decoder loop over doc1 .. dock tail reads exactly the documents, each once, in order,
   and then what it reads in the tail; an error in the tail is an error of the whole *)
Theorem C13_text_documents_then_tail : forall ds tail,
  forallb piece_ok ds = true ->
  json_values (flatten ds tail) = option_map (app (map snd ds)) (json_values tail).
Proof. exact json_values_docs. Qed.
Print Assumptions C13_text_documents_then_tail.

(* well-formed streams, with any white space between the documents: the run of C13_Model on
   every document once in order *)
Theorem C13_text_wellformed_in_order : forall c tb yaml ds tail,
  forallb doc_ok ds = true -> all_ws tail = true ->
  handle_text_run c tb yaml (flatten ds tail) = handle_run c (map (fun wv => meaning tb (snd wv)) ds).
Proof. exact wellformed_is_handle_run. Qed.
Print Assumptions C13_text_wellformed_in_order.

(* doc1 .. dock fault rest, not YAML either: no operation list, nothing applied, no API call,
   the run fails - however many well-formed documents precede the fault *)
Theorem C13_text_fault_fails_as_a_whole : forall c tb ds tail,
  forallb doc_ok ds = true -> broken_tail tail = true ->
  parse_text tb None (flatten ds tail) = None /\
  handle_text_run c tb None (flatten ds tail) = mkOutcome false c [] [] /\
  failed (handle_text_run c tb None (flatten ds tail)) = true.
Proof.
  intros c tb ds tail Hd Ht. pose proof (broken_is_yaml c tb None ds tail Hd Ht) as H.
  split; [|rewrite H; split; reflexivity].
  unfold parse_text. rewrite (json_path_docs ds tail Hd). unfold broken_tail in Ht. now destruct (json_path tail).
Qed.
Print Assumptions C13_text_fault_fails_as_a_whole.

(* faults: a byte no value starts with (a stray closing bracket or brace, a comma, a colon,
   NUL and the other control bytes, a letter, ...) after any white space, whatever follows *)
Theorem C13_text_stray_byte_is_broken : forall w c rest,
  all_ws w = true -> bad_start c = true -> broken_tail (w ++ c :: rest) = true.
Proof. intros w c rest Hw Hc. apply broken_after_ws; [exact Hw | now apply broken_bad_start]. Qed.
Print Assumptions C13_text_stray_byte_is_broken.

(* ... and a document cut short ANYWHERE (inside a string, after a key, after a colon, inside
   a nested object): every proper non-empty prefix of a complete document, as the last thing
   of the text *)
Theorem C13_text_truncated_is_broken : forall w p s,
  all_ws w = true -> complete (p ++ s) = true -> p <> [] -> s <> [] -> broken_tail (w ++ p) = true.
Proof. intros w p s Hw H Hp Hs. apply broken_after_ws; [exact Hw | now apply (broken_truncated p s)]. Qed.
Print Assumptions C13_text_truncated_is_broken.

(* together: any number of well-formed documents, then - after any white space - a stray
   closing brace or bracket (or any other byte no value starts with) and whatever follows, or a
   last document cut short anywhere: when the text is no YAML either, nothing is applied and
   the run fails; never the documents in front of the fault applied and the rest dropped *)
Theorem C13_text_stray_or_truncated_fails : forall c tb ds w,
  forallb doc_ok ds = true -> all_ws w = true ->
  (forall b rest, bad_start b = true ->
     handle_text_run c tb None (flatten ds (w ++ b :: rest)) = mkOutcome false c [] []) /\
  (forall p s, complete (p ++ s) = true -> p <> [] -> s <> [] ->
     handle_text_run c tb None (flatten ds (w ++ p)) = mkOutcome false c [] []).
Proof.
  intros c tb ds w Hd Hw. split.
  - intros b rest Hb. apply (broken_is_yaml c tb None ds _ Hd).
    apply broken_after_ws; [exact Hw | now apply broken_bad_start].
  - intros p s H Hp Hs. apply (broken_is_yaml c tb None ds _ Hd).
    apply broken_after_ws; [exact Hw | now apply (broken_truncated p s)].
Qed.
Print Assumptions C13_text_stray_or_truncated_fails.

(* ---------- non-vacuity for the C13_text_... theorems ---------- *)

Definition t_merge : text :=
  B "{""operation"":""MergePatch"",""kind"":""ConfigMap"",""namespace"":""default"",""name"":""cm1"",""mergePatch"":{""data"":{""b"":""}\""2""}}}".
Definition t_delete : text :=
  B "{""operation"":""DeleteInBackground"",""kind"":""ConfigMap"",""namespace"":""default"",""name"":""cm1""}".
Definition o_merge : op := OPatch k1 (PMerge (JObj [(B "data", JObj [(B "b", s "}""2")])])) [] false.
Definition tb_ex : table := [(t_merge, DOp o_merge); (t_delete, DOp (ODelete DBackground k1))].
Definition nl : text := [10%N].

(* the hypotheses are met: two complete documents that unmarshal; } ] , : NUL and a letter are
   bytes no value starts with; the merge patch document cut inside a string, after a key,
   after a colon; shapes with a stray brace after the second document / a document cut short
   are honest descriptions; and the runs: a well-formed stream applies both documents in
   order (the object is patched, then deleted), the stream with the stray brace applies
   nothing and fails *)
Example C13_text_hyp_met :
  forallb doc_ok [([], t_merge); (nl, t_delete)] = true /\
  map bad_start [125; 93; 44; 58; 0; 7; 120]%N = [true; true; true; true; true; true; true] /\
  (exists p q, t_merge = p ++ q /\ p <> [] /\ q <> [] /\ complete (p ++ q) = true) /\
  shape_ok (mkShape [([], t_merge); (nl, t_delete)] (125%N :: nl)) = true /\
  shape_ok (mkShape [([], t_merge)] (nl ++ firstn 40 t_delete)) = true /\
  shape_ok (mkShape [([], t_merge); (nl, t_delete)] nl) = true /\
  handle_text_run c_ex tb_ex None (text_of (mkShape [([], t_merge); (nl, t_delete)] nl))
  = mkOutcome true [] [(VPatch, k1, []); (VDelete, k1, [])] [] /\
  handle_text_run c_ex tb_ex None (text_of (mkShape [([], t_merge); (nl, t_delete)] (125%N :: nl)))
  = mkOutcome false c_ex [] [].
Proof.
  split; [vm_compute; reflexivity|]. split; [vm_compute; reflexivity|].
  split; [exists (firstn 30 t_merge), (skipn 30 t_merge); repeat split; try (vm_compute; reflexivity); vm_compute; discriminate|].
  repeat split; vm_compute; reflexivity.
Qed.
