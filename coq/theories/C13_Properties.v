(* C13_Properties.v — the property theorems of C13 and nothing else.

   PARTIAL (stated, not hidden):
   * "The same documents written as JSON or as YAML produce the same operations" is
     differential only: two decoders (encoding/json, yaml.v3) that are not modelled; the
     correspondence renders every stream both ways and compares the parsed operations
     and the effects.
   * Validity of one document (go-openapi against the embedded schema) is an oracle:
     a document is a well-formed operation or [DBad].
   * The cluster is the fake cluster's behaviour as stated by the api_* layer of
     C13_Model.v; JSON Patch is github.com/evanphx/json-patch as it is ("replace" of a
     missing member of an existing object succeeds).

   The model follows the tree AFTER the repair of F12 (YAML integers reached
   Unstructured.DeepCopy as Go int: panic); there is no known-finding trigger. *)
From Coq Require Import String.
From Verif Require Import Common Json C13_Model C13_Spec C13_Proofs.

(* the whole property on the model: for every initial cluster, every stream of
   documents and every projection of objects, one hook run satisfies the predicate *)
Theorem C13_handle_run_meets_spec : forall proj c ds, P_run proj c ds (handle_run c ds) = true.
Proof. exact handle_run_meets_spec. Qed.
Print Assumptions C13_handle_run_meets_spec.

(* the same, as seen from outside the operator (task status, API calls, final cluster) *)
Theorem C13_hook_run_meets_spec : forall proj c ds,
  let r := handle_run c ds in P_hook_run proj c ds (failed r) (r_cluster r) (r_calls r) = true.
Proof. exact hook_run_meets_spec. Qed.
Print Assumptions C13_hook_run_meets_spec.

(* any invalid document: the cluster is untouched, no API call is made, the run fails *)
Theorem C13_all_or_nothing : forall c ds,
  In DBad ds ->
  handle_run c ds = mkOutcome false c [] [] /\ failed (handle_run c ds) = true.
Proof. intros c ds H. rewrite (all_or_nothing c ds H). split; reflexivity. Qed.
Print Assumptions C13_all_or_nothing.

(* operations are applied once each in order: executing a ++ b is executing a, then b
   from the state a left, whatever errors a produced; calls and errors are concatenated;
   one operation is one exec_op *)
Theorem C13_in_order_once : forall c a b,
  exec c (a ++ b) =
  match exec c a with
  | (c1, k1, e1) => match exec c1 b with (c2, k2, e2) => (c2, k1 ++ k2, e1 ++ e2) end
  end.
Proof. intros c a b. apply exec_app. Qed.
Print Assumptions C13_in_order_once.

Theorem C13_one_operation : forall c o,
  exec c [o] = match exec_op c o with (c1, k1, e1) => (c1, k1, opt_list e1) end.
Proof. exact exec_one. Qed.
Print Assumptions C13_one_operation.

(* the code's way of carrying out the operations (API round trips) has the documented
   effect of C13_Spec.effects: same finite map, same errors *)
Theorem C13_refines_documented_effects : forall c os,
  match exec c os, effects c os with
  | (c1, _, es), (d1, fs) => cl_equiv c1 d1 /\ es = fs
  end.
Proof. intros c os. apply exec_refines, equiv_refl. Qed.
Print Assumptions C13_refines_documented_effects.

Theorem C13_create_variants : forall c obj,
  let k := key_of_object obj in
  (cl_get k c = None ->
     forall m, cluster_of (exec_create c m obj) = cl_set k obj c /\ error_of (exec_create c m obj) = None) /\
  (forall old, cl_get k c = Some old ->
     (cluster_of (exec_create c CPlain obj) = c /\ error_of (exec_create c CPlain obj) = Some EAlreadyExists) /\
     (cluster_of (exec_create c CIfNotExists obj) = c /\ error_of (exec_create c CIfNotExists obj) = None) /\
     (cluster_of (exec_create c COrUpdate obj) = cl_set k obj c /\ error_of (exec_create c COrUpdate obj) = None)) /\
  cl_get k (cl_set k obj c) = Some obj /\
  (forall k', k' <> k -> cl_get k' (cl_set k obj c) = cl_get k' c).
Proof. exact create_variants. Qed.
Print Assumptions C13_create_variants.

(* the three propagation modes leave the same cluster: the object is gone, nothing else
   changed, a missing object is not an error, deleting again changes nothing *)
Theorem C13_delete_idempotent : forall c m k,
  cluster_of (exec_delete c m k) = cl_del k c /\
  error_of (exec_delete c m k) = None /\
  cl_get k (cl_del k c) = None /\
  (forall k', k' <> k -> cl_get k' (cl_del k c) = cl_get k' c) /\
  (forall m', cluster_of (exec_delete (cl_del k c) m' k) = cl_del k c /\
              error_of (exec_delete (cl_del k c) m' k) = None).
Proof. exact delete_idempotent. Qed.
Print Assumptions C13_delete_idempotent.

Theorem C13_ignore_missing : forall c k body sub im,
  cl_get k c = None ->
  cluster_of (exec_patch c k body sub im) = c /\
  error_of (exec_patch c k body sub im) = (if im then None else Some ENotFound).
Proof. exact ignore_missing. Qed.
Print Assumptions C13_ignore_missing.

Theorem C13_subresource_same_effect : forall c k body sub sub' im,
  cluster_of (exec_patch c k body sub im) = cluster_of (exec_patch c k body sub' im) /\
  error_of (exec_patch c k body sub im) = error_of (exec_patch c k body sub' im).
Proof. exact subresource_same_effect. Qed.
Print Assumptions C13_subresource_same_effect.

(* ---------- non-vacuity and sanity (computed examples, not theorems) ---------- *)

Definition s (x : string) : json := JStr (B x).
Definition cm (name : string) (data : list (bytes * json)) : json :=
  JObj [(B "apiVersion", s "v1"); (B "data", JObj data); (B "kind", s "ConfigMap");
        (B "metadata", JObj [(B "name", s name); (B "namespace", s "default")])].
Definition k1 : key := B "ConfigMap/default/cm1".
Definition c_ex : cluster := [(k1, cm "cm1" [(B "a", s "1")])].

(* hypotheses of the theorems are met by concrete, non-trivial inputs:
   - a stream with an invalid last document after two valid ones (all_or_nothing);
   - Create of an existing object, then a patch of a missing one, then a jq patch: two
     errors are collected and the third operation still runs (in_order_once);
   - key present / absent for create_variants and ignore_missing *)
Example C13_hyp_met :
  In DBad [DOp (ODelete DBackground k1); DOp (OCreate CPlain (cm "cm2" [])); DBad] /\
  cl_get k1 c_ex = Some (cm "cm1" [(B "a", s "1")]) /\
  cl_get (B "ConfigMap/default/nope") c_ex = None /\
  key_of_object (cm "cm1" []) = k1 /\
  handle_run c_ex [DOp (OCreate CPlain (cm "cm1" [(B "a", s "9")]));
                   DOp (OPatch (B "ConfigMap/default/nope") (PMerge (JObj [(B "data", JObj [(B "b", s "2")])])) [] false);
                   DOp (OPatch k1 (PJq (JQSet [B "data"; B "b"] (s "2"))) (B "status") false)]
  = mkOutcome true [(k1, cm "cm1" [(B "a", s "1"); (B "b", s "2")])]
      [(VCreate, k1, []); (VPatch, B "ConfigMap/default/nope", []); (VGet, k1, []); (VUpdate, k1, B "status")]
      [EAlreadyExists; ENotFound].
Proof. repeat split; vm_compute; auto. Qed.

(* the test vectors of RFC 7386, appendix A (those without arrays) *)
Example C13_merge_patch_rfc7386_vectors :
  let o l := JObj l in let a := B "a" in let b := B "b" in let c := B "c" in
  merge_patch (o [(a, s "b")]) (o [(a, s "c")]) = o [(a, s "c")] /\
  merge_patch (o [(a, s "b")]) (o [(b, s "c")]) = o [(a, s "b"); (b, s "c")] /\
  merge_patch (o [(a, s "b")]) (o [(a, JNull)]) = o [] /\
  merge_patch (o [(a, s "b"); (b, s "c")]) (o [(a, JNull)]) = o [(b, s "c")] /\
  merge_patch (o [(a, o [(b, s "c")])]) (o [(a, o [(b, s "d"); (c, JNull)])]) = o [(a, o [(b, s "d")])] /\
  merge_patch (o [(a, s "foo")]) JNull = JNull /\
  merge_patch (o [(a, s "foo")]) (s "bar") = s "bar" /\
  merge_patch (o [(B "e", JNull)]) (o [(a, JNum 1)]) = o [(a, JNum 1); (B "e", JNull)] /\
  merge_patch (o []) (o [(a, o [(B "bb", o [(B "ccc", JNull)])])]) = o [(a, o [(B "bb", o [])])].
Proof. repeat split; vm_compute; reflexivity. Qed.
