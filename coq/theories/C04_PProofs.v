(* C04_PProofs.v — the decidable predicate C04_Spec.P holds of the model's own observations,
   for every well-formed configuration and every action sequence.
   Method: a per-queue invariant [QI] of every reachable, not yet stopped state, kept by
   [step_q]; each clause of [step_ok] follows from it. *)
From Verif Require Import Common Op_Model Op_Corr Op_Spec Op_Proofs C04_Spec C04_Proofs.
From Coq Require Import Permutation.
Open Scope N_scope.

(* ------------------------------------------------------------------ ranks of contexts *)

(* the order in which contexts can occur in a queue: onStartup, then Synchronization (or a
   pending EnableKubernetesBindings task), then events and schedule firings *)
Definition rk (k : ckind) : nat := match k with KStartup => 0 | KSync => 1 | KEvent | KSchedule => 2 end.
Definition crk (c : ctx) : nat := rk (c_kind c).
Definition tranks (t : task) : list nat :=
  match t_type t with
  | EnableKube => [1%nat]
  | EnableSched => []
  | HookRun => map crk (t_ctxs t)
  end.
Definition qranks (l : list task) : list nat := flat_map tranks l.

Fixpoint mono (l : list nat) : Prop :=
  match l with
  | [] => True
  | x :: r => Forall (fun y => (x <= y)%nat) r /\ mono r
  end.

Lemma mono_app a b :
  mono (a ++ b) <-> mono a /\ mono b /\ (forall x y, In x a -> In y b -> (x <= y)%nat).
Proof.
  induction a as [|x a IH]; simpl.
  - split; [intros H; repeat split; auto; intros ? ? [] | intros (_ & H & _); exact H].
  - rewrite Forall_app, IH. split.
    + intros ((F1 & F2) & M1 & M2 & C). repeat split; auto.
      intros x0 y [<-|Hx] Hy; [rewrite Forall_forall in F2; now apply F2 | now apply C].
    + intros ((F1 & M1) & M2 & C). repeat split; auto.
      apply Forall_forall. intros y Hy. apply C; auto.
Qed.

Lemma mono_tail x l : mono (x :: l) -> mono l.
Proof. intros [_ H]; exact H. Qed.

Lemma mono_app_r a b : mono (a ++ b) -> mono b.
Proof. intros H. apply mono_app in H. tauto. Qed.

Lemma mono_const n l : Forall (fun y => y = n) l -> mono l.
Proof.
  induction l as [|x l IH]; intros H; [exact I|]. inversion H as [|? ? Hx Hl]; subst. split; [|now apply IH].
  apply Forall_forall. intros y Hy. rewrite Forall_forall in Hl. rewrite (Hl y Hy). lia.
Qed.

(* ------------------------------------------------------------------ compaction *)

Lemma compact_cons2 c n r :
  compact (c :: n :: r) =
  if negb (N.eqb (c_group c) 0) && N.eqb (c_group n) (c_group c) then compact (n :: r) else c :: compact (n :: r).
Proof. reflexivity. Qed.

Lemma compact_in : forall l c, In c (compact l) -> In c l.
Proof.
  induction l as [|c0 r IH]; intros c H; [destruct H|].
  destruct r as [|n r'].
  - exact H.
  - rewrite compact_cons2 in H.
    destruct (negb (N.eqb (c_group c0) 0) && N.eqb (c_group n) (c_group c0)).
    + right. now apply IH.
    + destruct H as [<-|H]; [now left | right; now apply IH].
Qed.

Lemma compact_nonempty : forall l, l <> [] -> compact l <> [].
Proof.
  induction l as [|c0 r IH]; intros H; [contradiction|].
  destruct r as [|n r'].
  - discriminate.
  - rewrite compact_cons2.
    destruct (negb (N.eqb (c_group c0) 0) && N.eqb (c_group n) (c_group c0)); [apply IH|]; discriminate.
Qed.

Lemma compact_mono : forall l, mono (map crk l) -> mono (map crk (compact l)).
Proof.
  induction l as [|c0 r IH]; intros H; [exact I|].
  destruct r as [|n r'].
  - exact H.
  - rewrite compact_cons2.
    destruct (negb (N.eqb (c_group c0) 0) && N.eqb (c_group n) (c_group c0)).
    + apply IH. exact (mono_tail _ _ H).
    + destruct H as [F M]. split; [|now apply IH].
      apply Forall_forall. intros y Hy. apply in_map_iff in Hy as [c [<- Hc]].
      apply compact_in in Hc. rewrite Forall_forall in F. apply F. apply in_map_iff. eauto.
Qed.

(* ------------------------------------------------------------------ the queue invariant *)

Definition fail0 (t : task) : Prop := t_fail t = 0.
(* exactly what the property asks of the contexts of a dropped task *)
Definition ctx_ok (cfg : config) (c : ctx) : bool :=
  match c_kind c with KStartup => false | _ => binding_allow cfg (c_binding c) end.
Definition task_ok (cfg : config) (t : task) : Prop :=
  t_allow t = true -> forallb (ctx_ok cfg) (t_ctxs t) = true.
Definition kube_ok (t : task) : Prop :=
  t_type t = HookRun -> t_btype t = BKube -> exists c r, t_ctxs t = c :: r /\ (1 <= crk c)%nat.
Definition tok (cfg : config) (t : task) : Prop := task_ok cfg t /\ kube_ok t.

(* a task as it was created: one context, allowFailure as its binding declares it (only the head of a
   queue is ever combined) *)
Definition asis (cfg : config) (t : task) : Prop :=
  t_type t = HookRun -> exists c, t_ctxs t = [c] /\ t_allow t = ctx_ok cfg c.

Record LI (cfg : config) (l : list task) : Prop := mkLI {
  li_fail : Forall fail0 (tl l);        (* only the head can have failed before *)
  li_tok : Forall (tok cfg) l;
  li_mono : mono (qranks l);            (* no Synchronization (or EnableKube) behind an event/schedule context *)
  li_asis : Forall (asis cfg) (tl l)    (* only the head can have been combined *)
}.

Definition head_ok (cfg : config) (q : qstate) : Prop :=
  is_running q = true ->
  exists t r, q_items q = t :: r /\ t_type t = HookRun /\ should_run (hook_v0 cfg (t_hook t)) t = true.

Definition QI (cfg : config) (q : qstate) : Prop := LI cfg (q_items q) /\ head_ok cfg q.

Lemma take_block_hookrun t rest :
  t_type t = HookRun -> Forall (fun x => t_type x = HookRun) (fst (take_block t rest)).
Proof.
  intros Ty. induction rest as [|x r IH]; [constructor|]. simpl.
  destruct (N.eqb (t_hook x) (t_hook t) && same_ttype (t_type x) (t_type t)
            && negb (is_sync t && is_sync x && negb (t_execsync x))) eqn:E; [|constructor].
  destruct (take_block t r) as [b rs]. simpl in *. constructor; [|exact IH].
  apply andb_true_iff in E as [E _]. apply andb_true_iff in E as [_ E]. rewrite Ty in E.
  destruct (t_type x); [reflexivity | discriminate | discriminate].
Qed.

Lemma qranks_app a b : qranks (a ++ b) = qranks a ++ qranks b.
Proof. unfold qranks. apply flat_map_app. Qed.

Lemma qranks_hookrun block :
  Forall (fun x => t_type x = HookRun) block -> qranks block = map crk (flat_map t_ctxs block).
Proof.
  induction block as [|x b IH]; intros H; [reflexivity|]. inversion H as [|? ? Hx Hb]; subst.
  simpl. rewrite map_app, <- IH by exact Hb. unfold tranks. now rewrite Hx.
Qed.

Lemma mono_head_le c r c' : mono (map crk (c :: r)) -> In c' (c :: r) -> (crk c <= crk c')%nat.
Proof.
  intros [F _] [<-|H]; [lia|]. rewrite Forall_forall in F. apply F. apply in_map_iff. eauto.
Qed.

Lemma crk_2 c : (2 <= crk c)%nat -> match c_kind c with KSync => false | _ => true end = true.
Proof. unfold crk, rk. destruct (c_kind c); intros H; try reflexivity; lia. Qed.

Lemma crk_nosync c : (1 <= crk c)%nat -> match c_kind c with KSync => true | _ => false end = false -> (2 <= crk c)%nat.
Proof. unfold crk, rk. destruct (c_kind c); intros H E; try lia; discriminate. Qed.

(* Combining keeps the invariant, and never makes a task that had to run into one that is
   skipped: a head that is not a Synchronization does not become one, because behind an
   event context there is no Synchronization context in the queue. *)
Lemma combine_keeps cfg v0 t rest :
  t_type t = HookRun -> LI cfg (t :: rest) -> should_run v0 t = true ->
  LI cfg (fst (combine t rest) :: snd (combine t rest))
  /\ should_run v0 (fst (combine t rest)) = true
  /\ t_type (fst (combine t rest)) = HookRun.
Proof.
  intros Ty [Lf Lt Lm La] SR. unfold combine.
  pose proof (take_block_split t rest) as Sp. pose proof (take_block_hookrun t rest Ty) as Hb.
  destruct (take_block t rest) as [block rest']. cbn [fst snd] in Sp, Hb.
  destruct block as [|b bs].
  - cbn [fst snd]. split; [constructor; assumption | split; assumption].
  - cbn [fst snd]. remember (b :: bs) as block eqn:Eblock.
    set (l := t_ctxs t ++ flat_map t_ctxs block).
    cbn [tl] in Lf, La. rewrite Sp in Lf, Lt, Lm, La.
    apply Forall_app in Lf as [_ Lf']. apply Forall_app in La as [_ La'].
    apply Forall_cons_iff in Lt as [Tt Lt0]. apply Forall_app in Lt0 as [Ltb Lt'].
    assert (Ml : mono (map crk l ++ qranks rest')).
    { change (qranks (t :: block ++ rest')) with (tranks t ++ qranks (block ++ rest')) in Lm.
      rewrite qranks_app, (qranks_hookrun block Hb) in Lm. unfold tranks in Lm. rewrite Ty in Lm.
      unfold l. rewrite map_app, <- app_assoc. exact Lm. }
    apply mono_app in Ml as (Ml1 & Ml2 & Ml3).
    assert (KO : t_btype t = BKube -> exists c' r', compact l = c' :: r' /\
                   (1 <= crk c')%nat /\
                   (is_sync t = false -> (2 <= crk c')%nat)).
    { intros Bt. destruct Tt as [_ Kt]. destruct (Kt Ty Bt) as (c & r & Ec & Rc).
      assert (El : l = c :: (r ++ flat_map t_ctxs block)) by (unfold l; now rewrite Ec).
      destruct (compact l) as [|c' r'] eqn:Ecl.
      { exfalso. apply (compact_nonempty l); [rewrite El; discriminate | exact Ecl]. }
      assert (Hin : In c' l) by (apply compact_in; rewrite Ecl; now left).
      rewrite El in Ml1, Hin. pose proof (mono_head_le _ _ _ Ml1 Hin) as Le.
      exists c', r'. split; [reflexivity|]. split; [lia|].
      intros Ns. unfold is_sync in Ns. rewrite Bt, Ec in Ns.
      pose proof (crk_nosync c Rc Ns). lia. }
    split; [|split].
    + constructor.
      * cbn [tl]. exact Lf'.
      * constructor; [|exact Lt']. split.
        -- (* dropped only if every merged task may be dropped *)
           unfold task_ok, set_combined. cbn [t_allow t_ctxs]. intros Al.
           apply andb_true_iff in Al as [Al1 Al2].
           apply forallb_forall. intros c Hc. apply compact_in in Hc. unfold l in Hc.
           apply in_app_or in Hc as [Hc|Hc].
           ++ destruct Tt as [Tt _]. specialize (Tt Al1). rewrite forallb_forall in Tt. now apply Tt.
           ++ apply in_flat_map in Hc as [x [Hx Hc]].
              rewrite forallb_forall in Al2. specialize (Al2 x Hx).
              rewrite Forall_forall in Ltb. destruct (Ltb x Hx) as [Tx _]. specialize (Tx Al2).
              rewrite forallb_forall in Tx. now apply Tx.
        -- unfold kube_ok, set_combined. cbn [t_type t_btype t_ctxs]. intros _ Bt.
           destruct (KO Bt) as (c' & r' & E1 & E2 & _). exists c', r'. split; [exact E1 | exact E2].
      * change (qranks (set_combined t (compact l) (t_mids t ++ flat_map t_mids block)
                                     (t_allow t && forallb t_allow block) :: rest'))
          with (tranks (set_combined t (compact l) (t_mids t ++ flat_map t_mids block)
                                     (t_allow t && forallb t_allow block)) ++ qranks rest').
        unfold tranks, set_combined. cbn [t_type t_ctxs]. rewrite Ty.
        apply mono_app. split; [now apply compact_mono|]. split; [exact Ml2|].
        intros x y Hx Hy. apply Ml3; [|exact Hy].
        apply in_map_iff in Hx as [c [<- Hc]]. apply in_map_iff. exists c. split; [reflexivity | now apply compact_in].
      * cbn [tl]. exact La'.
    + unfold should_run in *. unfold set_combined at 2. cbn [t_execsync].
      destruct (is_sync t) eqn:Sy.
      * cbn [andb] in SR. apply negb_true_iff in SR. rewrite SR. now rewrite andb_false_r.
      * assert (Ns : is_sync (set_combined t (compact l) (t_mids t ++ flat_map t_mids block)
                                           (t_allow t && forallb t_allow block)) = false).
        { unfold is_sync, set_combined. cbn [t_btype t_ctxs].
          destruct (t_btype t) eqn:Bt; try reflexivity.
          destruct (KO eq_refl) as (c' & r' & E1 & _ & E3). rewrite E1.
          specialize (E3 eq_refl). pose proof (crk_2 c' E3) as K. destruct (c_kind c'); try reflexivity; discriminate. }
        rewrite Ns. reflexivity.
    + exact Ty.
Qed.

(* ------------------------------------------------------------------ configuration facts *)

(* what is needed of the configuration: binding names are unique (part of wf_config) *)
Definition names_ok (cfg : config) : Prop := nodup_N (binding_names cfg) = true.

Lemma wf_names_ok cfg : wf_config cfg = true -> names_ok cfg.
Proof.
  unfold wf_config, names_ok. intros H.
  repeat (apply andb_true_iff in H as [H _]). exact H.
Qed.

Lemma nodup_N_NoDup l : nodup_N l = true -> NoDup l.
Proof.
  induction l as [|x r IH]; intros H; [constructor|]. simpl in H. apply andb_true_iff in H as [H1 H2].
  constructor; [|now apply IH]. intros Hin. apply mem_N_In in Hin. rewrite Hin in H1. discriminate.
Qed.

Lemma NoDup_app_parts (a b : list N) :
  NoDup (a ++ b) -> NoDup a /\ NoDup b /\ (forall x, In x a -> ~ In x b).
Proof.
  induction a as [|x a IH]; simpl; intros H.
  - repeat split; [constructor | exact H | intros ? []].
  - inversion H as [|? ? Hn Hr]; subst. destruct (IH Hr) as (Ha & Hb & Hd). repeat split.
    + constructor; [|exact Ha]. intros Hi. apply Hn. apply in_or_app. now left.
    + exact Hb.
    + intros y [<-|Hy]; [|now apply Hd]. intros Hi. apply Hn. apply in_or_app. now right.
Qed.

Lemma find_unique {A} (f : A -> N) : forall (l : list A) x,
  NoDup (map f l) -> In x l -> find (fun y => N.eqb (f y) (f x)) l = Some x.
Proof.
  induction l as [|y l IH]; intros x Hn Hx; [destruct Hx|]. simpl in *.
  inversion Hn as [|? ? Hy Hl]; subst.
  destruct Hx as [->|Hx].
  - now rewrite N.eqb_refl.
  - destruct (N.eqb (f y) (f x)) eqn:E.
    + exfalso. apply N.eqb_eq in E. apply Hy. rewrite E. apply in_map_iff. eauto.
    + now apply IH.
Qed.

Lemma find_absent {A} (f : A -> N) n : forall (l : list A),
  ~ In n (map f l) -> find (fun y => N.eqb (f y) n) l = None.
Proof.
  induction l as [|y l IH]; intros H; [reflexivity|]. simpl in *.
  destruct (N.eqb (f y) n) eqn:E.
  - exfalso. apply H. left. now apply N.eqb_eq.
  - apply IH. intros Hi. apply H. now right.
Qed.

Lemma in_kube_bindings cfg h b : In h cfg -> In b (h_kube h) -> In (h, b) (kube_bindings cfg).
Proof. intros Hh Hb. unfold kube_bindings. apply in_flat_map. exists h. split; [exact Hh|]. apply in_map_iff. eauto. Qed.

Lemma in_sched_bindings cfg h b : In h cfg -> In b (h_sched h) -> In (h, b) (sched_bindings cfg).
Proof. intros Hh Hb. unfold sched_bindings. apply in_flat_map. exists h. split; [exact Hh|]. apply in_map_iff. eauto. Qed.

Lemma kube_allow_lookup cfg h b :
  names_ok cfg -> In h cfg -> In b (h_kube h) -> binding_allow cfg (kb_name b) = kb_allow b.
Proof.
  intros Hn Hh Hb. apply nodup_N_NoDup in Hn. unfold binding_names in Hn.
  apply NoDup_app_parts in Hn as (Hk & _ & _).
  unfold binding_allow.
  pose proof (find_unique (fun hb : hook * kbinding => kb_name (snd hb)) (kube_bindings cfg) (h, b) Hk
                (in_kube_bindings cfg h b Hh Hb)) as F.
  cbn [snd] in F. rewrite F. reflexivity.
Qed.

Lemma sched_allow_lookup cfg h b :
  names_ok cfg -> In h cfg -> In b (h_sched h) -> binding_allow cfg (sb_name b) = sb_allow b.
Proof.
  intros Hn Hh Hb. apply nodup_N_NoDup in Hn. unfold binding_names in Hn.
  apply NoDup_app_parts in Hn as (_ & Hs & Hd).
  unfold binding_allow.
  pose proof (in_sched_bindings cfg h b Hh Hb) as Hin.
  rewrite (find_absent (fun hb : hook * kbinding => kb_name (snd hb)) (sb_name b)).
  - pose proof (find_unique (fun hb : hook * sbinding => sb_name (snd hb)) (sched_bindings cfg) (h, b) Hs Hin) as F.
    cbn [snd] in F. rewrite F. reflexivity.
  - intros Hk. apply (Hd _ Hk). apply in_map_iff. exists (h, b). split; [reflexivity | exact Hin].
Qed.

Lemma find_hook_in cfg n h : find_hook cfg n = Some h -> In h cfg.
Proof. unfold find_hook. intros H. apply find_some in H. tauto. Qed.

(* ------------------------------------------------------------------ the worker keeps the invariant *)

Lemma Forall_tl {A} (P : A -> Prop) l : Forall P l -> Forall P (tl l).
Proof. intros H. destruct l; [exact H|]. now inversion H. Qed.

Lemma LI_tail cfg t r : LI cfg (t :: r) -> LI cfg r.
Proof.
  intros [Lf Lt Lm La]. constructor.
  - apply Forall_tl. exact Lf.
  - now inversion Lt.
  - change (qranks (t :: r)) with (tranks t ++ qranks r) in Lm. exact (mono_app_r _ _ Lm).
  - apply Forall_tl. exact La.
Qed.

Lemma sync_tasks_tok cfg h : names_ok cfg -> In h cfg ->
  forall l, incl l (h_kube h) -> Forall (tok cfg) (map (sync_task h) l).
Proof.
  intros Hn Hh. induction l as [|b l IH]; intros Hi; [constructor|]. simpl. constructor.
  - split.
    + unfold task_ok, sync_task. cbn [t_allow t_ctxs forallb]. intros Al.
      unfold ctx_ok. cbn [c_kind c_binding]. rewrite (kube_allow_lookup cfg h b Hn Hh), Al; [reflexivity|].
      apply Hi. now left.
    + unfold kube_ok, sync_task. cbn [t_ctxs]. intros _ _. eexists; eexists. split; [reflexivity|].
      unfold crk, rk. cbn [c_kind]. lia.
  - apply IH. intros x Hx. apply Hi. now right.
Qed.

Lemma sync_tasks_ranks h l : Forall (fun y => y = 1%nat) (qranks (map (sync_task h) l)).
Proof. induction l as [|b l IH]; simpl; [constructor|]. constructor; [reflexivity | exact IH]. Qed.

Lemma sync_tasks_fail0 h l : Forall fail0 (map (sync_task h) l).
Proof. induction l as [|b l IH]; simpl; constructor; [reflexivity | exact IH]. Qed.

Lemma sync_tasks_asis cfg h : names_ok cfg -> In h cfg ->
  forall l, incl l (h_kube h) -> Forall (asis cfg) (map (sync_task h) l).
Proof.
  intros Hn Hh. induction l as [|b l IH]; intros Hi; [constructor|]. simpl. constructor.
  - intros _. unfold sync_task. cbn [t_ctxs t_allow]. eexists. split; [reflexivity|].
    unfold ctx_ok. cbn [c_kind c_binding]. symmetry. apply (kube_allow_lookup cfg h b Hn Hh). apply Hi. now left.
  - apply IH. intros x Hx. apply Hi. now right.
Qed.

Lemma LI_sync_tasks cfg h t rest :
  names_ok cfg -> In h cfg -> t_type t = EnableKube -> LI cfg (t :: rest) ->
  LI cfg (map (sync_task h) (h_kube h) ++ rest).
Proof.
  intros Hn Hh Ty [Lf Lt Lm La]. cbn [tl] in Lf, La. constructor; [| | |apply Forall_tl; apply Forall_app; split; [apply sync_tasks_asis; auto; apply incl_refl | exact La]].
  - apply Forall_tl. apply Forall_app. split; [apply sync_tasks_fail0 | exact Lf].
  - apply Forall_app. split; [apply sync_tasks_tok; auto; apply incl_refl | now inversion Lt].
  - change (qranks (t :: rest)) with (tranks t ++ qranks rest) in Lm. unfold tranks in Lm. rewrite Ty in Lm.
    apply mono_app in Lm as (_ & M2 & M3).
    rewrite qranks_app. apply mono_app. split; [apply (mono_const 1), sync_tasks_ranks|]. split; [exact M2|].
    intros x y Hx Hy. pose proof (sync_tasks_ranks h (h_kube h)) as F. rewrite Forall_forall in F.
    rewrite (F x Hx). apply M3; [now left | exact Hy].
Qed.

Lemma advance_q_nil fuel cfg qok sh : advance_q fuel cfg qok [] sh = ([], None, sh).
Proof. destruct fuel; reflexivity. Qed.

Lemma advance_q_cons fuel cfg qok t rest sh :
  advance_q (S fuel) cfg qok (t :: rest) sh =
  match t_type t with
  | EnableKube =>
      match find_hook cfg (t_hook t) with
      | Some h => advance_q fuel cfg qok (map (sync_task h) (h_kube h) ++ rest)
                    (mkSh (s_sched_on sh) (s_unlocked sh) (s_mon_started sh ++ map kb_mon (h_kube h)))
      | None => advance_q fuel cfg qok rest sh
      end
  | EnableSched => advance_q fuel cfg qok rest (mkSh (s_sched_on sh ++ [t_hook t]) (s_unlocked sh) (s_mon_started sh))
  | HookRun =>
      if should_run (hook_v0 cfg (t_hook t)) t then
        if negb (hook_v0 cfg (t_hook t)) && should_combine t && qok (t_queue t) then
          (fst (combine t rest) :: snd (combine t rest), Some (is_sync t), sh)
        else (t :: rest, Some (is_sync t), sh)
      else advance_q fuel cfg qok rest (mkSh (s_sched_on sh) (s_unlocked sh ++ t_mids t) (s_mon_started sh))
  end.
Proof.
  unfold advance_q at 1. fold advance_q. unfold hook_v0. destruct (t_type t); try reflexivity.
  destruct (should_run _ t); [|reflexivity].
  destruct (negb _ && should_combine t && qok (t_queue t)); [|reflexivity].
  destruct (combine t rest); reflexivity.
Qed.

Definition picked_ok (cfg : config) (items : list task) (run : option bool) : Prop :=
  run <> None ->
  exists t r, items = t :: r /\ t_type t = HookRun /\ should_run (hook_v0 cfg (t_hook t)) t = true.

Lemma advance_q_keeps cfg qok : names_ok cfg -> forall fuel items sh,
  LI cfg items ->
  LI cfg (fst (fst (advance_q fuel cfg qok items sh)))
  /\ picked_ok cfg (fst (fst (advance_q fuel cfg qok items sh))) (snd (fst (advance_q fuel cfg qok items sh)))
  /\ (Forall fail0 items -> Forall fail0 (fst (fst (advance_q fuel cfg qok items sh)))).
Proof.
  intros Hn. induction fuel as [|fuel IH]; intros items sh HL.
  - cbn. split; [exact HL|]. split; [intros C; now contradiction C | auto].
  - destruct items as [|t rest].
    + rewrite advance_q_nil. cbn. split; [exact HL|]. split; [intros C; now contradiction C | auto].
    + rewrite advance_q_cons. destruct (t_type t) eqn:Ty.
      * (* HookRun *)
        destruct (should_run (hook_v0 cfg (t_hook t)) t) eqn:SR.
        -- destruct (negb (hook_v0 cfg (t_hook t)) && should_combine t && qok (t_queue t)).
           ++ destruct (combine_keeps cfg (hook_v0 cfg (t_hook t)) t rest Ty HL SR) as (K1 & K2 & K3).
              destruct (combine_spec t rest) as (C1 & C2 & _ & _ & C5 & _).
              cbn [fst snd]. split; [exact K1|]. split.
              ** intros _. eexists; eexists. split; [reflexivity|]. split; [exact K3|]. rewrite C1. exact K2.
              ** intros F. inversion F as [|? ? F1 F2]; subst. constructor.
                 --- unfold fail0 in *. now rewrite C2.
                 --- rewrite C5 in F2. now apply Forall_app in F2 as [_ F2].
           ++ cbn [fst snd]. split; [exact HL|]. split; [|auto].
              intros _. eexists; eexists. split; [reflexivity|]. split; [exact Ty | exact SR].
        -- destruct (IH rest (mkSh (s_sched_on sh) (s_unlocked sh ++ t_mids t) (s_mon_started sh)) (LI_tail cfg t rest HL))
             as (K1 & K2 & K3).
           split; [exact K1|]. split; [exact K2|]. intros F. apply K3. now inversion F.
      * (* EnableKube *)
        destruct (find_hook cfg (t_hook t)) as [h|] eqn:Fh.
        -- pose proof (LI_sync_tasks cfg h t rest Hn (find_hook_in _ _ _ Fh) Ty HL) as HL'.
           destruct (IH _ (mkSh (s_sched_on sh) (s_unlocked sh) (s_mon_started sh ++ map kb_mon (h_kube h))) HL')
             as (K1 & K2 & K3).
           split; [exact K1|]. split; [exact K2|]. intros F. apply K3.
           apply Forall_app. split; [apply sync_tasks_fail0 | now inversion F].
        -- destruct (IH rest sh (LI_tail cfg t rest HL)) as (K1 & K2 & K3).
           split; [exact K1|]. split; [exact K2|]. intros F. apply K3. now inversion F.
      * (* EnableSched *)
        destruct (IH rest (mkSh (s_sched_on sh ++ [t_hook t]) (s_unlocked sh) (s_mon_started sh)) (LI_tail cfg t rest HL))
          as (K1 & K2 & K3).
        split; [exact K1|]. split; [exact K2|]. intros F. apply K3. now inversion F.
Qed.

(* ------------------------------------------------------------------ every move of a queue keeps QI *)

Lemma adv_one_QI cfg qok q : names_ok cfg -> QI cfg q -> QI cfg (adv_one cfg qok q).
Proof.
  intros Hn [HL HH]. unfold adv_one. destruct (is_running q) eqn:R; [split; assumption|].
  destruct (advance_q_keeps cfg qok Hn (fuel_for cfg (q_items q)) (q_items q) no_shared HL) as (K1 & K2 & _).
  destruct (advance_q (fuel_for cfg (q_items q)) cfg qok (q_items q) no_shared) as [[items run] sh].
  cbn [fst snd] in K1, K2. split; [exact K1|].
  unfold head_ok, is_running. cbn [q_running q_items]. intros Hr. apply K2. destruct run; [discriminate | discriminate].
Qed.

(* tasks made from a tick or an event *)
Definition late (cfg : config) (t : task) : Prop := fail0 t /\ tok cfg t /\ tranks t = [2%nat].

Lemma tranks_le2 t : Forall (fun y => (y <= 2)%nat) (tranks t).
Proof.
  unfold tranks. destruct (t_type t); [|repeat constructor|constructor].
  apply Forall_forall. intros y Hy. apply in_map_iff in Hy as [c [<- _]]. unfold crk, rk. destruct (c_kind c); lia.
Qed.

Lemma qranks_le2 l : Forall (fun y => (y <= 2)%nat) (qranks l).
Proof. induction l as [|t l IH]; [constructor|]. simpl. apply Forall_app. split; [apply tranks_le2 | exact IH]. Qed.

Lemma late_ranks cfg l : Forall (late cfg) l -> Forall (fun y => y = 2%nat) (qranks l).
Proof.
  induction l as [|t l IH]; intros H; [constructor|]. inversion H as [|? ? (_ & _ & E) Hl]; subst.
  simpl. rewrite E. constructor; [reflexivity | now apply IH].
Qed.

Lemma LI_app_late cfg l new : LI cfg l -> Forall (late cfg) new -> Forall (asis cfg) new -> LI cfg (l ++ new).
Proof.
  intros [Lf Lt Lm La] Hl Has. constructor; [| | |destruct l as [|t0 r0]; [apply Forall_tl, Has | cbn [tl app] in *; apply Forall_app; split; assumption]].
  - assert (F : Forall fail0 new) by (eapply Forall_impl; [|exact Hl]; intros a (Ha & _); exact Ha).
    destruct l as [|t r]; [apply Forall_tl, F|]. cbn [tl app] in *. apply Forall_app. split; assumption.
  - apply Forall_app. split; [exact Lt|]. eapply Forall_impl; [|exact Hl]. intros a (_ & Ha & _); exact Ha.
  - rewrite qranks_app. apply mono_app. pose proof (late_ranks cfg new Hl) as F2.
    split; [exact Lm|]. split; [apply (mono_const 2), F2|].
    intros x y Hx Hy. rewrite Forall_forall in F2. rewrite (F2 y Hy).
    pose proof (qranks_le2 l) as F. rewrite Forall_forall in F. now apply F.
Qed.

Lemma app_many_QI cfg ts q : QI cfg q -> Forall (late cfg) ts -> Forall (asis cfg) ts -> QI cfg (app_many ts q).
Proof.
  intros [HL HH] Hl Ha. split.
  - unfold app_many. cbn [q_items]. apply LI_app_late; [exact HL| |].
    + apply Forall_forall. intros t Ht. apply filter_In in Ht as [Ht _]. rewrite Forall_forall in Hl. now apply Hl.
    + apply Forall_forall. intros t Ht. apply filter_In in Ht as [Ht _]. rewrite Forall_forall in Ha. now apply Ha.
  - unfold head_ok, app_many, is_running. cbn [q_running q_items]. intros R.
    destruct (HH R) as (t & r & E & Ty & SR). rewrite E. exists t, (r ++ filter (fun t0 => N.eqb (t_queue t0) (q_name q)) ts).
    split; [reflexivity | split; assumption].
Qed.

Lemma sched_tasks_late cfg on c : names_ok cfg -> Forall (late cfg) (sched_tasks cfg on c).
Proof.
  intros Hn. apply Forall_forall. intros t Ht. unfold sched_tasks in Ht.
  apply in_flat_map in Ht as [h [Hh Ht]]. destruct (mem_N (h_id h) on); [|destruct Ht].
  apply in_flat_map in Ht as [b [Hb Ht]]. destruct (N.eqb (sb_cron b) c); [|destruct Ht].
  destruct Ht as [<-|[]]. split; [reflexivity|]. split; [|reflexivity]. split.
  - unfold task_ok. cbn [t_allow t_ctxs forallb]. intros Al. unfold ctx_ok. cbn [c_kind c_binding].
    now rewrite (sched_allow_lookup cfg h b Hn Hh Hb), Al.
  - unfold kube_ok. cbn [t_btype]. discriminate.
Qed.

Lemma kube_tasks_late cfg unl m o : names_ok cfg -> Forall (late cfg) (kube_tasks cfg unl m o).
Proof.
  intros Hn. apply Forall_forall. intros t Ht. unfold kube_tasks in Ht.
  destruct (mem_N m unl); [|destruct Ht].
  apply in_flat_map in Ht as [h [Hh Ht]].
  apply in_flat_map in Ht as [b [Hb Ht]]. destruct (N.eqb (kb_mon b) m); [|destruct Ht].
  destruct Ht as [<-|[]]. split; [reflexivity|]. split; [|reflexivity]. split.
  - unfold task_ok. cbn [t_allow t_ctxs forallb]. intros Al. unfold ctx_ok. cbn [c_kind c_binding].
    now rewrite (kube_allow_lookup cfg h b Hn Hh Hb), Al.
  - unfold kube_ok. cbn [t_ctxs]. intros _ _. eexists; eexists. split; [reflexivity|]. unfold crk, rk. cbn [c_kind]. lia.
Qed.

Lemma sched_tasks_asis cfg on c : names_ok cfg -> Forall (asis cfg) (sched_tasks cfg on c).
Proof.
  intros Hn. apply Forall_forall. intros t Ht. unfold sched_tasks in Ht.
  apply in_flat_map in Ht as [h [Hh Ht]]. destruct (mem_N (h_id h) on); [|destruct Ht].
  apply in_flat_map in Ht as [b [Hb Ht]]. destruct (N.eqb (sb_cron b) c); [|destruct Ht].
  destruct Ht as [<-|[]]. intros _. cbn [t_ctxs t_allow]. eexists. split; [reflexivity|].
  unfold ctx_ok. cbn [c_kind c_binding]. symmetry. exact (sched_allow_lookup cfg h b Hn Hh Hb).
Qed.

Lemma kube_tasks_asis cfg unl m o : names_ok cfg -> Forall (asis cfg) (kube_tasks cfg unl m o).
Proof.
  intros Hn. apply Forall_forall. intros t Ht. unfold kube_tasks in Ht.
  destruct (mem_N m unl); [|destruct Ht].
  apply in_flat_map in Ht as [h [Hh Ht]].
  apply in_flat_map in Ht as [b [Hb Ht]]. destruct (N.eqb (kb_mon b) m); [|destruct Ht].
  destruct Ht as [<-|[]]. intros _. cbn [t_ctxs t_allow]. eexists. split; [reflexivity|].
  unfold ctx_ok. cbn [c_kind c_binding]. symmetry. exact (kube_allow_lookup cfg h b Hn Hh Hb).
Qed.

Lemma LI_incr_fail cfg t rest : LI cfg (t :: rest) -> LI cfg (incr_fail t :: rest).
Proof.
  intros [Lf Lt Lm La]. constructor.
  - exact Lf.
  - inversion Lt as [|? ? [T1 T2] Lr]; subst. constructor; [|exact Lr]. split; [exact T1 | exact T2].
  - exact Lm.
  - exact La.
Qed.

Lemma finish_one_QI cfg ok w q : QI cfg q -> QI cfg (finish_one ok false w q).
Proof.
  intros [HL HH]. unfold finish_one.
  destruct (q_running q) as [sy|] eqn:R; [|split; assumption].
  destruct (q_items q) as [|t rest] eqn:I; [split; [now rewrite I | exact HH]|].
  destruct (q_delay q) eqn:D; [split; [now rewrite I | exact HH]|].
  assert (Run : is_running q = true) by (unfold is_running; now rewrite R).
  destruct (HH Run) as (t0 & r0 & E0 & Ty & SR). rewrite I in E0. inversion E0; subst t0 r0. clear E0.
  destruct (ok || t_allow t).
  - split; [exact (LI_tail cfg t rest HL) | intros C; discriminate C].
  - destruct w.
    + split; [exact (LI_incr_fail cfg t rest HL)|]. intros _. exists (incr_fail t), rest.
      split; [reflexivity|]. split; [exact Ty | exact SR].
    + split; [exact (LI_incr_fail cfg t rest HL) | intros C; discriminate C].
Qed.

Lemma elapse_one_QI cfg q : QI cfg q -> QI cfg (elapse_one q).
Proof.
  intros [HL HH]. unfold elapse_one. destruct (q_delay q); [|split; assumption].
  split; [exact HL | intros C; discriminate C].
Qed.

Lemma step_q_QI cfg a on unl qok q :
  names_ok cfg -> is_stop a = false -> QI cfg q -> QI cfg (step_q cfg a on unl false qok q).
Proof.
  intros Hn Ha HQ. unfold step_q. rewrite Ha. cbn [orb]. apply adv_one_QI; [exact Hn|].
  destruct a; try exact HQ.
  - apply app_many_QI; [exact HQ | now apply sched_tasks_late | now apply sched_tasks_asis].
  - apply app_many_QI; [exact HQ | now apply kube_tasks_late | now apply kube_tasks_asis].
  - destruct (N.eqb (q_name q) q0); [now apply finish_one_QI | exact HQ].
  - destruct (N.eqb (q_name q) q0); [now apply finish_one_QI | exact HQ].
  - destruct (N.eqb (q_name q) q0); [now apply elapse_one_QI | exact HQ].
Qed.

(* ------------------------------------------------------------------ bootstrap and the state invariant *)

Lemma QI_empty cfg n : QI cfg (mkQ n [] None false).
Proof. split; [constructor; simpl; auto; constructor | intros C; discriminate C]. Qed.

Lemma add_queue_QI cfg qs n : Forall (QI cfg) qs -> Forall (QI cfg) (add_queue qs n).
Proof.
  intros H. unfold add_queue. destruct (has_queue qs n); [exact H|].
  apply Forall_app. split; [exact H|]. constructor; [apply QI_empty | constructor].
Qed.

Lemma fold_add_queue_QI cfg l : forall qs, Forall (QI cfg) qs -> Forall (QI cfg) (fold_left add_queue l qs).
Proof. induction l as [|n l IH]; intros qs H; [exact H|]. simpl. apply IH, add_queue_QI, H. Qed.

Lemma enable_tasks_facts cfg h :
  Forall (fun t => fail0 t /\ tok cfg t) (enable_tasks h) /\ Forall (fun y => y = 1%nat) (qranks (enable_tasks h)).
Proof.
  assert (T : forall ty bt, ty <> HookRun -> tok cfg (mkTask ty (h_id h) bt [] false 0 [] false no_queue 0)).
  { intros ty bt Hty. split; [intros C; discriminate C | intros C; cbn in C; contradiction]. }
  unfold enable_tasks. destruct (h_kube h); destruct (h_sched h); cbn; split; repeat constructor;
    try (apply T; discriminate).
Qed.

Lemma LI_boot_main cfg : LI cfg (boot_main cfg).
Proof.
  unfold boot_main.
  assert (S1 : forall l, Forall (fun t => fail0 t /\ tok cfg t) (map startup_task l)
                         /\ Forall (fun y => y = 0%nat) (qranks (map startup_task l))).
  { induction l as [|h l [IH1 IH2]]; [split; constructor|]. split; simpl; constructor; auto.
    split; [reflexivity|]. split; [intros C; discriminate C | intros _ C; discriminate C]. }
  assert (S2 : forall l, Forall (fun t => fail0 t /\ tok cfg t) (flat_map enable_tasks l)
                         /\ Forall (fun y => y = 1%nat) (qranks (flat_map enable_tasks l))).
  { induction l as [|h l [IH1 IH2]]; [split; constructor|]. destruct (enable_tasks_facts cfg h) as [E1 E2].
    split; simpl; [|rewrite qranks_app]; apply Forall_app; split; assumption. }
  destruct (S1 (startup_hooks cfg)) as [A1 A2]. destruct (S2 cfg) as [B1 B2].
  assert (All : Forall (fun t => fail0 t /\ tok cfg t) (map startup_task (startup_hooks cfg) ++ flat_map enable_tasks cfg))
    by (apply Forall_app; split; assumption).
  assert (As : Forall (asis cfg) (map startup_task (startup_hooks cfg) ++ flat_map enable_tasks cfg)).
  { apply Forall_app. split.
    - apply Forall_forall. intros t Ht. apply in_map_iff in Ht as [h [<- _]]. intros _.
      unfold startup_task. cbn [t_ctxs t_allow]. eexists. split; [reflexivity|]. reflexivity.
    - apply Forall_forall. intros t Ht. apply in_flat_map in Ht as [h [_ Ht]]. intros Ty.
      unfold enable_tasks in Ht. destruct (h_kube h); destruct (h_sched h); cbn in Ht;
        repeat (destruct Ht as [<-|Ht]; [cbn in Ty; discriminate|]); destruct Ht. }
  constructor; [| | |apply Forall_tl; exact As].
  - apply Forall_tl. eapply Forall_impl; [|exact All]. intros a [Ha _]; exact Ha.
  - eapply Forall_impl; [|exact All]. intros a [_ Ha]; exact Ha.
  - rewrite qranks_app. apply mono_app. split; [apply (mono_const 0), A2|]. split; [apply (mono_const 1), B2|].
    intros x y Hx Hy. rewrite Forall_forall in A2, B2. rewrite (A2 x Hx), (B2 y Hy). lia.
Qed.

Lemma boot_queues_QI cfg : Forall (QI cfg) (boot_queues cfg).
Proof.
  unfold boot_queues. apply fold_add_queue_QI, fold_add_queue_QI.
  constructor; [|constructor]. split; [apply LI_boot_main | intros C; discriminate C].
Qed.

(* the invariant of every reachable state; once Shutdown was requested nothing more is claimed *)
Definition SI (cfg : config) (s : state) : Prop :=
  Inv s /\ (stopped s = false -> Forall (QI cfg) (queues s)).

Lemma append_tasks_nil ts : append_tasks [] ts = [].
Proof. unfold append_tasks. induction ts as [|t ts IH]; [reflexivity | exact IH]. Qed.

Lemma advance_no_queues cfg s : queues s = [] -> queues (advance cfg s) = [].
Proof. intros Q. unfold advance. destruct (stopped s); [exact Q|]. rewrite Q. reflexivity. Qed.

(* before Boot there are no queues, and only Boot creates them *)
Lemma preboot_step cfg s a : queues s = [] -> a <> Boot -> queues (step cfg s a) = [].
Proof.
  intros Q Ha. unfold step. apply advance_no_queues. destruct a; cbn [queues]; rewrite ?Q.
  - contradiction.
  - apply append_tasks_nil.
  - apply append_tasks_nil.
  - reflexivity.
  - reflexivity.
  - reflexivity.
  - reflexivity.
Qed.

Lemma boot_step_queues cfg s : queues s = [] -> stopped s = false ->
  queues (step cfg s Boot) = map (adv_one cfg (has_queue (boot_queues cfg))) (boot_queues cfg).
Proof.
  intros Q St. unfold step. rewrite Q. rewrite advance_queues by exact St. reflexivity.
Qed.

Lemma step_SI cfg s a : names_ok cfg -> SI cfg s -> SI cfg (step cfg s a).
Proof.
  intros Hn [HI HQ]. split; [now apply step_inv|].
  intros St'. rewrite step_stopped in St'. apply orb_false_iff in St' as [St Ha].
  specialize (HQ St).
  destruct (queues s) as [|q0 qs0] eqn:Q.
  - destruct a; try (rewrite preboot_step by (assumption || discriminate); constructor).
    rewrite boot_step_queues by assumption.
    apply Forall_forall. intros q Hq. apply in_map_iff in Hq as [q1 [<- Hq1]].
    apply adv_one_QI; [exact Hn|]. pose proof (boot_queues_QI cfg) as B. rewrite Forall_forall in B. now apply B.
  - rewrite step_queue_local; [|exact (inv_names s HI) | rewrite Q; discriminate].
    rewrite St. apply Forall_forall. intros q Hq. apply in_map_iff in Hq as [q1 [<- Hq1]].
    apply step_q_QI; [exact Hn | exact Ha|]. rewrite <- Q in HQ. rewrite Forall_forall in HQ. now apply HQ.
Qed.

Lemma init_SI cfg : SI cfg init.
Proof. split; [apply init_inv | intros _; constructor]. Qed.

(* ------------------------------------------------------------------ reading the observation *)

Lemma insert_q_perm q l : Permutation (insert_q q l) (q :: l).
Proof.
  induction l as [|x r IH]; simpl; [reflexivity|].
  destruct (N.leb (q_name q) (q_name x)); [reflexivity|]. rewrite IH. apply perm_swap.
Qed.
Lemma sort_queues_perm l : Permutation (sort_queues l) l.
Proof. induction l as [|x l IH]; simpl; [reflexivity|]. rewrite insert_q_perm. now constructor. Qed.

Definition qobs_of (s : state) (q : qstate) : qobs :=
  mkQO (q_name q) (q_items q) (in_handler q) (stopped s && negb (in_handler q))
       (is_running q && q_delay q && negb (stopped s)).

Lemma so_queues_observe cfg s : so_queues (observe cfg s) = map (qobs_of s) (sort_queues (queues s)).
Proof. reflexivity. Qed.

Lemma find_map_name s n : forall l,
  find (fun o => N.eqb (qo_name o) n) (map (qobs_of s) l) = option_map (qobs_of s) (find (fun q => N.eqb (q_name q) n) l).
Proof.
  induction l as [|x l IH]; [reflexivity|]. simpl. destruct (N.eqb (q_name x) n); [reflexivity | exact IH].
Qed.

Lemma find_q_present cfg s q : NoDup (names (queues s)) -> In q (queues s) ->
  find_q (q_name q) (so_queues (observe cfg s)) = Some (qobs_of s q).
Proof.
  intros Hn Hq. unfold find_q. rewrite so_queues_observe, find_map_name.
  pose proof (sort_queues_perm (queues s)) as Pm.
  rewrite (find_unique q_name (sort_queues (queues s)) q); [reflexivity | |].
  - apply (Permutation_NoDup (l := names (queues s))); [|exact Hn].
    unfold names. apply Permutation_map. now apply Permutation_sym.
  - apply (Permutation_in _ (Permutation_sym Pm)), Hq.
Qed.

Lemma find_q_absent cfg s n : ~ In n (names (queues s)) -> find_q n (so_queues (observe cfg s)) = None.
Proof.
  intros Hn. unfold find_q. rewrite so_queues_observe, find_map_name.
  rewrite (find_absent q_name n); [reflexivity|].
  intros Hi. apply Hn. unfold names. apply (Permutation_in n (Permutation_map q_name (sort_queues_perm (queues s)))), Hi.
Qed.

Lemma obs_running cfg s q : NoDup (names (queues s)) -> In q (queues s) ->
  running_in (q_name q) (observe cfg s) = in_handler q.
Proof. intros Hn Hq. unfold running_in. now rewrite (find_q_present cfg s q Hn Hq). Qed.

Lemma obs_delayed cfg s q : NoDup (names (queues s)) -> In q (queues s) ->
  delayed_in (q_name q) (observe cfg s) = is_running q && q_delay q && negb (stopped s).
Proof. intros Hn Hq. unfold delayed_in. now rewrite (find_q_present cfg s q Hn Hq). Qed.

Lemma obs_head cfg s q : NoDup (names (queues s)) -> In q (queues s) ->
  head_of (q_name q) (observe cfg s) = hd_error (q_items q).
Proof.
  intros Hn Hq. unfold head_of. rewrite (find_q_present cfg s q Hn Hq). cbn [qo_items qobs_of].
  destruct (q_items q); reflexivity.
Qed.

Lemma obs_absent cfg s n : ~ In n (names (queues s)) ->
  running_in n (observe cfg s) = false /\ delayed_in n (observe cfg s) = false.
Proof. intros Hn. unfold running_in, delayed_in. now rewrite (find_q_absent cfg s n Hn). Qed.

Lemma in_names_dec (n : N) (l : list qstate) : (exists q, In q l /\ q_name q = n) \/ ~ In n (names l).
Proof.
  induction l as [|x l [[q [Hq E]]|IH]].
  - right. intros [].
  - left. exists q. split; [now right | exact E].
  - destruct (N.eq_dec (q_name x) n) as [E|E].
    + left. exists x. split; [now left | exact E].
    + right. intros [H|H]; [contradiction | now apply IH].
Qed.

(* the move of one queue under the step taken in state [s] *)
Definition nxt (cfg : config) (s : state) (a : action) (q : qstate) : qstate :=
  step_q cfg a (sched_on s) (unlocked s) (stopped s) (has_queue (queues s)) q.

Lemma adv_one_name cfg qok q : q_name (adv_one cfg qok q) = q_name q.
Proof.
  unfold adv_one. destruct (is_running q); [reflexivity|].
  destruct (advance_q _ _ _ _ _) as [[it ru] sh]. reflexivity.
Qed.

Lemma nxt_name cfg s a q : q_name (nxt cfg s a q) = q_name q.
Proof.
  unfold nxt, step_q.
  assert (G : forall x, q_name x = q_name q ->
           q_name (if stopped s || is_stop a then x else adv_one cfg (has_queue (queues s)) x) = q_name q).
  { intros x Hx. destruct (stopped s || is_stop a); [exact Hx | now rewrite adv_one_name]. }
  apply G. destruct a; try reflexivity;
    destruct (N.eqb (q_name q) q0); try reflexivity; try apply finish_one_name. apply elapse_one_name.
Qed.

Lemma nxt_in cfg s a q : Inv s -> In q (queues s) -> In (nxt cfg s a q) (queues (step cfg s a)).
Proof.
  intros HI Hq. rewrite step_queue_local; [|exact (inv_names s HI)|intros E; rewrite E in Hq; destruct Hq].
  apply in_map_iff. exists q. split; [reflexivity | exact Hq].
Qed.

Lemma obs_next cfg s a q : Inv s -> In q (queues s) ->
  running_in (q_name q) (observe cfg (step cfg s a)) = in_handler (nxt cfg s a q)
  /\ delayed_in (q_name q) (observe cfg (step cfg s a))
     = is_running (nxt cfg s a q) && q_delay (nxt cfg s a q) && negb (stopped s || is_stop a)
  /\ head_of (q_name q) (observe cfg (step cfg s a)) = hd_error (q_items (nxt cfg s a q)).
Proof.
  intros HI Hq. pose proof (nxt_in cfg s a q HI Hq) as Hq'.
  pose proof (inv_names _ (step_inv cfg s a HI)) as Hn'.
  rewrite <- (nxt_name cfg s a q). rewrite <- (step_stopped cfg s a).
  split; [now apply obs_running|]. split; [now apply obs_delayed | now apply obs_head].
Qed.

Lemma ttype_eqb_refl x : ttype_eqb x x = true. Proof. destruct x; reflexivity. Qed.
Lemma btype_eqb_refl x : btype_eqb x x = true. Proof. destruct x; reflexivity. Qed.
Lemma task_eqb_refl t : task_eqb t t = true.
Proof.
  unfold task_eqb. rewrite ttype_eqb_refl, btype_eqb_refl, !N.eqb_refl, !Bool.eqb_reflx.
  rewrite (list_eqb_refl ctx_eqb ctx_eqb_refl), (list_eqb_refl N.eqb N.eqb_refl). reflexivity.
Qed.

(* ------------------------------------------------------------------ clause: the delay is kept *)

Lemma kept_body cfg s a q :
  Inv s -> stopped s = false -> is_stop a = false -> In q (queues s) -> q_delay q = true ->
  match a with Elapse qn => q_name q <> qn | _ => True end ->
  delayed_in (q_name q) (observe cfg (step cfg s a)) && negb (running_in (q_name q) (observe cfg (step cfg s a)))
  && match head_of (q_name q) (observe cfg s), head_of (q_name q) (observe cfg (step cfg s a)) with
     | Some t, Some t' => task_eqb t t'
     | _, _ => false
     end = true.
Proof.
  intros HI St Ha Hq D Hne.
  destruct (delayed_queue_only_grows cfg s a q HI Hq D Hne) as [extra E]. fold (nxt cfg s a q) in E.
  destruct (obs_next cfg s a q HI Hq) as (O1 & O2 & O3). rewrite O1, O2, O3, E.
  rewrite (obs_head cfg s q (inv_names s HI) Hq).
  assert (R : is_running q = true).
  { pose proof (inv_delay s HI) as I4. rewrite Forall_forall in I4. now apply I4. }
  assert (B : q_items q <> []).
  { pose proof (inv_busy s HI) as I2. rewrite Forall_forall in I2. now apply (I2 q Hq). }
  destruct (q_items q) as [|t r]; [contradiction|].
  unfold in_handler, is_running in *. cbn [q_running q_delay q_items app hd_error].
  rewrite R, St, Ha, task_eqb_refl. reflexivity.
Qed.

Lemma clause_delay_kept cfg s a :
  Inv s -> stopped s = false -> delay_kept a (observe cfg s) (observe cfg (step cfg s a)) = true.
Proof.
  intros HI St. unfold delay_kept. apply forallb_forall. intros p Hp.
  rewrite so_queues_observe in Hp. apply in_map_iff in Hp as [q [<- Hq]].
  apply (Permutation_in _ (sort_queues_perm _)) in Hq.
  cbn [qo_delayed qo_name qobs_of].
  destruct (is_running q && q_delay q && negb (stopped s)) eqn:D; [|reflexivity].
  apply andb_true_iff in D as [D _]. apply andb_true_iff in D as [_ D].
  destruct a; try (apply kept_body; auto; fail).
  - reflexivity.
  - destruct (N.eqb q0 (q_name q)) eqn:E; [reflexivity|].
    apply kept_body; auto. intros C. subst q0. now rewrite N.eqb_refl in E.
Qed.

(* ------------------------------------------------------------------ clauses: the end of a failed execution *)

Lemma in_handler_setup cfg s q :
  SI cfg s -> stopped s = false -> In q (queues s) -> in_handler q = true ->
  exists sy t rest, q_running q = Some sy /\ q_items q = t :: rest /\ q_delay q = false
    /\ t_type t = HookRun /\ should_run (hook_v0 cfg (t_hook t)) t = true /\ LI cfg (t :: rest).
Proof.
  intros [HI HQ] St Hq R. specialize (HQ St). rewrite Forall_forall in HQ. destruct (HQ q Hq) as [HL HH].
  unfold in_handler in R. apply andb_true_iff in R as [R D]. apply negb_true_iff in D.
  destruct (HH R) as (t & rest & E & Ty & SR).
  unfold is_running in R. destruct (q_running q) as [sy|] eqn:Rq; [|discriminate].
  exists sy, t, rest. rewrite E in HL.
  split; [reflexivity|]. split; [exact E|]. split; [exact D|]. split; [exact Ty|]. split; [exact SR | exact HL].
Qed.

Lemma adv_fresh_head cfg qok n rest :
  names_ok cfg -> LI cfg rest -> Forall fail0 rest ->
  match hd_error (q_items (adv_one cfg qok (mkQ n rest None false))) with
  | Some t' => N.eqb (t_fail t') 0
  | None => true
  end = true.
Proof.
  intros Hn HL F. unfold adv_one, is_running. cbn [q_running q_items q_name].
  destruct (advance_q_keeps cfg qok Hn (fuel_for cfg rest) rest no_shared HL) as (_ & _ & K3).
  specialize (K3 F).
  destruct (advance_q (fuel_for cfg rest) cfg qok rest no_shared) as [[items run] sh].
  cbn [fst q_items] in *. destruct items as [|t' r']; [reflexivity|].
  inversion K3 as [|? ? F1 _]; subst. cbn [hd_error]. now apply N.eqb_eq.
Qed.

(* the head of a queue that is not blocked is picked: it runs, combined with what follows it *)
Lemma pick_head cfg qok n t rest :
  t_type t = HookRun -> should_run (hook_v0 cfg (t_hook t)) t = true ->
  let q' := adv_one cfg qok (mkQ n (t :: rest) None false) in
  in_handler q' = true /\ q_delay q' = false /\
  exists t' rest', q_items q' = t' :: rest' /\ t_hook t' = t_hook t /\ t_fail t' = t_fail t
                   /\ retained (t_ctxs t) (t_ctxs t') = true.
Proof.
  intros Ty SR q'. unfold q', adv_one, is_running. cbn [q_running q_items q_name].
  unfold fuel_for. rewrite advance_q_cons, Ty, SR.
  destruct (negb (hook_v0 cfg (t_hook t)) && should_combine t && qok (t_queue t)).
  - destruct (combine_spec t rest) as (C1 & C2 & _ & _ & _ & _ & _ & _ & C9 & _).
    split; [reflexivity|]. split; [reflexivity|]. eexists; eexists. cbn [q_items]. repeat split; auto.
  - split; [reflexivity|]. split; [reflexivity|]. exists t, rest. cbn [q_items]. repeat split; auto. apply retained_refl.
Qed.

Lemma nxt_finish cfg s q (ok w : bool) : stopped s = false ->
  nxt cfg s (if w then FinishWait (q_name q) else Finish (q_name q) ok) q
  = adv_one cfg (has_queue (queues s)) (finish_one (if w then false else ok) false w q).
Proof. intros St. unfold nxt, step_q. destruct w; cbn [is_stop]; now rewrite St, N.eqb_refl. Qed.

(* allowFailure: the task is dropped, the queue goes on with a task that has not failed, and
   what was dropped belonged to bindings that allow failure *)
Lemma dropped_ok cfg s q (w : bool) sy t rest :
  names_ok cfg -> SI cfg s -> stopped s = false -> In q (queues s) ->
  q_running q = Some sy -> q_items q = t :: rest -> q_delay q = false -> LI cfg (t :: rest) -> t_allow t = true ->
  let a := if w then FinishWait (q_name q) else Finish (q_name q) false in
  match head_of (q_name q) (observe cfg (step cfg s a)) with Some t' => N.eqb (t_fail t') 0 | None => true end
  && forallb (fun c => match c_kind c with
                       | KStartup => false
                       | _ => binding_allow cfg (c_binding c)
                       end) (t_ctxs t) = true.
Proof.
  intros Hn HS St Hq R I D HL Al a.
  destruct (obs_next cfg s a q (proj1 HS) Hq) as (_ & _ & O3). rewrite O3.
  unfold a. rewrite (nxt_finish cfg s q false w St).
  replace (if w then false else false) with false by (destruct w; reflexivity).
  rewrite (allow_failure_drops q sy t rest false w R I D Al).
  rewrite (adv_fresh_head cfg _ (q_name q) rest Hn (LI_tail cfg t rest HL) (li_fail cfg _ HL)).
  pose proof (li_tok cfg _ HL) as T. inversion T as [|? ? [T1 _] _]; subst. exact (T1 Al).
Qed.

Lemma clause_finish_wait cfg s qn :
  names_ok cfg -> SI cfg s -> stopped s = false ->
  (if running_in qn (observe cfg s) && negb false then
     match head_of qn (observe cfg s) with
     | Some t =>
         if t_allow t then
           match head_of qn (observe cfg (step cfg s (FinishWait qn))) with Some t' => N.eqb (t_fail t') 0 | None => true end
           && forallb (fun c => match c_kind c with
                                | KStartup => false
                                | _ => binding_allow cfg (c_binding c)
                                end) (t_ctxs t)
         else
           negb (running_in qn (observe cfg (step cfg s (FinishWait qn)))) && delayed_in qn (observe cfg (step cfg s (FinishWait qn)))
           && match head_of qn (observe cfg (step cfg s (FinishWait qn))) with
              | Some t' => N.eqb (t_fail t') (t_fail t + 1) && N.eqb (t_hook t') (t_hook t)
                           && list_eqb ctx_eqb (t_ctxs t) (t_ctxs t')
              | None => false
              end
     | None => false
     end
   else true) = true.
Proof.
  intros Hn HS St. pose proof (proj1 HS) as HI.
  destruct (in_names_dec qn (queues s)) as [[q [Hq <-]]|Hab];
    [|destruct (obs_absent cfg s qn Hab) as [-> _]; reflexivity].
  rewrite (obs_running cfg s q (inv_names s HI) Hq).
  destruct (in_handler q) eqn:R; [|reflexivity]. cbn [negb andb].
  destruct (in_handler_setup cfg s q HS St Hq R) as (sy & t & rest & Rq & I & D & Ty & SR & HL).
  rewrite (obs_head cfg s q (inv_names s HI) Hq), I. cbn [hd_error].
  destruct (t_allow t) eqn:Al.
  - exact (dropped_ok cfg s q true sy t rest Hn HS St Hq Rq I D HL Al).
  - destruct (obs_next cfg s (FinishWait (q_name q)) q HI Hq) as (O1 & O2 & O3). rewrite O1, O2, O3.
    rewrite (nxt_finish cfg s q false true St).
    destruct (fail_waits_then_retries cfg (has_queue (queues s)) q sy t rest [] Rq I D Ty Al SR) as (E1 & _ & E3 & _).
    rewrite E3, E1. unfold in_handler, is_running. cbn [q_running q_delay q_items hd_error incr_fail t_fail t_hook t_ctxs is_stop].
    rewrite St, N.add_1_r, !N.eqb_refl, (list_eqb_refl ctx_eqb ctx_eqb_refl). reflexivity.
Qed.

Lemma clause_finish_fail cfg s qn :
  names_ok cfg -> SI cfg s -> stopped s = false ->
  (if running_in qn (observe cfg s) && negb false then
     match head_of qn (observe cfg s) with
     | Some t =>
         if t_allow t then
           match head_of qn (observe cfg (step cfg s (Finish qn false))) with Some t' => N.eqb (t_fail t') 0 | None => true end
           && forallb (fun c => match c_kind c with
                                | KStartup => false
                                | _ => binding_allow cfg (c_binding c)
                                end) (t_ctxs t)
         else
           running_in qn (observe cfg (step cfg s (Finish qn false)))
           && match head_of qn (observe cfg (step cfg s (Finish qn false))) with
              | Some t' => N.eqb (t_fail t') (t_fail t + 1) && N.eqb (t_hook t') (t_hook t)
                           && retained (t_ctxs t) (t_ctxs t')
              | None => false
              end
     | None => false
     end
   else true) = true.
Proof.
  intros Hn HS St. pose proof (proj1 HS) as HI.
  destruct (in_names_dec qn (queues s)) as [[q [Hq <-]]|Hab];
    [|destruct (obs_absent cfg s qn Hab) as [-> _]; reflexivity].
  rewrite (obs_running cfg s q (inv_names s HI) Hq).
  destruct (in_handler q) eqn:R; [|reflexivity]. cbn [negb andb].
  destruct (in_handler_setup cfg s q HS St Hq R) as (sy & t & rest & Rq & I & D & Ty & SR & HL).
  rewrite (obs_head cfg s q (inv_names s HI) Hq), I. cbn [hd_error].
  destruct (t_allow t) eqn:Al.
  - exact (dropped_ok cfg s q false sy t rest Hn HS St Hq Rq I D HL Al).
  - destruct (obs_next cfg s (Finish (q_name q) false) q HI Hq) as (O1 & _ & O3). rewrite O1, O3.
    rewrite (nxt_finish cfg s q false false St).
    destruct (fail_retries_same_task cfg (has_queue (queues s)) q sy t rest Rq I D Ty Al SR)
      as (E1 & t' & rest' & block & E2 & _ & E3 & E4 & _ & E5 & _).
    rewrite E1, E2. cbn [hd_error]. rewrite E3, E4, E5, !N.eqb_refl. reflexivity.
Qed.

(* the delay is over: the task that failed runs again *)
Lemma clause_elapse cfg s qn :
  names_ok cfg -> SI cfg s -> stopped s = false ->
  (if delayed_in qn (observe cfg s) && negb false then
     match head_of qn (observe cfg s) with
     | Some t =>
         running_in qn (observe cfg (step cfg s (Elapse qn))) && negb (delayed_in qn (observe cfg (step cfg s (Elapse qn))))
         && match head_of qn (observe cfg (step cfg s (Elapse qn))) with
            | Some t' => N.eqb (t_fail t') (t_fail t) && N.eqb (t_hook t') (t_hook t)
                         && retained (t_ctxs t) (t_ctxs t')
            | None => false
            end
     | None => false
     end
   else true) = true.
Proof.
  intros Hn HS St. pose proof (proj1 HS) as HI.
  destruct (in_names_dec qn (queues s)) as [[q [Hq <-]]|Hab];
    [|destruct (obs_absent cfg s qn Hab) as [_ ->]; reflexivity].
  rewrite (obs_delayed cfg s q (inv_names s HI) Hq).
  destruct (is_running q && q_delay q && negb (stopped s)) eqn:Dl; [|reflexivity]. cbn [negb andb].
  apply andb_true_iff in Dl as [Dl _]. apply andb_true_iff in Dl as [R D].
  destruct HS as [_ HQ]. specialize (HQ St). rewrite Forall_forall in HQ. destruct (HQ q Hq) as [HL HH].
  destruct (HH R) as (t & rest & I & Ty & SR).
  rewrite (obs_head cfg s q (inv_names s HI) Hq), I. cbn [hd_error].
  destruct (obs_next cfg s (Elapse (q_name q)) q HI Hq) as (O1 & O2 & O3). rewrite O1, O2, O3.
  assert (E : nxt cfg s (Elapse (q_name q)) q = adv_one cfg (has_queue (queues s)) (mkQ (q_name q) (t :: rest) None false)).
  { unfold nxt, step_q. cbn [is_stop]. rewrite St, N.eqb_refl. cbn [orb]. unfold elapse_one. now rewrite D, I. }
  rewrite E.
  destruct (pick_head cfg (has_queue (queues s)) (q_name q) t rest Ty SR) as (P1 & P2 & t' & rest' & P3 & P4 & P5 & P6).
  rewrite P1, P2, P3. cbn [hd_error]. rewrite P4, P5, P6, !N.eqb_refl, andb_false_r. reflexivity.
Qed.

(* ------------------------------------------------------------------ assembling the predicate *)

Lemma so_bad_observe cfg s : so_bad (observe cfg s) = false.
Proof. reflexivity. Qed.

Lemma waiting_task_ok_asis cfg t : asis cfg t -> waiting_task_ok cfg t = true.
Proof.
  intros H. unfold waiting_task_ok. destruct (t_type t) eqn:Ty; try reflexivity.
  destruct (H Ty) as (c & Ec & Al). rewrite Ec, Al. unfold ctx_policy, ctx_ok. apply eqb_reflx.
Qed.

Lemma waiting_tasks_ok_QI cfg s : Forall (QI cfg) (queues s) -> waiting_tasks_ok cfg (observe cfg s) = true.
Proof.
  intros H. unfold waiting_tasks_ok. rewrite so_queues_observe. apply forallb_forall. intros o Ho.
  apply in_map_iff in Ho as [q [<- Hq]]. cbn [qobs_of qo_items].
  assert (Hq' : In q (queues s)) by (eapply Permutation_in; [apply sort_queues_perm | exact Hq]).
  rewrite Forall_forall in H. destruct (H q Hq') as [[_ _ _ La] _].
  apply forallb_forall. intros t Ht. apply waiting_task_ok_asis. rewrite Forall_forall in La. now apply La.
Qed.

Lemma step_stop_queues cfg s : queues (step cfg s Stop) = queues s.
Proof. unfold step. cbn. unfold advance. cbn [stopped]. reflexivity. Qed.

Lemma waiting_tasks_ok_step cfg s a : names_ok cfg -> SI cfg s -> stopped s = false ->
  waiting_tasks_ok cfg (observe cfg (step cfg s a)) = true.
Proof.
  intros Hn HS St. destruct (is_stop a) eqn:Sa.
  - destruct a; try discriminate.
    assert (E : forall o1 o2, so_queues o1 = so_queues o2 -> waiting_tasks_ok cfg o1 = waiting_tasks_ok cfg o2)
      by (intros o1 o2 E; unfold waiting_tasks_ok; now rewrite E).
    unfold waiting_tasks_ok. rewrite so_queues_observe, step_stop_queues.
    pose proof (waiting_tasks_ok_QI cfg s (proj2 HS St)) as W. unfold waiting_tasks_ok in W.
    rewrite so_queues_observe in W.
    apply forallb_forall. intros o Ho. apply in_map_iff in Ho as [q [<- Hq]]. cbn [qobs_of qo_items].
    rewrite forallb_forall in W. specialize (W (qobs_of s q) (in_map _ _ _ Hq)). exact W.
  - apply waiting_tasks_ok_QI. apply (proj2 (step_SI cfg s a Hn HS)).
    rewrite step_stopped, St, Sa. reflexivity.
Qed.

Lemma step_ok_holds cfg s a :
  names_ok cfg -> SI cfg s ->
  step_ok cfg (stopped s) a (observe cfg s) (observe cfg (step cfg s a)) = true.
Proof.
  intros Hn HS. unfold step_ok. rewrite so_bad_observe. cbn [negb andb].
  destruct (stopped s) eqn:St.
  - cbn [orb andb negb]. destruct a; try reflexivity.
    + destruct ok; [reflexivity|]. now rewrite andb_false_r.
    + now rewrite andb_false_r.
    + now rewrite andb_false_r.
  - rewrite (clause_delay_kept cfg s a (proj1 HS) St), (waiting_tasks_ok_step cfg s a Hn HS St). cbn [orb andb].
    destruct a; try reflexivity.
    + destruct ok; [reflexivity|]. now apply clause_finish_fail.
    + now apply clause_finish_wait.
    + now apply clause_elapse.
Qed.

Lemma steps_ok_from cfg : names_ok cfg -> forall acts s,
  SI cfg s ->
  steps_ok cfg (stopped s) (observe cfg s) acts (map (observe cfg) (trace_from cfg s acts)) = true.
Proof.
  intros Hn. induction acts as [|a acts IH]; intros s HS; [reflexivity|].
  cbn [trace_from map steps_ok].
  rewrite (step_ok_holds cfg s a Hn HS). cbn [andb].
  replace (stopped s || match a with Stop => true | _ => false end) with (stopped (step cfg s a))
    by (rewrite step_stopped; destruct a; reflexivity).
  apply IH. now apply step_SI.
Qed.

(* The whole property predicate holds of the model, for every configuration whose binding
   names are unique and every sequence of actions. *)
Theorem P_holds_names cfg acts :
  names_ok cfg -> P (cfg, acts, Op_Corr.model_obs (cfg, acts, [])) = true.
Proof.
  intros Hn. unfold P, Op_Corr.model_obs, c_cfg, c_acts, c_obs, trace. cbn [fst snd].
  exact (steps_ok_from cfg Hn acts init (init_SI cfg)).
Qed.

Theorem P_holds cfg acts :
  wf_config cfg = true -> P (cfg, acts, Op_Corr.model_obs (cfg, acts, [])) = true.
Proof. intros Hw. apply P_holds_names. now apply wf_names_ok. Qed.

(* The hypothesis is needed, and only for the clause that looks allowFailure up by binding
   name: with two bindings of the same name the lookup is ambiguous. *)
Lemma names_hypothesis_needed :
  exists cfg acts, P (cfg, acts, Op_Corr.model_obs (cfg, acts, [])) = false.
Proof.
  exists [mkHook 1 false None [] [mkSb 1 1 0 false 1; mkSb 1 1 0 true 2]], [Boot; Tick 2; Finish 1 false].
  vm_compute. reflexivity.
Qed.

(* The invariant behind the retry clauses, for every reachable state before Shutdown: a queue
   that is in a handler or waits in a back-off delay has at its head a hook task that is not
   skipped when it is picked again. *)
Theorem blocked_head_runs_again cfg acts q :
  names_ok cfg -> stopped (exec cfg acts init) = false -> In q (queues (exec cfg acts init)) ->
  is_running q = true ->
  exists t r, q_items q = t :: r /\ t_type t = HookRun /\ should_run (hook_v0 cfg (t_hook t)) t = true.
Proof.
  intros Hn St Hq R.
  assert (G : forall acts s, SI cfg s -> SI cfg (exec cfg acts s)).
  { intros acts0. unfold exec. induction acts0 as [|a acts0 IH]; intros s HS; [exact HS|]. simpl. apply IH.
    now apply step_SI. }
  destruct (G acts init (init_SI cfg)) as [_ HQ]. specialize (HQ St). rewrite Forall_forall in HQ.
  destruct (HQ q Hq) as [_ HH]. exact (HH R).
Qed.
