(* C12_Spec.v — C12 as a predicate over what the scripted hook and the harness observe. *)
From Verif Require Import Common C12_Model.
Open Scope N_scope.

Record observation := mkOb {
  ob_started : bool;
  (* facts about the OS process (observed on the implementation only; PARTIAL) *)
  ob_cwd_is_hook_dir : bool; ob_env_ok : bool; ob_context_matches : bool;
  ob_files_empty : bool; ob_paths_distinct : bool; ob_tmp_during : N;
  (* logic *)
  ob_status : N;             (* 0 success, 1 fail, 2 none *)
  ob_tmp_after : N;
  ob_metric_applied : bool; ob_patch_applied : bool;
  ob_bad : bool
}.

Definition all_parse (i : input) : bool :=
  parses (i_metrics i) && parses (i_patch i) && parses (i_admission i) && parses (i_conversion i).

(* the part of the property that is logic: outcome and clean-up *)
Definition P_logic (i : input) (o : observation) : bool :=
  negb (ob_bad o)
  && (if ob_started o
      then Bool.eqb (N.eqb (ob_status o) 0) (Z.eqb (i_exit i) 0 && all_parse i)   (* success iff exit 0 and all outputs parse *)
           && (if negb (Z.eqb (i_exit i) 0) then negb (ob_metric_applied o) && negb (ob_patch_applied o) else true)
           && (if N.eqb (ob_status o) 0
               then Bool.eqb (ob_metric_applied o) (has_content (i_metrics i))
                    && Bool.eqb (ob_patch_applied o) (has_content (i_patch i))
               else true)
      else negb (N.eqb (ob_status o) 0))                                            (* not even started: not a success *)
  && N.eqb (ob_tmp_after o) 0.                                                       (* temp files gone, whatever the outcome *)

(* the part that is about the OS process: own directory, environment, file contents, unique names *)
Definition P_os (i : input) (o : observation) : bool :=
  if ob_started o
  then ob_cwd_is_hook_dir o && ob_env_ok o && ob_context_matches o && ob_files_empty o && ob_paths_distinct o
  else true.

Definition P (i : input) (o : observation) : bool := P_logic i o && P_os i o.

