(* C12_Spec.v — C12 as a predicate over what the scripted hook and the harness observe.

   "after a zero exit the output files are parsed and applied and a malformed output fails the
   execution": WELL-FORMED is defined here from the text side, not by running the model of the Go
   decoder.  A metrics file is well-formed iff it is empty or a whitespace-separated sequence of
   JSON documents (RFC 8259, JsonText.parse_stream) each acceptable to the documented schema
   (docs/src/metrics/METRICS_FROM_HOOKS.md); an admission / conversion response file iff it is
   empty or exactly ONE JSON document (JsonText.parse_single) acceptable to its schema.  The
   verdict is three-valued: where the documentation does not say whether a document is
   acceptable - a key that differs from a documented one only in letter case, a documented key
   given twice, `null` for a documented key or inside its array/map, `null` as the document, a
   shortcut (`add`/`set`) next to `action`/`value`, an explicitly empty name/group/action, the
   opaque `patch` of an admission response - the verdict is [None] and P demands nothing of the
   outcome (the model-vs-code comparison still covers those texts).  The patch file is YAML and
   stays one of the four kinds. *)
From Verif Require Import Common Json JsonText C12_Model.
Open Scope N_scope.

Record observation := mkOb {
  ob_started : bool;
  (* facts about the OS process (observed on the implementation only; PARTIAL) *)
  ob_cwd_is_hook_dir : bool; ob_env_ok : bool; ob_context_matches : bool;
  ob_files_empty : bool; ob_paths_distinct : bool; ob_tmp_during : N;
  (* logic *)
  ob_status : N;             (* 0 success, 1 fail, 2 none *)
  ob_tmp_after : N;
  ob_metric_applied : bool; ob_patch_applied : bool;
  ob_bad : bool;
  (* per execution (one, or two when concurrent): what the hook process finds under the contract
     variables and under the other variables of the operator's environment *)
  ob_envs : list (list (N * option eval));
  ob_foreign_touched : bool  (* a file named by the operator's own environment was created or changed (not part of P) *)
}.

(* ---------------------------------------------------------------- verdicts *)
Definition verdict := option bool.     (* Some true well-formed, Some false malformed, None not decided by the text *)
Definition vand (a b : verdict) : verdict :=
  match a, b with
  | Some false, _ => Some false
  | _, Some false => Some false
  | Some true, Some true => Some true
  | _, _ => None
  end.
Definition vall (l : list verdict) : verdict := fold_right vand (Some true) l.

Definition is_null (j : json) : bool := match j with JNull => true | _ => false end.
Definition is_num (j : json) : bool := match j with JFlt _ | JNum _ => true | _ => false end.
Definition is_str (j : json) : bool := match j with JStr _ => true | _ => false end.
Definition is_boolean (j : json) : bool := match j with JBool _ => true | _ => false end.

(* every element is of the kind: well-typed; one is neither of the kind nor null: ill-typed *)
Definition elems_verdict (ok : json -> bool) (l : list json) : verdict :=
  if forallb ok l then Some true
  else if forallb (fun e => ok e || is_null e) l then None
  else Some false.

(* the JSON shape documented for a field ([ftype] is used as the vocabulary of shapes) *)
Definition has_type (t : ftype) (v : json) : verdict :=
  match v with
  | JNull => None
  | _ =>
    match t with
    | TStr => Some (is_str v)
    | TBool => Some (is_boolean v)
    | TNumPtr => Some (is_num v)
    | TNums => match v with JArr l => elems_verdict is_num l | _ => Some false end
    | TStrs => match v with JArr l => elems_verdict is_str l | _ => Some false end
    | TStrMap => match v with JObj kv => elems_verdict is_str (map snd kv) | _ => Some false end
    | TRaws => match v with JArr _ => Some true | _ => Some false end
    | TBytes => match v with JStr _ | JArr _ => None | _ => Some false end
    end
  end.

(* documented members (name, shape), from the documentation's examples and text *)
Definition metric_doc : schema :=
  [(k_name, TStr); (k_add, TNumPtr); (k_set, TNumPtr); (k_value, TNumPtr); (k_buckets, TNums);
   (k_labels, TStrMap); (k_group, TStr); (k_action, TStr)].
Definition admission_doc : schema :=
  [(k_allowed, TBool); (k_message, TStr); (k_warnings, TStrs); (k_patch, TBytes)].
Definition conversion_doc : schema := [(k_failedMessage, TStr); (k_convertedObjects, TRaws)].

Definition count_key (n : bytes) (m : list (bytes * json)) : nat :=
  length (filter (fun kv => bytes_eqb (fst kv) n) m).
(* every key that equals a documented name up to letter case IS that name, and no documented name twice *)
Definition clean_doc (sch : schema) (m : list (bytes * json)) : bool :=
  forallb (fun kv => forallb (fun f => implb (bytes_eqb (fold_key (fst f)) (fold_key (fst kv)))
                                             (bytes_eqb (fst f) (fst kv))) sch) m
  && forallb (fun f => Nat.leb (count_key (fst f) m) 1) sch.
Definition typed_verdict (sch : schema) (m : list (bytes * json)) : verdict :=
  vall (map (fun f => match assoc (fst f) m with None => Some true | Some v => has_type (snd f) v end) sch).

Definition has_key (n : bytes) (m : list (bytes * json)) : bool :=
  match assoc n m with Some _ => true | None => false end.
Definition str_key (n : bytes) (m : list (bytes * json)) : option bytes :=
  match assoc n m with Some (JStr s) => Some s | _ => None end.
Definition empty_key (n : bytes) (m : list (bytes * json)) : bool :=
  match str_key n m with Some [] => true | _ => false end.

(* the action an operation asks for: "action", or the shortcut that stands for it *)
Definition doc_action (m : list (bytes * json)) : option bytes :=
  match str_key k_action m with
  | Some a => Some a
  | None => if has_key k_add m then Some k_add else if has_key k_set m then Some k_set else None
  end.

(* the documented operations: add/set/observe need a name and a value, observe needs buckets and
   is unsupported for grouped metrics, expire needs a group (and nothing else) *)
Definition metric_rules (m : list (bytes * json)) : verdict :=
  if empty_key k_name m || empty_key k_group m || empty_key k_action m then None
  else if (has_key k_add m || has_key k_set m)
          && (has_key k_action m || has_key k_value m || (has_key k_add m && has_key k_set m)) then None
  else
    match doc_action m with
    | None => Some false
    | Some a =>
      let is x := bytes_eqb a x in
      Some ((if has_key k_group m then is k_add || is k_set || is s_expire
             else is k_add || is k_set || is s_observe)
            && (has_key k_name m || (has_key k_group m && is s_expire))
            && implb (is k_add || is k_set || is s_observe)
                     (has_key k_value m || has_key k_add m || has_key k_set m)
            && implb (is s_observe) (has_key k_buckets m))
    end.
Definition no_rules (m : list (bytes * json)) : verdict := Some true.

Definition doc_verdict (sch : schema) (rules : list (bytes * json) -> verdict) (d : json) : verdict :=
  match d with
  | JObj m => if clean_doc sch m
              then match typed_verdict sch m with Some true => rules m | v => v end
              else None
  | JNull => None
  | _ => Some false
  end.

Definition kind_verdict (k : fkind) : verdict :=
  match k with FEmpty | FValid => Some true | FTruncated | FWrongType => Some false | FText _ => None end.

Definition v_metrics (k : fkind) : verdict :=
  match k with
  | FText s => match parse_stream s with
               | None => Some false                 (* not a sequence of JSON documents *)
               | Some docs => vall (map (doc_verdict metric_doc metric_rules) docs)
               end
  | _ => kind_verdict k
  end.
Definition single_verdict (sch : schema) (s : bytes) : verdict :=
  match s with
  | [] => Some true
  | _ => match parse_single s with
         | None => Some false                       (* not exactly one JSON document *)
         | Some d => doc_verdict sch no_rules d
         end
  end.
Definition v_admission (k : fkind) : verdict :=
  match k with FText s => single_verdict admission_doc s | _ => kind_verdict k end.
Definition v_conversion (k : fkind) : verdict :=
  match k with FText s => single_verdict conversion_doc s | _ => kind_verdict k end.
Definition v_patch (k : fkind) : verdict := kind_verdict k.     (* a text in the patch position: not decided (YAML) *)

Definition all_wf (i : input) : verdict :=
  vall [v_metrics (i_metrics i); v_patch (i_patch i); v_admission (i_admission i); v_conversion (i_conversion i)].

(* ---------------------------------------------------------------- "applied", as far as the harness can see it *)
(* the document carries the probe metric's name somewhere *)
Definition mentions (d : json) : bool :=
  match d with
  | JObj m => existsb (fun kv => json_eqb (snd kv) (JStr probe_name)) m
  | _ => false
  end.
(* an ungrouped add/set of the probe metric with label names prometheus takes *)
Definition plain_probe (d : json) : bool :=
  match d with
  | JObj m =>
      match str_key k_name m, doc_action m with
      | Some n, Some a =>
          bytes_eqb n probe_name && negb (has_key k_group m)
          && (bytes_eqb a k_set || bytes_eqb a k_add)
          && match assoc k_labels m with
             | Some (JObj kv) => forallb (fun e => plain_label (fst e)) kv
             | Some _ => false
             | None => true
             end
      | _, _ => false
      end
  | _ => false
  end.
(* Some true: the probe family must exist after a successful run; Some false: it must not; None: not decided *)
Definition expect_metric (k : fkind) : option bool :=
  match k with
  | FValid => Some true
  | FText s =>
      match parse_stream s with
      | None => Some false
      | Some docs =>
          if negb (existsb mentions docs) then Some false
          else match v_metrics k with
               | Some true => if forallb (fun d => negb (mentions d) || plain_probe d) docs then Some true else None
               | _ => None
               end
      end
  | _ => Some false
  end.
Definition expect_patch (k : fkind) : bool := match k with FValid => true | _ => false end.

(* ---------------------------------------------------------------- the predicate *)
(* the part of the property that is logic: outcome and clean-up *)
Definition P_logic (i : input) (o : observation) : bool :=
  negb (ob_bad o)
  && (if ob_started o
      then (match all_wf i with
            | Some b => Bool.eqb (N.eqb (ob_status o) 0) (Z.eqb (i_exit i) 0 && b)   (* success iff exit 0 and all outputs well-formed *)
            | None => if Z.eqb (i_exit i) 0 then true else negb (N.eqb (ob_status o) 0)
            end)
           && (if negb (Z.eqb (i_exit i) 0) then negb (ob_metric_applied o) && negb (ob_patch_applied o) else true)
           && (if N.eqb (ob_status o) 0
               then (match expect_metric (i_metrics i) with
                     | Some b => Bool.eqb (ob_metric_applied o) b
                     | None => true
                     end)
                    && Bool.eqb (ob_patch_applied o) (expect_patch (i_patch i))
               else true)
      else negb (N.eqb (ob_status o) 0))                                            (* not even started: not a success *)
  && N.eqb (ob_tmp_after o) 0.                                                       (* temp files gone, whatever the outcome *)

(* "environment variables pointing to a binding-context file ... and to empty metrics, patch,
   admission-response and conversion-response files": the variable of each of the five files, as
   the hook process finds it, is the path of THIS execution's file of that kind - whatever the
   operator's own environment holds.  (The text names no other variable: nothing is demanded of
   VALIDATING_RESPONSE_PATH or of variables inherited from the operator.) *)
Definition contract : list (N * N) :=
  [(var_context, file_context); (var_metrics, file_metrics); (var_patch, file_patch);
   (var_admission, file_admission); (var_conversion, file_conversion)].
Fixpoint seen (e : list (N * option eval)) (k : N) : option eval :=
  match e with
  | [] => None
  | (k', v) :: r => if k' =? k then v else seen r k
  end.
Definition points_to_own (e : list (N * option eval)) : bool :=
  forallb (fun kf => match seen e (fst kf) with Some (Own f) => f =? snd kf | _ => false end) contract.
Definition P_env (o : observation) : bool := forallb points_to_own (ob_envs o).

(* the part that is about the OS process: own directory, environment, file contents, unique names *)
Definition P_os (i : input) (o : observation) : bool :=
  if ob_started o
  then ob_cwd_is_hook_dir o && ob_env_ok o && ob_context_matches o && ob_files_empty o && ob_paths_distinct o
       && negb (match ob_envs o with [] => true | _ => false end) && P_env o
  else true.

Definition P (i : input) (o : observation) : bool := P_logic i o && P_os i o.
