(* C19_Properties.v — the property theorems of C19 and nothing else.

   PARTIAL: bash 5.2 and jq 1.6 interpret the framework and are not modelled; the
   theorems are about the table of handler names and the loop of hook::run as modelled
   in C19_Model.v (names are byte strings of any content: the repaired hook.sh, a686454, quotes every
   expansion - see the section on the characters of binding names at the end).

   Full statement (every array of contexts the operator can produce, every set of
   defined handlers, every pattern of handler results):

     Definition C19_full_statement := forall i, in_domain i = true -> P i (run_i i) = true.

   It is FALSE of the faithful model (and of hook.sh): hook::_get_possible_handler_names
   tests the binding NAME against "onStartup" before it looks at the type, so a schedule /
   kubernetes / ... binding that the user named "onStartup" is dispatched to __on_startup
   instead of its documented handlers (C19_reserved_name_refuted).  Everything is proved
   for inputs outside that trigger T (recorded finding F20 in known_findings.json).

   "whose handler fails" is read in the strict mode the property text names: the theorems
   of the second half are about handlers given by their BODIES (sequences of commands:
   plain, pipelines, tested positions, return/exit, unset variables, subshells, called
   functions, command substitutions) - C19_body_strict_mode ties bash's way of running a
   body (the model's interpreter) to the Spec's reading of strict mode, the other three
   carry the dispatch theorems over to such handlers.

   "`hook::run --config` prints the configuration" is read as a statement about the BYTES on
   stdout (last part of this file): for every byte string that __config__ writes, that byte
   string is the stdout of the run (C19_config_printed_verbatim), the extended predicate PC
   (P + "printed verbatim" + "a failing __config__ is a failing run") holds of the model
   (C19_config_meets_spec_partial, C19_config_mode_meets_spec) and accepts nothing else
   (C19_spec_demands_verbatim, C19_spec_demands_failure). *)
From Coq Require Import String.
From Verif Require Import Common C19_Model C19_Spec C19_Proofs C19_WModel C19_WSpec C19_WProofs.

Definition C19_full_statement : Prop := forall i, in_domain i = true -> P i (run_i i) = true.

Theorem C19_dispatch_meets_spec_partial : forall i,
  in_domain i = true -> T i = false -> P i (run_i i) = true.
Proof. exact meets_spec_partial. Qed.
Print Assumptions C19_dispatch_meets_spec_partial.

Theorem C19_reserved_name_refuted : exists i, in_domain i = true /\ T i = true /\ P i (run_i i) = false.
Proof. exact reserved_name_refuted. Qed.
Print Assumptions C19_reserved_name_refuted.

(* [ok cs]: every context is one the operator can produce and none is a typed context
   under the reserved binding name.  The k-th invocation is for the k-th context, with
   that context selected as current (index and binding), and its handler is the first
   defined one among the documented names of that context (every more specific
   documented name is undefined). *)
Theorem C19_exactly_one_first_defined : forall defined results cs,
  ok cs ->
  let tr := fst (dispatch defined results cs) in
  (length tr <= length cs)%nat /\
  forall k e, nth_error tr k = Some e ->
    exists c h, nth_error cs k = Some c /\
      e = (h, N.of_nat k, cur_binding c) /\
      (exists pre post, doc_candidates c = pre ++ h :: post /\ In h defined /\
                        forall x, In x pre -> ~ In x defined).
Proof. exact exactly_one_first_defined. Qed.
Print Assumptions C19_exactly_one_first_defined.

(* If contexts 0..k-1 are served successfully and context k has no defined candidate,
   the run fails after exactly k invocations; if its handler fails, the run fails with
   the handler's status after exactly k+1 invocations, the last being that handler. *)
Theorem C19_stops_at_first_failure : forall defined results cs k c,
  ok cs ->
  nth_error cs k = Some c ->
  (forall j c', (j < k)%nat -> nth_error cs j = Some c' -> served defined results j c') ->
  let tr := fst (dispatch defined results cs) in
  let st := snd (dispatch defined results cs) in
  ((forall x, In x (doc_candidates c) -> ~ In x defined) -> st <> 0%N /\ length tr = k) /\
  (forall h, chosen defined c = Some h -> results h (N.of_nat k) <> 0%N ->
             st <> 0%N /\ st = results h (N.of_nat k) /\ length tr = S k /\
             nth_error tr k = Some (h, N.of_nat k, cur_binding c)).
Proof. exact stops_at_first_failure. Qed.
Print Assumptions C19_stops_at_first_failure.

Theorem C19_succeeds_otherwise : forall defined results cs,
  ok cs ->
  (forall k c, nth_error cs k = Some c -> served defined results k c) ->
  snd (dispatch defined results cs) = 0%N /\
  length (fst (dispatch defined results cs)) = length cs.
Proof. exact succeeds_otherwise. Qed.
Print Assumptions C19_succeeds_otherwise.

(* --config: no handler other than __config__ ever runs, whatever contexts are present;
   if __config__ is defined it runs once, its text is printed, and the exit status is
   its status (0 when it succeeds). *)
Theorem C19_config_mode : forall args defined results cs,
  is_config args = true ->
  let o := run args defined results cs in
  (forall e, In e (o_trace o) -> e = config_entry) /\
  (In config_name defined ->
     o_trace o = [config_entry] /\ o_printed o = true /\ o_status o = results config_name 0%N).
Proof. exact config_mode. Qed.
Print Assumptions C19_config_mode.

(* non-vacuity: a three-context array (kubernetes Added under binding "pods", a group,
   onStartup) is [ok]; with only the least specific kubernetes handler, the group handler
   and __main__ defined, contexts 0 and 1 are served, so the hypotheses of
   C19_stops_at_first_failure (k = 2) and, with all results 0, of C19_succeeds_otherwise
   are met; the dispatch calls exactly these three handlers. *)
Definition ex_ctxs : list ctx :=
  [ mkCtx (Some (B "pods")) (Some (B "Event")) (Some (B "Added")) None None None;
    mkCtx (Some (B "pods")) (Some (B "Group")) None (Some (B "g1")) None None;
    mkCtx (Some (B "onStartup")) None None None None None ].
Definition ex_defined : list name := [B "__on_kubernetes::pods"; B "__on_group::g1"; B "__main__"; B "__on_schedule::pods"].

Example C19_hyp_met :
  ok ex_ctxs /\
  (forall k c, nth_error ex_ctxs k = Some c -> served ex_defined (fun _ _ => 0%N) k c) /\
  dispatch ex_defined (fun _ _ => 0%N) ex_ctxs =
    ([(B "__on_kubernetes::pods", 0%N, B "pods"); (B "__on_group::g1", 1%N, B "pods"); (B "__main__", 2%N, B "onStartup")], 0%N) /\
  in_domain (mkInput [] ex_defined (fun _ _ => 0%N) ex_ctxs) = true /\
  T (mkInput [] ex_defined (fun _ _ => 0%N) ex_ctxs) = false /\
  is_config [B "--config"; B "x"] = true.
Proof.
  split; [split; vm_compute; reflexivity|]. split.
  - intros k c Hn. destruct k as [|[|[|k]]]; simpl in Hn; try (destruct k; discriminate);
      inversion Hn; subst c; eexists; split; vm_compute; reflexivity.
  - repeat split; vm_compute; reflexivity.
Qed.

(* ---------- handlers given by their bodies, strict mode ---------- *)

(* The model's interpreter of a handler body agrees with the Spec's strict mode: the
   function's status is that of the first command that ends it (a failing command in an
   ordinary position, a failing pipeline, an unset variable, return, exit) or, if none
   does, of its last command; and the commands that start are exactly those up to and
   including that command - nothing after it. *)
Theorem C19_body_strict_mode : forall b,
  snd (exec_body b) = strict_status b /\
  top (fst (exec_body b)) = positions 0%N (length (upto_end b)) /\
  (forall pre cm post, b = pre ++ cm :: post -> (forall x, In x pre -> ends x = false) -> ends cm = true ->
     strict_status b = leaves cm /\ upto_end b = pre ++ [cm]) /\
  ((forall x, In x b -> ends x = false) -> strict_status b = last (map leaves b) 0%N /\ upto_end b = b).
Proof. exact body_strict_mode. Qed.
Print Assumptions C19_body_strict_mode.

(* hook::run over handlers given by their bodies shows exactly what the loop over their
   strict-mode statuses shows (so every theorem above speaks about it), with one list
   of command marks per invocation. *)
Theorem C19_bodies_refine_statuses : forall args defined bodies cs,
  ob_obs (runB args defined bodies cs) = run args defined (results_of_bodies bodies) cs /\
  length (ob_steps (runB args defined bodies cs)) = length (o_trace (ob_obs (runB args defined bodies cs))).
Proof. exact runB_run. Qed.
Print Assumptions C19_bodies_refine_statuses.

Theorem C19_strict_dispatch_meets_spec_partial : forall i,
  in_domain (to_input i) = true -> T (to_input i) = false -> PB i (ob_obs (runB_i i)) = true.
Proof. exact strict_meets_spec_partial. Qed.
Print Assumptions C19_strict_dispatch_meets_spec_partial.

(* Contexts 0..k-1 are served; in the body of the handler chosen for context k the
   commands [pre] do not end it and the next one, [cm], ends it with a non-zero status
   (e.g. Plain 1 in the middle of the body, or a pipeline with a failing component).
   Then, whatever [post] follows in the body and whatever contexts follow: the run's
   status is that status, exactly k+1 handlers were invoked, the last being that one,
   and of its body exactly the commands 0..|pre| started. *)
Theorem C19_stops_inside_handler : forall defined bodies cs k c h pre cm post,
  ok cs ->
  nth_error cs k = Some c ->
  (forall j c', (j < k)%nat -> nth_error cs j = Some c' -> served defined (results_of_bodies bodies) j c') ->
  chosen defined c = Some h ->
  bodies h (N.of_nat k) = pre ++ cm :: post ->
  (forall x, In x pre -> ends x = false) -> ends cm = true -> leaves cm <> 0%N ->
  let X := dispatchB defined bodies cs in
  snd X = leaves cm /\ snd X <> 0%N /\ length (fst (fst X)) = S k /\ length (snd (fst X)) = S k /\
  nth_error (fst (fst X)) k = Some (h, N.of_nat k, cur_binding c) /\
  exists ss, nth_error (snd (fst X)) k = Some ss /\ top ss = positions 0%N (S (length pre)).
Proof. exact stops_inside_handler. Qed.
Print Assumptions C19_stops_inside_handler.

(* non-vacuity: over [ex_ctxs], the kubernetes handler succeeds for context 0 although a
   tested command fails in it; the group handler, chosen for context 1, has a pipeline
   with a failing component in the MIDDLE of its body, followed by succeeding commands:
   the hypotheses of C19_stops_inside_handler hold (k = 1, pre = [Plain 0; OrTrue 1],
   cm = Pipe [0; 3; 0], post = [Plain 0; Return 0]); the run stops with status 3 after
   two invocations and the third context is never dispatched. *)
Definition ex_bodies : name -> N -> body := fun h _ =>
  if bytes_eqb h (B "__on_group::g1")
  then [Plain 0; OrTrue 1; Pipe [0%N; 3%N; 0%N]; Plain 0; Return 0]
  else [IfCond 2; Plain 0].

Example C19_inside_hyp_met :
  (forall j c', (j < 1)%nat -> nth_error ex_ctxs j = Some c' -> served ex_defined (results_of_bodies ex_bodies) j c') /\
  chosen ex_defined (mkCtx (Some (B "pods")) (Some (B "Group")) None (Some (B "g1")) None None) = Some (B "__on_group::g1") /\
  ex_bodies (B "__on_group::g1") 1%N = [Plain 0; OrTrue 1] ++ Pipe [0%N; 3%N; 0%N] :: [Plain 0; Return 0] /\
  (forall x, In x [Plain 0; OrTrue 1] -> ends x = false) /\
  ends (Pipe [0%N; 3%N; 0%N]) = true /\ leaves (Pipe [0%N; 3%N; 0%N]) = 3%N /\
  dispatchB ex_defined ex_bodies ex_ctxs =
    ([(B "__on_kubernetes::pods", 0%N, B "pods"); (B "__on_group::g1", 1%N, B "pods")],
     [[(0, 0); (1, 0)]; [(0, 0); (1, 0); (2, 0)]]%N, 3%N) /\
  in_domain (to_input (mkInputB [] ex_defined ex_bodies ex_ctxs)) = true /\
  T (to_input (mkInputB [] ex_defined ex_bodies ex_ctxs)) = false.
Proof.
  split.
  { intros j c' Hj Hn. destruct j as [|j]; [|lia]. simpl in Hn. inversion Hn; subst c'.
    eexists; split; vm_compute; reflexivity. }
  split; [vm_compute; reflexivity|]. split; [vm_compute; reflexivity|]. split.
  { intros x [<-|[<-|[]]]; reflexivity. }
  repeat split; vm_compute; reflexivity.
Qed.

(* ---------- `hook::run --config` prints the configuration: the bytes on stdout ---------- *)

(* For EVERY byte string [text] that __config__ writes (a leading `---`, `%`, backslash
   sequences, quotes, NUL, no final newline or several, nothing at all, any length): the
   stdout of `hook::run --config` is that byte string; __config__ ran once, nothing else ran;
   the status of the run is the strict-mode status of __config__ - 0 exactly when it succeeds.
   Contexts, other handlers and further arguments have no influence. *)
Theorem C19_config_printed_verbatim : forall args defined bodies cs (text : bytes),
  is_config args = true -> In config_name defined ->
  let o := runC args defined bodies cs text in
  oc_stdout o = text /\
  o_trace (ob_obs (oc_run o)) = [config_entry] /\
  o_status (ob_obs (oc_run o)) = strict_status (bodies config_name 0%N).
Proof. exact config_verbatim. Qed.
Print Assumptions C19_config_printed_verbatim.

(* The whole predicate - dispatch clauses, strict mode, and "printed verbatim / the failure
   of __config__ is the failure of the run" - holds of the model for all inputs outside the
   trigger of F20, whatever the text; in --config mode without any hypothesis. *)
Theorem C19_config_meets_spec_partial : forall i,
  in_domain (to_input (ic_in i)) = true -> T (to_input (ic_in i)) = false -> PC i (runC_i i) = true.
Proof. exact config_meets_spec. Qed.
Print Assumptions C19_config_meets_spec_partial.

Theorem C19_config_mode_meets_spec : forall i,
  is_config (ib_args (ic_in i)) = true -> PC i (runC_i i) = true.
Proof. exact config_meets_spec_config. Qed.
Print Assumptions C19_config_mode_meets_spec.

(* The predicate is as strong as the sentence: for a succeeding __config__ it accepts an
   observation only if stdout is the text itself (and the status 0); for a failing one only
   a failing run. *)
Theorem C19_spec_demands_verbatim : forall i o,
  is_config (ib_args (ic_in i)) = true -> In config_name (ib_defined (ic_in i)) ->
  strict_status (ib_bodies (ic_in i) config_name 0%N) = 0%N ->
  PC i o = true ->
  oc_stdout o = ic_text i /\ o_status (ob_obs (oc_run o)) = 0%N.
Proof. exact spec_demands_verbatim. Qed.
Print Assumptions C19_spec_demands_verbatim.

Theorem C19_spec_demands_failure : forall i o,
  is_config (ib_args (ic_in i)) = true -> In config_name (ib_defined (ic_in i)) ->
  strict_status (ib_bodies (ic_in i) config_name 0%N) <> 0%N ->
  PC i o = true -> o_status (ob_obs (oc_run o)) <> 0%N.
Proof. exact spec_demands_failure. Qed.
Print Assumptions C19_spec_demands_failure.

(* non-vacuity: a configuration that begins with the YAML document marker, has a `%`, an
   escaped quote and a doubled backslash in a jqFilter and no final newline; __config__
   succeeds although a tested command fails in it.  The hypotheses of the theorems above hold;
   the model prints the text; the predicate rejects the same run with a newline appended,
   with the backslashes of the text interpreted, and with nothing printed (exit status 2). *)
Definition ex_text : bytes :=
  B "---" ++ [10%N] ++ B "jqFilter: " ++ [34%N] ++ B ".a % 2 | test(" ++ [92; 34]%N ++ B "^w" ++ [92; 92]%N ++ B "d+$" ++ [92; 34]%N ++ B ")" ++ [34%N].
Definition ex_cbodies : name -> N -> body := fun _ _ => [IfCond 2; Plain 0; Return 0].
Definition ex_cinput : inputC :=
  mkInputC (mkInputB [B "--config"] [B "__main__"; B "__config__"] ex_cbodies ex_ctxs) ex_text.
Definition ex_obs_with (st : N) (out : bytes) : obsC :=
  mkObsC (mkObsB (mkObs [config_entry] st true) [[(0, 0); (1, 0); (2, 0)]%N]) out.

Example C19_config_hyp_met :
  is_config (ib_args (ic_in ex_cinput)) = true /\
  In config_name (ib_defined (ic_in ex_cinput)) /\
  strict_status (ib_bodies (ic_in ex_cinput) config_name 0%N) = 0%N /\
  runC_i ex_cinput = ex_obs_with 0%N ex_text /\
  PC ex_cinput (ex_obs_with 0%N ex_text) = true /\
  PC ex_cinput (ex_obs_with 0%N (ex_text ++ [10%N])) = false /\
  PC ex_cinput (ex_obs_with 0%N (B "---" ++ [10%N] ++ B "jqFilter: " ++ [34%N] ++ B ".a % 2 | test(" ++ [34%N] ++ B "^w" ++ [92%N] ++ B "d+$" ++ [34%N] ++ B ")" ++ [34%N])) = false /\
  PC ex_cinput (ex_obs_with 2%N []) = false /\
  strict_status [Plain 0; Plain 3; Plain 0] <> 0%N.
Proof.
  split; [reflexivity|]. split; [right; left; reflexivity|].
  repeat split; try (vm_compute; reflexivity). vm_compute. discriminate.
Qed.

(* ====================================================================================
   The CHARACTERS of binding names (group names, versions).

   CURRENT CODE (after the repair a686454 of frameworks/shell/hook.sh): the candidate names are
   kept one per line, read with `mapfile -t`, and every expansion is quoted - a name is one word
   whatever blanks, tabs, glob characters, quotes, backslashes or $ it contains.  C19_Model is
   that code with names read as ARBITRARY byte strings (a newline would still separate two
   lines and a NUL does not pass a command substitution: such strings are outside the
   correspondence, C19_Corr.outside; the theorems need no hypothesis on the strings).

   PW = PC + the clause own_context (invocation k has BINDING_CONTEXT_CURRENT_INDEX = k, the
   binding name of context k and the handler chosen for context k, whatever the strings of the
   contexts before k are). *)

(* for all arrays of contexts with arbitrary strings, outside F20's trigger T only *)
Theorem C19_names_meet_spec_partial : forall i,
  in_domain (to_input (ic_in i)) = true -> T (to_input (ic_in i)) = false -> PW i (runC_i i) = true.
Proof. exact names_meet_spec. Qed.
Print Assumptions C19_names_meet_spec_partial.

(* Whatever the strings of the contexts 0..n-1 are (two arrays [pre1], [pre2] of the same
   length, arbitrary contexts, both served without a failure): the run over pre ++ rest is
   the run over pre followed by ONE AND THE SAME continuation - the dispatch of [rest]
   numbered from n - same handlers, same BINDING_CONTEXT_CURRENT_INDEX and binding, same
   commands started, same exit status.  No hypothesis on any string. *)
Theorem C19_dispatch_of_context_is_local : forall defined bodies pre1 pre2 rest,
  length pre1 = length pre2 ->
  passesB defined bodies 0%N pre1 -> passesB defined bodies 0%N pre2 ->
  exists tail,
    dispatchB defined bodies (pre1 ++ rest) = glue (dispatchB defined bodies pre1) tail /\
    dispatchB defined bodies (pre2 ++ rest) = glue (dispatchB defined bodies pre2) tail /\
    tail = dispatchB_from defined bodies (N.of_nat (length pre1)) rest.
Proof. exact dispatchB_local. Qed.
Print Assumptions C19_dispatch_of_context_is_local.

(* ... and that continuation begins with the first defined candidate of ITS first context
   alone, invoked with that context's number and binding name *)
Theorem C19_dispatch_head_is_own_context : forall defined bodies i c rest h,
  first_defined defined (candidates c) = Some h ->
  exists t s f, dispatchB_from defined bodies i (c :: rest) = ((h, i, cur_binding c) :: t, s, f).
Proof. exact dispatchB_head. Qed.
Print Assumptions C19_dispatch_head_is_own_context.

(* the clause own_context is a consequence of the property's predicate, not an addition to it *)
Theorem C19_own_context_from_P : forall i o, P i o = true -> own_context i o = true.
Proof. exact P_own. Qed.
Print Assumptions C19_own_context_from_P.

(* Non-vacuity: arrays whose FIRST contexts carry names with blanks, a tab, quotes, `$`, a
   backslash, a shell keyword, glob characters and an empty name, followed by a context with its
   own handler; the hypotheses of the three theorems are met, and the regression witnesses of the
   repaired defects ("Monitor pods in cache tier", "every minute" beside __on_schedule::every,
   "what?") are served by __main__ now. *)
Definition exw_pre1 : list ctx :=
  [ mkCtx (Some (B "Every 20  minutes")) (Some (B "Schedule")) None None None None;
    mkCtx (Some (9%N :: B " say ""hi"" $HOME a\b ")) (Some (B "Event")) (Some (B "Modified")) None None None ].
Definition exw_pre2 : list ctx :=
  [ mkCtx (Some (B "Monitor pods in cache tier")) (Some (B "Event")) (Some (B "Added")) None None None;
    mkCtx (Some (B "what? [a] *")) (Some (B "Synchronization")) None None None None ].
Definition exw_rest : list ctx :=
  [ mkCtx (Some (B "pods")) (Some (B "Event")) (Some (B "Added")) None None None ].
Definition exw_defined : list name := [B "__on_kubernetes::pods::added"; B "__main__"; B "__on_schedule::Every"].
Definition exw_input (pre : list ctx) : inputC :=
  mkInputC (mkInputB [] exw_defined (fun _ _ => [Plain 0%N]) (pre ++ exw_rest)) [].

Example C19_names_hyp_met :
  (forall pre, pre = exw_pre1 \/ pre = exw_pre2 ->
     in_domain (to_input (ic_in (exw_input pre))) = true /\ T (to_input (ic_in (exw_input pre))) = false /\
     passesB exw_defined (fun _ _ => [Plain 0%N]) 0%N pre /\
     map (fun e => fst (fst e)) (o_trace (ob_obs (oc_run (runC_i (exw_input pre))))) =
       [B "__main__"; B "__main__"; B "__on_kubernetes::pods::added"] /\
     nth_error (o_trace (ob_obs (oc_run (runC_i (exw_input pre))))) 2 =
       Some (B "__on_kubernetes::pods::added", 2%N, B "pods")) /\
  length exw_pre1 = length exw_pre2 /\
  first_defined exw_defined (candidates (hd (mkCtx None None None None None None) exw_rest)) = Some (B "__on_kubernetes::pods::added").
Proof.
  split; [|split; vm_compute; reflexivity].
  intros pre [->| ->]; repeat split; vm_compute; reflexivity.
Qed.

(* ====================================================================================
   RECORD OF THE CODE BEFORE THE REPAIR a686454 (not the current code; nothing in C19_Corr
   refers to it).  C19_WModel is the old hook.sh with the word splitting and the pathname
   expansion (failglob) bash applied to every unquoted handler name; [amb] is what the shell
   itself knows under a word.  It violated the property in two ways, both repaired:
   (frag) a name with blanks fell apart into words and a word was a function of the hook or
          known to the shell: another binding's handler - or `in`, `true`, ... - ran instead
          of __main__;
   (glob) a word of a name was a glob pattern: failglob ended the run with status 1. *)
Theorem C19_words_meet_spec_partial_before_fix : forall amb i,
  in_domain (to_input (ic_in i)) = true -> T (to_input (ic_in i)) = false ->
  names_ok (to_input (ic_in i)) = true ->
  T_frag (to_input (ic_in i)) amb = false -> T_glob (to_input (ic_in i)) = false ->
  PW i (runCW_i amb i) = true.
Proof. exact words_meet_spec_partial. Qed.
Print Assumptions C19_words_meet_spec_partial_before_fix.

Theorem C19_words_fragment_refuted_before_fix :
  exists amb i, in_domain (to_input (ic_in i)) = true /\ T (to_input (ic_in i)) = false /\
    names_ok (to_input (ic_in i)) = true /\ T_glob (to_input (ic_in i)) = false /\
    T_frag (to_input (ic_in i)) amb = true /\ PW i (runCW_i amb i) = false.
Proof. exact fragment_refuted. Qed.
Print Assumptions C19_words_fragment_refuted_before_fix.

Theorem C19_words_keyword_refuted_before_fix :
  exists amb i, in_domain (to_input (ic_in i)) = true /\ T (to_input (ic_in i)) = false /\
    names_ok (to_input (ic_in i)) = true /\ T_glob (to_input (ic_in i)) = false /\
    T_frag (to_input (ic_in i)) amb = true /\ PW i (runCW_i amb i) = false.
Proof. exact keyword_refuted. Qed.
Print Assumptions C19_words_keyword_refuted_before_fix.

Theorem C19_words_glob_refuted_before_fix :
  exists amb i, in_domain (to_input (ic_in i)) = true /\ T (to_input (ic_in i)) = false /\
    names_ok (to_input (ic_in i)) = true /\ T_frag (to_input (ic_in i)) amb = false /\
    T_glob (to_input (ic_in i)) = true /\ PW i (runCW_i amb i) = false.
Proof. exact glob_refuted. Qed.
Print Assumptions C19_words_glob_refuted_before_fix.
