(* C06_Proofs.v — startup order theorems over the operator model. *)
From Verif Require Import Common Op_Model Op_Proofs.
From Coq Require Import Permutation Sorted.

(* ------------------------------------------------------------------ the stable sort *)

Definition ord_le (a b : hook * Z) : Prop := (snd a <= snd b)%Z.

Lemma insert_perm x l : Permutation (insert_by_order x l) (x :: l).
Proof.
  induction l as [|y r IH]; simpl; [reflexivity|].
  destruct (Z.leb (snd x) (snd y)); [reflexivity|].
  rewrite IH. apply perm_swap.
Qed.

Lemma sort_perm l : Permutation (sort_by_order l) l.
Proof.
  induction l as [|x l IH]; simpl; [reflexivity|].
  rewrite insert_perm. now constructor.
Qed.

Lemma insert_sorted x l : StronglySorted ord_le l -> StronglySorted ord_le (insert_by_order x l).
Proof.
  induction l as [|y r IH]; intros H; simpl.
  - constructor; constructor.
  - inversion H as [|? ? Hr Hy]; subst.
    destruct (Z.leb (snd x) (snd y)) eqn:E.
    + apply Z.leb_le in E. constructor; [exact H|].
      constructor; [exact E|]. rewrite Forall_forall in *. intros z Hz. specialize (Hy z Hz).
      unfold ord_le in *. lia.
    + apply Z.leb_gt in E. constructor; [apply IH, Hr|].
      rewrite Forall_forall in *. intros z Hz.
      apply (Permutation_in _ (insert_perm x r)) in Hz. destruct Hz as [<-|Hz].
      * unfold ord_le. lia.
      * apply Hy, Hz.
Qed.

Lemma sort_sorted l : StronglySorted ord_le (sort_by_order l).
Proof. induction l as [|x l IH]; simpl; [constructor | apply insert_sorted, IH]. Qed.

(* stability: among the hooks of one ORDER value the original (path) order is kept *)
Lemma insert_stable o x l :
  filter (fun y : hook * Z => Z.eqb (snd y) o) (insert_by_order x l)
  = filter (fun y => Z.eqb (snd y) o) (x :: l).
Proof.
  induction l as [|y r IH]; [reflexivity|]. cbn [insert_by_order].
  destruct (Z.leb (snd x) (snd y)) eqn:E; [reflexivity|]. apply Z.leb_gt in E.
  cbn [filter] in *. rewrite IH.
  destruct (Z.eqb (snd y) o) eqn:Ey; destruct (Z.eqb (snd x) o) eqn:Ex; try reflexivity.
  apply Z.eqb_eq in Ey, Ex. lia.
Qed.

Lemma sort_stable o l :
  filter (fun y : hook * Z => Z.eqb (snd y) o) (sort_by_order l) = filter (fun y => Z.eqb (snd y) o) l.
Proof.
  induction l as [|x l IH]; [reflexivity|]. simpl sort_by_order. rewrite insert_stable.
  cbn [filter]. now rewrite IH.
Qed.

Definition startup_pairs (cfg : config) : list (hook * Z) :=
  flat_map (fun h => match h_startup h with Some o => [(h, o)] | None => [] end) cfg.

(* onStartup hooks run in ascending ORDER and, among equal ORDER, in path order; each hook
   with an onStartup binding appears exactly once, no other hook appears *)
Theorem startup_order cfg :
  startup_hooks cfg = map fst (sort_by_order (startup_pairs cfg))
  /\ Permutation (sort_by_order (startup_pairs cfg)) (startup_pairs cfg)
  /\ StronglySorted ord_le (sort_by_order (startup_pairs cfg))
  /\ (forall o, filter (fun y => Z.eqb (snd y) o) (sort_by_order (startup_pairs cfg))
               = filter (fun y => Z.eqb (snd y) o) (startup_pairs cfg)).
Proof.
  repeat split; [apply sort_perm | apply sort_sorted | intros o; apply sort_stable].
Qed.

(* the main queue is bootstrapped with the onStartup tasks first, in that order, then, per
   hook in path order, EnableKubernetesBindings before EnableScheduleBindings *)
Theorem boot_main_shape cfg :
  boot_main cfg = map startup_task (startup_hooks cfg) ++ flat_map enable_tasks cfg
  /\ (forall h, enable_tasks h =
        (match h_kube h with [] => [] | _ => [mkTask EnableKube (h_id h) BKube [] false 0 [] false no_queue 0] end)
        ++ (match h_sched h with [] => [] | _ => [mkTask EnableSched (h_id h) BSchedule [] false 0 [] false no_queue 0] end)).
Proof. split; reflexivity. Qed.

(* ------------------------------------------------------------------ Synchronization skip rules *)

(* a Synchronization of a v0 hook or of a binding with executeHookOnSynchronization=false at
   the head of the queue is never executed: the worker treats it as done and unlocks *)
Theorem exempt_sync_not_executed fuel cfg qok t rest sh :
  t_type t = HookRun -> is_sync t = true ->
  (match find_hook cfg (t_hook t) with Some h => h_v0 h | None => false end) = true \/ t_execsync t = false ->
  advance_q (S fuel) cfg qok (t :: rest) sh
  = advance_q fuel cfg qok rest (mkSh (s_sched_on sh) (s_unlocked sh ++ t_mids t) (s_mon_started sh)).
Proof.
  intros Ty Sy H. rewrite advance_q_hookrun by exact Ty. cbv zeta.
  unfold should_run. rewrite Sy.
  destruct H as [H|H]; rewrite H; simpl; [reflexivity|]. now rewrite orb_true_r.
Qed.

(* a Synchronization head never absorbs a Synchronization with executeHookOnSynchronization=false *)
Theorem combine_skips_exempt_sync t rest :
  is_sync t = true ->
  Forall (fun x => is_sync x = true -> t_execsync x = true) (fst (take_block t rest)).
Proof.
  intros Sy. induction rest as [|x r IH]; [constructor|]. simpl.
  destruct (N.eqb (t_hook x) (t_hook t) && same_ttype (t_type x) (t_type t)
            && negb (is_sync t && is_sync x && negb (t_execsync x))) eqn:E; [|constructor].
  destruct (take_block t r) as [b rs]. simpl in *. constructor; [|exact IH].
  intros Sx. apply andb_true_iff in E as [_ E]. rewrite Sy, Sx in E. simpl in E.
  now apply negb_true_iff, negb_false_iff in E.
Qed.

(* an ungrouped Synchronization is never combined at all: each binding gets its own run *)
Theorem ungrouped_sync_not_combined t : is_sync t = true -> t_group t = 0%N -> should_combine t = false.
Proof. intros S G. unfold should_combine. now rewrite S, G. Qed.

(* Synchronization tasks are created, one per kubernetes binding in declared order, as head
   tasks of the main queue when the hook's EnableKubernetesBindings task is handled *)
Theorem enable_kube_creates_syncs fuel cfg qok t rest sh h :
  t_type t = EnableKube -> find_hook cfg (t_hook t) = Some h ->
  advance_q (S fuel) cfg qok (t :: rest) sh
  = advance_q fuel cfg qok (map (sync_task h) (h_kube h) ++ rest)
              (mkSh (s_sched_on sh) (s_unlocked sh) (s_mon_started sh ++ map kb_mon (h_kube h))).
Proof. intros Ty F. unfold advance_q at 1. rewrite Ty, F. reflexivity. Qed.

(* a hook's schedules are enabled only when its EnableScheduleBindings task is handled,
   which bootstrapMainQueue puts behind the hook's EnableKubernetesBindings task *)
Theorem enable_sched_step fuel cfg qok t rest sh :
  t_type t = EnableSched ->
  advance_q (S fuel) cfg qok (t :: rest) sh
  = advance_q fuel cfg qok rest (mkSh (s_sched_on sh ++ [t_hook t]) (s_unlocked sh) (s_mon_started sh)).
Proof. intros Ty. unfold advance_q at 1. rewrite Ty. reflexivity. Qed.

(* ------------------------------------------------------------------ onStartup before anything else *)

Definition is_st (t : task) : bool := match t_btype t with BOnStartup => true | _ => false end.

Definition st_like (t : task) : Prop :=
  t_type t = HookRun /\ t_btype t = BOnStartup /\ t_queue t = no_queue /\ t_allow t = false /\ t_mids t = [].

Lemma st_like_is_st t : st_like t -> is_st t = true.
Proof. intros (_ & B & _). unfold is_st. now rewrite B. Qed.

Lemma startup_task_st_like h : st_like (startup_task h).
Proof. repeat split. Qed.

Lemma incr_fail_st_like t : st_like t -> st_like (incr_fail t).
Proof. intros (A & B & C & D & E). repeat split; assumption. Qed.

Definition idle_empty (q : qstate) : Prop := q_items q = [] /\ q_running q = None /\ q_delay q = false.

Lemma sched_tasks_none cfg c : sched_tasks cfg [] c = [].
Proof. unfold sched_tasks. induction cfg as [|h cfg IH]; [reflexivity|]. simpl. exact IH. Qed.

Lemma kube_tasks_none cfg m o : kube_tasks cfg [] m o = [].
Proof. reflexivity. Qed.

Lemma sched_tasks_not_st cfg on c : Forall (fun t => is_st t = false) (sched_tasks cfg on c).
Proof.
  rewrite sched_tasks_exactly. apply Forall_forall. intros t Ht. apply in_map_iff in Ht as [hb [<- _]]. reflexivity.
Qed.

Lemma kube_tasks_not_st cfg unl m o : Forall (fun t => is_st t = false) (kube_tasks cfg unl m o).
Proof.
  rewrite kube_tasks_exactly. destruct (mem_N m unl); [|constructor].
  apply Forall_forall. intros t Ht. apply in_map_iff in Ht as [hb [<- _]]. reflexivity.
Qed.

(* the worker on an onStartup head: the hook is executed, alone (no queue is named "") *)
Lemma advance_q_startup fuel cfg qok t rest sh :
  st_like t -> qok no_queue = false ->
  advance_q (S fuel) cfg qok (t :: rest) sh = (t :: rest, Some false, sh).
Proof.
  intros (Ty & B & Q & _) Hq. rewrite advance_q_hookrun by exact Ty. cbv zeta.
  assert (S : is_sync t = false) by (unfold is_sync; now rewrite B).
  unfold should_run. rewrite S, Q, Hq. simpl. now rewrite andb_false_r.
Qed.

Lemma combine_not_st t rest :
  is_st t = false -> Forall (fun x => is_st x = false) rest ->
  is_st (fst (combine t rest)) = false /\ Forall (fun x => is_st x = false) (snd (combine t rest)).
Proof.
  intros Ht Hr. unfold combine. pose proof (take_block_split_c06 := I).
  assert (Hs : forall l, Forall (fun x => is_st x = false) l -> Forall (fun x => is_st x = false) (snd (take_block t l))).
  { induction l as [|x r IH]; intros H; [constructor|]. simpl.
    destruct (N.eqb (t_hook x) (t_hook t) && same_ttype (t_type x) (t_type t)
              && negb (is_sync t && is_sync x && negb (t_execsync x))); [|exact H].
    inversion H; subst. destruct (take_block t r) as [b rs]. simpl in *. now apply IH. }
  specialize (Hs rest Hr). destruct (take_block t rest) as [block rest']. simpl in *.
  destruct block; simpl; auto.
Qed.

(* the worker never creates an onStartup task *)
Lemma advance_q_not_st cfg qok : forall fuel items sh,
  Forall (fun x => is_st x = false) items ->
  Forall (fun x => is_st x = false) (fst (fst (advance_q fuel cfg qok items sh))).
Proof.
  induction fuel as [|fuel IH]; intros items sh H; [exact H|].
  destruct items as [|t rest]; [constructor|]. inversion H as [|? ? Ht Hr]; subst.
  destruct (t_type t) eqn:Ty.
  - rewrite advance_q_hookrun by exact Ty. cbv zeta.
    destruct (should_run _ t); [|apply IH, Hr].
    destruct (negb _ && should_combine t && qok (t_queue t)); [|exact H].
    destruct (combine_not_st t rest Ht Hr) as [C1 C2]. destruct (combine t rest) as [t' rest']. simpl in *.
    constructor; assumption.
  - unfold advance_q at 1. rewrite Ty. fold advance_q.
    destruct (find_hook cfg (t_hook t)) as [h|]; [|apply IH, Hr].
    apply IH. apply Forall_app. split; [|exact Hr].
    apply Forall_forall. intros x Hx. apply in_map_iff in Hx as [b [<- _]]. reflexivity.
  - unfold advance_q at 1. rewrite Ty. fold advance_q. apply IH, Hr.
Qed.

Lemma advance_all_idle cfg qok : forall Qs sh,
  Forall idle_empty Qs -> advance_all cfg qok Qs sh = (Qs, sh).
Proof.
  induction Qs as [|q r IH]; intros sh H; [reflexivity|]. inversion H as [|? ? [Hi [Hr Hd]] Hrest]; subst.
  simpl. unfold is_running. rewrite Hr, Hi. unfold fuel_for. simpl.
  rewrite (IH sh Hrest). f_equal. f_equal. rewrite (eta_q q) at 2. now rewrite Hi, Hr, Hd.
Qed.

Section StartupFirst.
Variable cfg : config.
(* no binding uses the (harness-chosen) number that stands for the empty queue name *)
Hypothesis Hnoq : has_queue (boot_queues cfg) no_queue = false.

Inductive J (s : state) : Prop :=
| mkJ (j_sts j_others : list task) (j_mr : option bool) (j_md : bool) (j_qs : list qstate)
      (j_queues : queues s = mkQ 0 (j_sts ++ j_others) j_mr j_md :: j_qs)
      (j_st : Forall st_like j_sts)
      (j_oth : Forall (fun t => is_st t = false) j_others)
      (j_names : names (queues s) = names (boot_queues cfg))
      (j_pending : j_sts <> [] ->
          sched_on s = [] /\ unlocked s = [] /\ mon_started s = [] /\ Forall idle_empty j_qs
          /\ (j_mr = None \/ j_mr = Some false) /\ (stopped s = false -> j_mr = Some false)).

Definition preboot (s : state) : Prop :=
  queues s = [] /\ sched_on s = [] /\ unlocked s = [] /\ mon_started s = [].

Lemma noq s : names (queues s) = names (boot_queues cfg) -> has_queue (queues s) no_queue = false.
Proof. intros H. rewrite (has_queue_names _ _ H). exact Hnoq. Qed.

(* the workers' round on a state of shape J *)
Lemma advance_J s sts others mr md Qs :
  queues s = mkQ 0 (sts ++ others) mr md :: Qs ->
  Forall st_like sts -> Forall (fun t => is_st t = false) others ->
  names (queues s) = names (boot_queues cfg) ->
  (sts <> [] -> sched_on s = [] /\ unlocked s = [] /\ mon_started s = [] /\ Forall idle_empty Qs
                /\ (mr = None \/ mr = Some false)) ->
  J (advance cfg s).
Proof.
  intros Hq Hst Hoth Hn Hp. unfold advance. destruct (stopped s) eqn:St.
  - (* stopped: nothing moves *)
    apply (mkJ s sts others mr md Qs); auto. intros Hne. destruct (Hp Hne) as (A & B & C & D & E).
    repeat split; auto. intros F; congruence.
  - rewrite Hq. cbn [advance_all]. unfold is_running at 1. cbn [q_running q_items q_name].
    pose proof (noq s Hn) as Hnq. rewrite Hq in Hnq.
    destruct sts as [|t sts'].
    + (* no onStartup task left: whatever the workers do, no onStartup task appears *)
      simpl app in *.
      destruct mr as [b|].
      * destruct (advance_all cfg _ Qs _) as [Qs' sh'] eqn:EA. cbn [fst snd].
        pose proof (advance_all_names cfg (has_queue (mkQ 0 others (Some b) md :: Qs)) Qs
                      (mkSh (sched_on s) (unlocked s) (mon_started s))) as NA. rewrite EA in NA. simpl in NA.
        apply (mkJ _ [] others (Some b) md Qs'); simpl; auto; [|intros F; congruence].
        rewrite <- Hn, Hq. simpl. now rewrite NA.
      * pose proof (advance_q_not_st cfg (has_queue (mkQ 0 others None md :: Qs)) (fuel_for cfg others) others
                      (mkSh (sched_on s) (unlocked s) (mon_started s)) Hoth) as NS.
        destruct (advance_q _ cfg _ others _) as [[items run] sh1]. simpl in NS.
        destruct (advance_all cfg _ Qs sh1) as [Qs' sh'] eqn:EA. cbn [fst snd].
        pose proof (advance_all_names cfg (has_queue (mkQ 0 others None md :: Qs)) Qs sh1) as NA.
        rewrite EA in NA. simpl in NA.
        apply (mkJ _ [] items run false Qs'); simpl; auto; [|intros F; congruence].
        rewrite <- Hn, Hq. simpl. now rewrite NA.
    + (* an onStartup task heads main: it is (or gets) executed, nothing else moves *)
      destruct (Hp ltac:(discriminate)) as (A & B & C & D & E).
      destruct E as [E|E]; subst mr.
      * unfold fuel_for. simpl app. rewrite advance_q_startup; [|now inversion Hst|exact Hnq].
        rewrite advance_all_idle by exact D. cbn [fst snd s_sched_on s_unlocked s_mon_started].
        apply (mkJ _ (t :: sts') others (Some false) false Qs); simpl; auto.
        -- rewrite <- Hn, Hq. reflexivity.
        -- intros _. rewrite A, B, C. repeat split; auto.
      * rewrite advance_all_idle by exact D. cbn [fst snd s_sched_on s_unlocked s_mon_started].
        apply (mkJ _ (t :: sts') others (Some false) md Qs); simpl; auto.
        -- rewrite <- Hn, Hq. reflexivity.
        -- intros _. rewrite A, B, C. repeat split; auto.
Qed.

Lemma append_task_head_main Qs items mr md t :
  ~ In 0%N (names Qs) ->
  append_task (mkQ 0 items mr md :: Qs) t
  = if N.eqb 0 (t_queue t) then mkQ 0 (items ++ [t]) mr md :: Qs else mkQ 0 items mr md :: append_task Qs t.
Proof. intros _. simpl. destruct (N.eqb 0 (t_queue t)); reflexivity. Qed.

Lemma append_tasks_main ts : forall Qs items mr md,
  Forall (fun t => is_st t = false) ts ->
  exists extra Qs', append_tasks (mkQ 0 items mr md :: Qs) ts = mkQ 0 (items ++ extra) mr md :: Qs'
                    /\ Forall (fun t => is_st t = false) extra.
Proof.
  unfold append_tasks. induction ts as [|t ts IH]; intros Qs items mr md H.
  - exists [], Qs. simpl. rewrite app_nil_r. split; [reflexivity | constructor].
  - inversion H as [|? ? Ht Hts]; subst. cbn [fold_left append_task q_name q_items q_running q_delay].
    destruct (N.eqb 0 (t_queue t)).
    + destruct (IH Qs (items ++ [t]) mr md Hts) as (extra & Qs' & E1 & E2).
      exists (t :: extra), Qs'. rewrite E1, <- app_assoc. split; [reflexivity | now constructor].
    + destruct (IH (append_task Qs t) items mr md Hts) as (extra & Qs' & E1 & E2).
      exists extra, Qs'. split; assumption.
Qed.

Lemma finish_J s q ok wait : J s ->
  J (advance cfg (let (qs, unl) := finish_in (queues s) q ok (stopped s) wait (unlocked s) in
                  mkSt qs (sched_on s) unl (mon_started s) (stopped s))).
Proof.
  intros [sts others mr md Qs Hq Hst Hoth Hn Hp].
  pose proof (finish_in_names (queues s) q ok (stopped s) wait (unlocked s)) as FN.
  destruct sts as [|t0 sts'].
  - (* no onStartup task: only the shape of main matters *)
    simpl app in *. rewrite Hq in *. cbn [finish_in] in *. cbn [q_name q_running q_items q_delay] in *.
    destruct (N.eqb 0 q).
    + destruct mr as [sy|].
      * destruct others as [|t rest].
        -- apply (advance_J _ [] [] (Some sy) md Qs); simpl; auto; try (intros F; congruence).
        -- inversion Hoth as [|? ? Ht Hr]; subst. destruct md.
           ++ apply (advance_J _ [] (t :: rest) (Some sy) true Qs); simpl; auto; try (intros F; congruence).
           ++ destruct (stopped s).
              ** apply (advance_J _ [] (t :: rest) None false Qs); simpl; auto; try (intros F; congruence).
              ** destruct (ok || t_allow t).
                 --- apply (advance_J _ [] rest None false Qs); simpl; auto; try (intros F; congruence).
                 --- destruct wait.
                     +++ apply (advance_J _ [] (incr_fail t :: rest) (Some false) true Qs); simpl; auto; try (intros F; congruence).
                     +++ apply (advance_J _ [] (incr_fail t :: rest) None false Qs); simpl; auto; try (intros F; congruence).
      * apply (advance_J _ [] others None md Qs); simpl; auto; try (intros F; congruence).
    + pose proof (finish_in_names Qs q ok (stopped s) wait (unlocked s)) as FN2.
      destruct (finish_in Qs q ok (stopped s) wait (unlocked s)) as [Qs' unl'] eqn:EF. simpl in FN2.
      apply (advance_J _ [] others mr md Qs'); simpl; auto; try (intros F; congruence).
      rewrite <- Hn. simpl. now rewrite FN2.
  - destruct (Hp ltac:(discriminate)) as (A & B & C & D & E & G).
    inversion Hst as [|? ? Ht0 Hsts]; subst.
    assert (Hidle : forall ok' stp w unl, finish_in Qs q ok' stp w unl = (Qs, unl)).
    { clear -D. induction Qs as [|x r IH]; intros; [reflexivity|]. inversion D as [|? ? [Hi [Hr Hd]] Hrest]; subst.
      simpl. destruct (N.eqb (q_name x) q); [now rewrite Hr|]. now rewrite (IH Hrest). }
    rewrite Hq in *. cbn [finish_in] in *. cbn [q_name q_running q_items q_delay] in *.
    destruct (N.eqb 0 q).
    + destruct E as [E|E]; subst mr.
      * apply (advance_J _ (t0 :: sts') others None md Qs); simpl; auto.
        intros _. rewrite ?andb_false_r, ?A, ?B, ?C. repeat split; auto.
      * simpl app. destruct md.
        -- apply (advance_J _ (t0 :: sts') others (Some false) true Qs); simpl; auto.
           intros _. rewrite ?andb_false_r, ?A, ?B, ?C. repeat split; auto.
        -- destruct Ht0 as (T1 & T2 & T3 & T4 & T5). rewrite T4, T5, orb_false_r, ?app_nil_r.
           assert (Hst0 : st_like t0) by (repeat split; auto).
           destruct (stopped s) eqn:Ss.
           ++ apply (advance_J _ (t0 :: sts') others None false Qs); simpl; auto.
              intros _. rewrite ?andb_false_r, ?A, ?B, ?C. repeat split; auto; destruct ok; reflexivity.
           ++ destruct ok.
              ** simpl. apply (advance_J _ sts' others None false Qs); simpl; auto.
                 intros _. rewrite ?andb_false_r, ?A, ?B, ?C. repeat split; auto.
              ** simpl. destruct wait.
                 --- apply (advance_J _ (incr_fail t0 :: sts') others (Some false) true Qs); simpl; auto;
                       try (constructor; [apply incr_fail_st_like; exact Hst0 | exact Hsts]);
                       try (intros _; rewrite ?andb_false_r, ?A, ?B, ?C; repeat split; auto).
                 --- apply (advance_J _ (incr_fail t0 :: sts') others None false Qs); simpl; auto;
                       try (constructor; [apply incr_fail_st_like; exact Hst0 | exact Hsts]);
                       try (intros _; rewrite ?andb_false_r, ?A, ?B, ?C; repeat split; auto).
    + rewrite Hidle. apply (advance_J _ (t0 :: sts') others mr md Qs); simpl; auto;
        try (intros _; rewrite ?andb_false_r, ?A, ?B, ?C; repeat split; auto).
Qed.

Lemma elapse_in_idle Qs q : Forall idle_empty Qs -> elapse_in Qs q = Qs.
Proof.
  induction Qs as [|x r IH]; intros D; [reflexivity|]. inversion D as [|? ? [Hi [Hr Hd]] Hrest]; subst.
  simpl. rewrite Hd. destruct (N.eqb (q_name x) q); [reflexivity|]. now rewrite IH.
Qed.

Lemma step_J s a : J s -> J (step cfg s a).
Proof.
  intros HJ. unfold step. destruct a; try (apply finish_J; exact HJ).
  all: destruct HJ as [sts others mr md Qs Hq Hst Hoth Hn Hp].
  - (* Boot on a booted operator *)
    rewrite Hq. apply (advance_J _ sts others mr md Qs); auto.
    intros Hne. destruct (Hp Hne) as (A & B & C & D & E & _). auto.
  - (* Tick *)
    destruct sts as [|t0 sts'].
    + simpl app in *.
      destruct (append_tasks_main (sched_tasks cfg (sched_on s) c) Qs others mr md (sched_tasks_not_st _ _ _))
        as (extra & Qs' & E1 & E2).
      apply (advance_J _ [] (others ++ extra) mr md Qs'); simpl; auto.
      * rewrite Hq. exact E1.
      * apply Forall_app; auto.
      * now rewrite append_tasks_names.
      * intros F; congruence.
    + destruct (Hp ltac:(discriminate)) as (A & B & C & D & E & _).
      rewrite A, sched_tasks_none. unfold append_tasks. cbn [fold_left].
      apply (advance_J _ (t0 :: sts') others mr md Qs); simpl; auto.
  - (* KubeEv *)
    destruct sts as [|t0 sts'].
    + simpl app in *.
      destruct (append_tasks_main (kube_tasks cfg (unlocked s) mon obj) Qs others mr md (kube_tasks_not_st _ _ _ _))
        as (extra & Qs' & E1 & E2).
      apply (advance_J _ [] (others ++ extra) mr md Qs'); simpl; auto.
      * rewrite Hq. exact E1.
      * apply Forall_app; auto.
      * now rewrite append_tasks_names.
      * intros F; congruence.
    + destruct (Hp ltac:(discriminate)) as (A & B & C & D & E & _).
      rewrite B. unfold kube_tasks, append_tasks. cbn [mem_N existsb fold_left].
      apply (advance_J _ (t0 :: sts') others mr md Qs); simpl; auto.
  - (* Stop *)
    apply (advance_J _ sts others mr md Qs); simpl; auto;
      try (intros Hne; destruct (Hp Hne) as (A & B & C & D & E & _); auto).
  - (* Elapse *)
    cbn [queues sched_on unlocked mon_started stopped]. rewrite Hq. cbn [elapse_in q_name q_delay q_items].
    destruct (N.eqb 0 q).
    + destruct md.
      * apply (advance_J _ sts others None false Qs); simpl; auto.
        -- rewrite <- Hn, Hq. reflexivity.
        -- intros Hne. destruct (Hp Hne) as (A & B & C & D & E & _). repeat split; auto.
      * apply (advance_J _ sts others mr false Qs); simpl; auto.
        -- rewrite <- Hn, Hq. reflexivity.
        -- intros Hne. destruct (Hp Hne) as (A & B & C & D & E & _). auto.
    + destruct sts as [|t0 sts'].
      * apply (advance_J _ [] others mr md (elapse_in Qs q)); simpl; auto; try (intros F; congruence).
        rewrite <- Hn, Hq. simpl. now rewrite elapse_in_names.
      * destruct (Hp ltac:(discriminate)) as (A & B & C & D & E & _).
        rewrite (elapse_in_idle Qs q D).
        apply (advance_J _ (t0 :: sts') others mr md Qs); simpl; auto.
        rewrite <- Hn, Hq. reflexivity.
Qed.

Lemma boot_queues_head : exists Qs, boot_queues cfg = mkQ 0 (boot_main cfg) None false :: Qs.
Proof.
  unfold boot_queues.
  assert (G : forall l qs x, exists Qs, fold_left add_queue l (x :: qs) = x :: Qs).
  { induction l as [|n l IH]; intros qs x; [now exists qs|]. simpl. unfold add_queue at 2.
    destruct (has_queue (x :: qs) n); [apply IH|]. simpl. apply IH. }
  destruct (G (flat_map (fun h => map sb_queue (h_sched h)) cfg) [] (mkQ 0 (boot_main cfg) None false)) as [Q1 E1].
  rewrite E1. apply G.
Qed.

Lemma step_preboot s a : preboot s -> preboot (step cfg s a) \/ J (step cfg s a).
Proof.
  intros (Q & A & B & C). unfold step. destruct a.
  - right. rewrite Q. destruct boot_queues_head as [Qs E].
    apply (advance_J _ (map startup_task (startup_hooks cfg)) (flat_map enable_tasks cfg) None false Qs); simpl; auto.
    + apply Forall_forall. intros t Ht. apply in_map_iff in Ht as [h [<- _]]. apply startup_task_st_like.
    + apply Forall_forall. intros t Ht. apply in_flat_map in Ht as [h [_ Ht]]. unfold enable_tasks in Ht.
      apply in_app_or in Ht as [Ht|Ht]; destruct (h_kube h), (h_sched h); simpl in Ht;
        repeat (destruct Ht as [<-|Ht]; [reflexivity|]); try contradiction.
    + intros _. rewrite A, B, C. repeat split; auto.
      (* the other queues are created empty *)
      clear -E. unfold boot_queues in E.
      assert (G : forall l qs, Forall idle_empty (tl qs) -> qs <> [] -> Forall idle_empty (tl (fold_left add_queue l qs))).
      { induction l as [|n l IH]; intros qs H Hne; [exact H|]. simpl. apply IH.
        - unfold add_queue. destruct (has_queue qs n); [exact H|]. destruct qs as [|x qs]; [contradiction|].
          simpl in *. apply Forall_app. split; [exact H|]. constructor; [repeat split; reflexivity | constructor].
        - unfold add_queue. destruct (has_queue qs n); [exact Hne|]. destruct qs; discriminate. }
      pose proof (G (flat_map (fun h => map kb_queue (h_kube h)) cfg)
                    (fold_left add_queue (flat_map (fun h => map sb_queue (h_sched h)) cfg) [mkQ 0 (boot_main cfg) None false])) as G2.
      rewrite E in G2. simpl in G2. apply G2.
      * apply G; [constructor | discriminate].
      * clear. generalize (flat_map (fun h => map sb_queue (h_sched h)) cfg).
        assert (K : forall l qs, qs <> [] -> fold_left add_queue l qs <> []).
        { induction l as [|n l IH]; intros qs H; [exact H|]. simpl. apply IH. unfold add_queue.
          destruct (has_queue qs n); [exact H|]. destruct qs; discriminate. }
        intros l. apply K. discriminate.
  - left. rewrite A, sched_tasks_none, Q. unfold append_tasks. simpl.
    unfold advance. simpl. destruct (stopped s); repeat split; auto.
  - left. rewrite B, Q. unfold append_tasks. simpl.
    unfold advance. simpl. destruct (stopped s); repeat split; auto.
  - left. rewrite Q. simpl. unfold advance. simpl. destruct (stopped s); repeat split; auto.
  - left. unfold advance. simpl. repeat split; auto.
  - left. rewrite Q. simpl. unfold advance. simpl. destruct (stopped s); repeat split; auto.
  - left. rewrite Q. simpl. unfold advance. simpl. destruct (stopped s); repeat split; auto.
Qed.

Theorem startup_first_inv acts : let s := exec cfg acts init in preboot s \/ J s.
Proof.
  assert (G : forall acts s, preboot s \/ J s -> preboot (exec cfg acts s) \/ J (exec cfg acts s)).
  { unfold exec. induction acts0 as [|a acts0 IH]; intros s H; [exact H|]. simpl. apply IH.
    destruct H as [H|H]; [now apply step_preboot | right; now apply step_J]. }
  apply G. left. repeat split.
Qed.

(* While an onStartup task is still queued, its hook is the only thing executed: no
   schedule is enabled, no monitor created or unlocked, every other queue is empty and
   idle, and the head of the main queue is an onStartup task. *)
Theorem startup_first acts M Qs :
  let s := exec cfg acts init in
  queues s = M :: Qs -> existsb is_st (q_items M) = true ->
  sched_on s = [] /\ unlocked s = [] /\ mon_started s = [] /\ Forall idle_empty Qs
  /\ exists t rest, q_items M = t :: rest /\ is_st t = true.
Proof.
  intros s Hq Hex. destruct (startup_first_inv acts) as [(Q & _)|[sts others mr md Qs' Hq' Hst Hoth Hn Hp]].
  - fold s in Q. rewrite Q in Hq. discriminate.
  - fold s in Hq', Hp. rewrite Hq in Hq'. inversion Hq'; subst M Qs'. simpl in Hex.
    destruct sts as [|t sts'].
    + simpl in Hex. exfalso. apply existsb_exists in Hex as [x [Hx Ex]].
      rewrite Forall_forall in Hoth. rewrite (Hoth x Hx) in Ex. discriminate.
    + destruct (Hp ltac:(discriminate)) as (A & B & C & D & _). repeat split; auto.
      exists t, (sts' ++ others). split; [reflexivity|]. apply st_like_is_st. now inversion Hst.
Qed.

End StartupFirst.
