(* C09_Model.v — executable model of the binding-context rendering of /repo:

     pkg/kube_events_manager/filter.go         applyFilter      (what is stored as filter result)
     pkg/kube_events_manager/types/types.go    ObjectAndFilterResult.Map / MarshalJSON / RemoveFullObject
     pkg/hook/binding_context/binding_context.go  MapV1, MapV0, Map, ConvertBindingContextList, Json

   and (second half of the file) of the path on which the operator itself builds the contexts:

     pkg/kube_events_manager/resource_informer.go  loadExistedObjects, handleWatchEvent, shouldFireEvent,
                                                   getCachedObjects
     pkg/kube_events_manager/monitor.go            Snapshot (sorted by ByNamespaceAndName, types.go)
     pkg/hook/controller/kubernetes_bindings_controller.go  ConvertKubeEventToBindingContext, SnapshotsFor
     pkg/hook/controller/hook_controller.go        UpdateSnapshots
     pkg/hook/hook.go                              Run: UpdateSnapshots -> ConvertBindingContextList -> Json

   and (last part) of the value the jq program is run on:

     pkg/filter/jq/apply.go                        ApplyFilter: deepCopy, gojq run on the copy, merge

   The model follows the code AFTER the repair of F3 (Map() accepts the decoded, non-string
   filter result that applyFilter stores) and keeps everything else as it is, including
   the merge of F8 (applyFilter/jq.ApplyFilter keep only object-valued jq outputs, merged
   into one map) and MapV0's dereference of the first object's full object.
   No proofs in this file. *)
From Coq Require String Ascii.
From Verif Require Import Common Json.

(* ---- byte-string literals (only used to write the fixed JSON keys / type names) ---- *)
Definition bs (s : String.string) : bytes := map Ascii.N_of_ascii (String.list_ascii_of_string s).

Module Lit.
Import String.
Local Open Scope string_scope.
Definition k_binding : bytes := Eval compute in bs "binding".
Definition k_type : bytes := Eval compute in bs "type".
Definition k_watchEvent : bytes := Eval compute in bs "watchEvent".
Definition k_object : bytes := Eval compute in bs "object".
Definition k_objects : bytes := Eval compute in bs "objects".
Definition k_filterResult : bytes := Eval compute in bs "filterResult".
Definition k_snapshots : bytes := Eval compute in bs "snapshots".
Definition k_groupName : bytes := Eval compute in bs "groupName".
Definition k_review : bytes := Eval compute in bs "review".
Definition k_fromVersion : bytes := Eval compute in bs "fromVersion".
Definition k_toVersion : bytes := Eval compute in bs "toVersion".
Definition k_resourceEvent : bytes := Eval compute in bs "resourceEvent".
Definition k_resourceNamespace : bytes := Eval compute in bs "resourceNamespace".
Definition k_resourceKind : bytes := Eval compute in bs "resourceKind".
Definition k_resourceName : bytes := Eval compute in bs "resourceName".
Definition k_metadata : bytes := Eval compute in bs "metadata".
Definition k_namespace : bytes := Eval compute in bs "namespace".
Definition k_name : bytes := Eval compute in bs "name".
Definition k_kind : bytes := Eval compute in bs "kind".

Definition s_Validating : bytes := Eval compute in bs "Validating".
Definition s_Mutating : bytes := Eval compute in bs "Mutating".
Definition s_Conversion : bytes := Eval compute in bs "Conversion".
Definition s_Group : bytes := Eval compute in bs "Group".
Definition s_Schedule : bytes := Eval compute in bs "Schedule".
Definition s_Synchronization : bytes := Eval compute in bs "Synchronization".
Definition s_Event : bytes := Eval compute in bs "Event".
Definition s_Added : bytes := Eval compute in bs "Added".
Definition s_Modified : bytes := Eval compute in bs "Modified".
Definition s_Deleted : bytes := Eval compute in bs "Deleted".
Definition s_add : bytes := Eval compute in bs "add".
Definition s_update : bytes := Eval compute in bs "update".
Definition s_delete : bytes := Eval compute in bs "delete".

End Lit.
Export Lit.

(* ---- the Go data ---- *)

Inductive version := V0 | V1 | VOther.          (* Metadata.Version: "v0", "v1", anything else *)

(* Metadata.BindingType; BOther = any type outside shell-operator's six (addon-operator) *)
Inductive btype := BOnStartup | BSchedule | BKube | BValidating | BMutating | BConversion | BOther.

Inductive ktype := KEmpty | KSync | KEvent.     (* bc.Type: "", "Synchronization", "Event" *)
Inductive wevent := WNone | WAdded | WModified | WDeleted.   (* bc.WatchEvent *)

(* ObjectAndFilterResult.FilterResult (an interface{}):
   nil | a Go string (with what a JSON parser says about it: None = not one JSON value)
   | any other decoded value (applyFilter stores a map[string]any here).
   [FRVal] is never used with a JSON string — a Go string is [FRStr]. *)
Inductive fres := FRNil | FRStr (text : bytes) (parsed : option json) | FRVal (v : json).

Record ofr := mkOfr {
  o_jq : bool;                 (* Metadata.JqFilter <> "" *)
  o_remove : bool;             (* Metadata.RemoveObject *)
  o_object : option json;      (* Object (pointer to Unstructured), None = nil pointer *)
  o_fres : fres }.

(* An element of Objects / Snapshots: either produced by the informer path
   (applyFilter on [obj] with the binding's jqFilter — [jqf] = None when there is no
   jqFilter, Some outs = the output stream of jq on obj — then RemoveFullObject when
   keepFullObjectsInMemory=false), or a hand-built struct. *)
Inductive item :=
| Stored (jqf : option (list json)) (keep : bool) (obj : json)
| Raw (o : ofr).

Record ctx := mkCtx {
  c_btype : btype;
  c_jq : bool;                           (* Metadata.JqFilter <> "" *)
  c_incl : list bytes;                   (* Metadata.IncludeSnapshots *)
  c_incl_all : bool;                     (* Metadata.IncludeAllSnapshots *)
  c_group : bytes;                       (* Metadata.Group, [] = none *)
  c_binding : bytes;
  c_type : ktype;
  c_wev : wevent;
  c_objects : list item;
  c_snapshots : list (bytes * list item);(* the Snapshots map *)
  c_areview : option json;               (* AdmissionReview pointer, as JSON *)
  c_creview : option json;               (* ConversionReview pointer, as JSON *)
  c_from : bytes;
  c_to : bytes }.

Definition is_some {A} (o : option A) : bool := match o with Some _ => true | None => false end.
Definition is_nil {A} (l : list A) : bool := match l with [] => true | _ => false end.

(* ---- pkg/filter/jq ApplyFilter + filter.go applyFilter ---- *)

(* maps.Copy(result, m) *)
Definition copy (m acc : list (bytes * json)) : list (bytes * json) :=
  fold_left (fun a kv => obj_set (fst kv) (snd kv) a) m acc.

(* the loop over iter.Next(): only map-valued outputs are merged, everything else is dropped *)
Definition glue (outs : list json) : list (bytes * json) :=
  fold_left (fun acc v => match v with JObj m => copy m acc | _ => acc end) outs [].

(* applyFilter (FilterFunc = nil) followed by resourceInformer's RemoveFullObject *)
Definition apply_filter (jqf : option (list json)) (keep : bool) (obj : json) : ofr :=
  mkOfr (is_some jqf) (negb keep) (if keep then Some obj else None)
        (match jqf with None => FRNil | Some outs => FRVal (JObj (glue outs)) end).

Definition ofr_of_item (i : item) : ofr :=
  match i with Stored jqf keep obj => apply_filter jqf keep obj | Raw o => o end.

(* ---- types.go: ObjectAndFilterResult.Map (after the F3 repair) ---- *)

Definition map_ofr (o : ofr) : list (bytes * json) :=
  let m := if o_remove o then []
           else obj_set k_object (match o_object o with Some j => j | None => JNull end) [] in
  match o_jq o, o_fres o with
  | false, FRNil => m
  | true, FRStr text parsed =>
      obj_set k_filterResult
        (match text, parsed with
         | [], _ => JNull              (* filterResString == "" *)
         | _, Some v => v              (* json.Unmarshal ok *)
         | _, None => JNull            (* "Possible bug!!! Cannot unmarshal jq filter result" *)
         end) m
  | true, FRNil => obj_set k_filterResult JNull m
  | true, FRVal v => obj_set k_filterResult v m     (* F3 repair; before it: JNull *)
  | false, FRStr text _ => obj_set k_filterResult (JStr text) m
  | false, FRVal v => obj_set k_filterResult v m
  end.

Definition render_item (i : item) : json := JObj (map_ofr (ofr_of_item i)).

(* json.Marshal of map[string][]ObjectAndFilterResult: keys sorted *)
Definition snapshots_json (l : list (bytes * list item)) : json :=
  JObj (fold_left (fun acc p => obj_set (fst p) (JArr (map render_item (snd p))) acc) l []).

Definition includes (c : ctx) : bool := negb (is_nil (c_incl c)) || c_incl_all c.

Definition opt_json (o : option json) : json := match o with Some j => j | None => JNull end.

Definition wev_str (w : wevent) : bytes :=
  match w with WNone => [] | WAdded => s_Added | WModified => s_Modified | WDeleted => s_Deleted end.

(* ---- binding_context.go: MapV1 ---- *)

Definition map_v1 (c : ctx) : list (bytes * json) :=
  let res := obj_set k_binding (JStr (c_binding c)) [] in
  match c_btype c with
  | BOnStartup => res
  | bt =>
    let res := if includes c then obj_set k_snapshots (snapshots_json (c_snapshots c)) res else res in
    match bt with
    | BValidating => obj_set k_review (opt_json (c_areview c)) (obj_set k_type (JStr s_Validating) res)
    | BMutating => obj_set k_review (opt_json (c_areview c)) (obj_set k_type (JStr s_Mutating) res)
    | BConversion =>
        obj_set k_review (opt_json (c_creview c))
          (obj_set k_toVersion (JStr (c_to c))
             (obj_set k_fromVersion (JStr (c_from c)) (obj_set k_type (JStr s_Conversion) res)))
    | _ =>
      if negb (is_nil (c_group c)) then
        obj_set k_groupName (JStr (c_group c)) (obj_set k_type (JStr s_Group) res)
      else
        match bt with
        | BSchedule => obj_set k_type (JStr s_Schedule) res
        | BKube =>
            match c_type c with
            | KEmpty => res
            | kt =>
              let res := obj_set k_type (JStr (match kt with KSync => s_Synchronization | _ => s_Event end)) res in
              let res := match c_wev c with
                         | WNone => res
                         | w => obj_set k_watchEvent (JStr (wev_str w)) res
                         end in
              match kt with
              | KSync => obj_set k_objects (JArr (map render_item (c_objects c))) res
              | _ =>
                match c_objects c with
                | [] => let res := obj_set k_object JNull res in
                        if c_jq c then obj_set k_filterResult (JStr []) res else res
                | i :: _ => copy (map_ofr (ofr_of_item i)) res
                end
              end
            end
        | _ => res          (* "A short way for addon-operator's hooks" *)
        end
    end
  end.

(* ---- binding_context.go: MapV0 ---- *)

(* unstructured NestedString: "" when absent or not a string *)
Definition jstr_at (path : list bytes) (j : json) : bytes :=
  match fold_left (fun o k => match o with Some x => jget k x | None => None end) path (Some j) with
  | Some (JStr s) => s
  | _ => []
  end.

(* None = the nil-pointer panic of bc.Objects[0].Object.GetNamespace() *)
Definition map_v0 (c : ctx) : option (list (bytes * json)) :=
  let res := obj_set k_binding (JStr (c_binding c)) [] in
  match c_btype c with
  | BKube =>
      let ev := match c_wev c with WNone => [] | WAdded => s_add | WModified => s_update | WDeleted => s_delete end in
      let res := obj_set k_resourceEvent (JStr ev) res in
      match c_objects c with
      | [] => Some res
      | i :: _ =>
          match o_object (ofr_of_item i) with
          | None => None
          | Some obj =>
              Some (obj_set k_resourceName (JStr (jstr_at [k_metadata; k_name] obj))
                     (obj_set k_resourceKind (JStr (jstr_at [k_kind] obj))
                        (obj_set k_resourceNamespace (JStr (jstr_at [k_metadata; k_namespace] obj)) res)))
          end
      end
  | _ => Some res
  end.

(* Map(): dispatch on the version; unknown version: empty map (and an error log) *)
Definition render (v : version) (c : ctx) : option json :=
  match v with
  | V1 => Some (JObj (map_v1 c))
  | V0 => match map_v0 c with Some m => Some (JObj m) | None => None end
  | VOther => Some (JObj [])
  end.

(* ConvertBindingContextList(version, contexts).Json(), parsed: None = panic *)
Fixpoint render_all (v : version) (cs : list ctx) : option (list json) :=
  match cs with
  | [] => Some []
  | c :: r => match render v c, render_all v r with
              | Some j, Some js => Some (j :: js)
              | _, _ => None
              end
  end.

Definition render_list (v : version) (cs : list ctx) : option json :=
  match render_all v cs with Some js => Some (JArr js) | None => None end.

(* ====================================================================================
   The informer path: from the objects of the cluster and the watch events to the files.

   One kubernetes binding = one monitor = (in this model) one resourceInformer.  The jq
   oracle's answer travels with every object ([w_outs]); jq errors are not modelled (C08).
   md5 collisions are not modelled: "checksums are equal" = "the checksummed values are
   equal" (json.Marshal sorts the keys of maps).
   ==================================================================================== *)

(* Go maps keyed by strings; the order of the list is immaterial (readers sort) *)
Definition aget {A} (k : bytes) (m : list (bytes * A)) : option A :=
  match find (fun p => bytes_eqb k (fst p)) m with Some p => Some (snd p) | None => None end.
Definition adel {A} (k : bytes) (m : list (bytes * A)) : list (bytes * A) :=
  filter (fun p => negb (bytes_eqb k (fst p))) m.
Definition aset {A} (k : bytes) (v : A) (m : list (bytes * A)) : list (bytes * A) := (k, v) :: adel k m.

(* a kubernetes object as the informer sees it *)
Record wobj := mkWobj {
  w_ns : bytes;                (* obj.GetNamespace() *)
  w_name : bytes;              (* obj.GetName() *)
  w_id : bytes;                (* resourceId(obj) = "namespace/kind/name" *)
  w_obj : json;
  w_outs : list json }.        (* the output stream of jq JQFILTER on w_obj (meaningless without a jqFilter) *)

(* the binding and its monitor: OnKubernetesEventConfig + MonitorConfig *)
Record binding := mkBinding {
  b_name : bytes;              (* BindingName *)
  b_jq : bool;                 (* Monitor.JqFilter <> "" *)
  b_keep : bool;               (* Monitor.KeepFullObjectsInMemory *)
  b_types : list wevent;       (* Monitor.EventTypes *)
  b_incl : list bytes;         (* IncludeSnapshotsFrom (after the merge with the group's bindings) *)
  b_group : bytes;             (* Group *)
  b_sync : bool }.             (* ExecuteHookOnSynchronization *)

(* ObjectAndFilterResult with the metadata the informer and the sorter use *)
Record entry := mkEntry {
  en_ns : bytes;
  en_name : bytes;
  en_id : bytes;               (* Metadata.ResourceId *)
  en_sum : json;               (* the value whose serialisation is checksummed: Metadata.Checksum *)
  en_ofr : ofr }.

(* filter.go applyFilter (FilterFunc = nil, no jq error): Object is always set here *)
Definition apply_filter_go (jq : bool) (w : wobj) : entry :=
  if jq then
    let filtered := JObj (glue (w_outs w)) in
    mkEntry (w_ns w) (w_name w) (w_id w) filtered (mkOfr true false (Some (w_obj w)) (FRVal filtered))
  else
    mkEntry (w_ns w) (w_name w) (w_id w) (w_obj w) (mkOfr false false (Some (w_obj w)) FRNil).

(* types.go RemoveFullObject *)
Definition remove_full_object (e : entry) : entry :=
  mkEntry (en_ns e) (en_name e) (en_id e) (en_sum e)
          (mkOfr (o_jq (en_ofr e)) true None (o_fres (en_ofr e))).

Definition cache := list (bytes * entry).      (* cachedObjects: ResourceId -> *ObjectAndFilterResult *)

(* resource_informer.go loadExistedObjects: the initial list *)
Definition load_existing (b : binding) (objs : list wobj) (c : cache) : cache :=
  fold_left (fun c w =>
               let e := apply_filter_go (b_jq b) w in
               let e := if b_keep b then e else remove_full_object e in     (* if !KeepFullObjectsInMemory *)
               aset (en_id e) e c) objs c.

Definition wev_eqb (a b : wevent) : bool :=
  match a, b with
  | WNone, WNone | WAdded, WAdded | WModified, WModified | WDeleted, WDeleted => true
  | _, _ => false
  end.

(* shouldFireEvent *)
Definition should_fire (b : binding) (t : wevent) : bool := existsb (wev_eqb t) (b_types b).

(* KubeEvent; Objects with their ResourceId *)
Record kube_event := mkKev { ke_type : ktype; ke_wevs : list wevent; ke_objs : list (bytes * ofr) }.

(* resource_informer.go handleWatchEvent (events enabled, informer not stopped):
     objFilterRes := applyFilter(...)
     if !KeepFullObjectsInMemory { objFilterRes.RemoveFullObject() }
     Added/Modified: skipEvent := in cache with an equal checksum; cache[id] = objFilterRes; if skipEvent return
     Deleted:        delete(cache, id)
     if shouldFireEvent(eventType) { KubeEvent{Event, [eventType], [*objFilterRes]} } *)
Definition handle (b : binding) (c : cache) (t : wevent) (w : wobj) : cache * option kube_event :=
  let e := apply_filter_go (b_jq b) w in
  let e := if b_keep b then e else remove_full_object e in
  let fire := if should_fire b t then Some (mkKev KEvent [t] [(en_id e, en_ofr e)]) else None in
  match t with
  | WAdded | WModified =>
      let skip := match aget (en_id e) c with
                  | Some old => json_eqb (en_sum old) (en_sum e)
                  | None => false
                  end in
      (aset (en_id e) e c, if skip then None else fire)
  | WDeleted => (adel (en_id e) c, fire)
  | WNone => (c, None)
  end.

(* types.go ByNamespaceAndName.Less *)
Definition entry_less (p q : entry) : bool :=
  match o_object (en_ofr p), o_object (en_ofr q) with
  | Some _, Some _ =>
      if bytes_ltb (en_ns p) (en_ns q) then true
      else if bytes_ltb (en_ns q) (en_ns p) then false
      else bytes_ltb (en_name p) (en_name q)
  | _, _ => bytes_ltb (en_id p) (en_id q)
  end.

Fixpoint insert_by {A} (lt : A -> A -> bool) (x : A) (l : list A) : list A :=
  match l with
  | [] => [x]
  | y :: r => if lt x y then x :: y :: r else y :: insert_by lt x r
  end.
Definition sort_by {A} (lt : A -> A -> bool) (l : list A) : list A := fold_right (insert_by lt) [] l.

(* monitor.Snapshot(): getCachedObjects of the informer, sorted *)
Definition snapshot (c : cache) : list entry := sort_by entry_less (map snd c).

(* kubernetes_bindings_controller.go ConvertKubeEventToBindingContext *)
Definition convert_kube_event (b : binding) (ev : kube_event) : list ctx :=
  let mk kt wev := mkCtx BKube (b_jq b) (b_incl b) false (b_group b) (b_name b) kt wev
                         (map (fun p => Raw (snd p)) (ke_objs ev)) [] None None [] [] in
  match ke_type ev with
  | KSync => [mk KSync WNone]
  | KEvent => map (mk KEvent) (ke_wevs ev)
  | KEmpty => []
  end.

(* SnapshotsFor: nil for a name that is not a kubernetes binding of the hook *)
Definition snapshots_for (b : binding) (c : cache) (name : bytes) : option (list entry) :=
  if bytes_eqb name (b_name b) then Some (snapshot c) else None.

Definition snapshot_items (b : binding) (c : cache) (name : bytes) : list item :=
  match snapshots_for b c name with
  | Some es => map (fun e => Raw (en_ofr e)) es
  | None => []
  end.
Definition snapshot_ids (b : binding) (c : cache) (name : bytes) : list bytes :=
  match snapshots_for b c name with
  | Some es => map en_id es
  | None => []
  end.

(* getIncludeSnapshotsFrom(OnKubernetesEvent, bindingName) *)
Definition include_from (b : binding) (name : bytes) : list bytes :=
  if bytes_eqb name (b_name b) then b_incl b else [].

(* hook_controller.go UpdateSnapshots, one context: a fresh `snapshots` map with one key per
   included name, and fresh `objects` for a Synchronization *)
Definition update_snapshots (b : binding) (c : cache) (x : ctx) : ctx :=
  mkCtx (c_btype x) (c_jq x) (c_incl x) (c_incl_all x) (c_group x) (c_binding x) (c_type x) (c_wev x)
        (match c_btype x, c_type x with
         | BKube, KSync => snapshot_items b c (c_binding x)
         | _, _ => c_objects x
         end)
        (map (fun n => (n, snapshot_items b c n)) (include_from b (c_binding x)))
        (c_areview x) (c_creview x) (c_from x) (c_to x).

(* one file and what the driver records next to it: the step, the ResourceIds behind the
   first context's Objects and Snapshots (names in the order of the rendered JSON object) *)
Record fobs := mkFobs {
  fo_step : N;
  fo_ids : list bytes;
  fo_snaps : list (bytes * list bytes);
  fo_out : option json }.

(* sorted, duplicate-free: the keys of the `snapshots` JSON object *)
Definition canon_names (l : list bytes) : list bytes :=
  map fst (fold_left (fun acc n => obj_set n JNull acc) l []).

(* hook.go Run on the contexts of one BindingExecutionInfo *)
Definition file_of (v : version) (b : binding) (c : cache) (step : N) (ev : kube_event) : fobs :=
  let fresh := map (update_snapshots b c) (convert_kube_event b ev) in
  mkFobs step
         (match ke_type ev with KSync => snapshot_ids b c (b_name b) | _ => map fst (ke_objs ev) end)
         (map (fun n => (n, snapshot_ids b c n)) (canon_names (include_from b (b_name b))))
         (render_list v fresh).

Record flow := mkFlow {
  f_version : version;
  f_bind : binding;
  f_initial : list wobj;                 (* the cluster when the monitor is created *)
  f_ops : list (wevent * wobj) }.        (* the watch events afterwards, in delivery order *)

Fixpoint run_ops (v : version) (b : binding) (c : cache) (step : N) (ops : list (wevent * wobj)) : list fobs :=
  match ops with
  | [] => []
  | (t, w) :: r =>
      let (c', ev) := handle b c t w in
      (match ev with Some ev => [file_of v b c' step ev] | None => [] end)
        ++ run_ops v b c' (N.succ step) r
  end.

(* EnableKubernetesBindings: the monitor is created over the existing objects and a
   Synchronization execution is planned (run when ExecuteHookOnSynchronization); then the
   events are unlocked and every fired KubeEvent becomes one execution.  The hook runs
   (and reads the snapshots) before the next watch event arrives.  The shared informer's
   replay of the existing objects through handleWatchEvent (Added with an unchanged
   checksum: no event, the cache entry is replaced by an equal one) is left out: the driver
   renders the Synchronization file on both sides of that replay and reports a second file
   when the two differ. *)
Definition run_flow (f : flow) : list fobs :=
  let b := f_bind f in
  let c0 := load_existing b (f_initial f) [] in
  (if b_sync b then [file_of (f_version f) b c0 0 (mkKev KSync [] [])] else [])
    ++ run_ops (f_version f) b c0 1 (f_ops f).

(* ====================================================================================
   A hook with several bindings, and combined arrays of contexts.

     pkg/hook/controller/hook_controller.go   getIncludeSnapshotsFrom, UpdateSnapshots (with its
                                              per-call cache of SnapshotsFor)
     pkg/hook/controller/kubernetes_bindings_controller.go  HandleEvent, SnapshotsFor
     pkg/hook/controller/schedule_bindings_controller.go    HandleEvent
     pkg/hook/controller/admission_bindings_controller.go   HandleEvent
     pkg/hook/controller/conversion_bindings_controller.go  HandleEvent
     pkg/hook/hook.go                          Run: UpdateSnapshots(all contexts of the task) ->
                                              ConvertBindingContextList -> Json

   A hook has kubernetes bindings (each with its own monitor = its own informer cache) and
   schedule / kubernetesValidating / kubernetesMutating / kubernetesCustomResourceConversion
   bindings.  Binding names are not unique across the binding types: the identity of a binding
   is (type, name).  The contexts of several tasks of the hook that wait in one queue are
   handed to ONE execution as one array (C07 is about which tasks are combined); Hook.Run
   refreshes `snapshots` (and the `objects` of a Synchronization) of EVERY context of the
   array at that moment and writes one file.

   Kubernetes bindings are addressed by name, as SnapshotsFor and getIncludeSnapshotsFrom do
   (first binding of that name; two kubernetes bindings of one name are C02's finding F25);
   the other bindings are addressed by their position in the configuration, and looked up
   by UpdateSnapshots through (type, name) exactly as getIncludeSnapshotsFrom does.
   Config v1 only (includeSnapshotsFrom and the other binding kinds do not exist in v0).
   ==================================================================================== *)

Definition btype_eqb (a b : btype) : bool :=
  match a, b with
  | BOnStartup, BOnStartup | BSchedule, BSchedule | BKube, BKube | BValidating, BValidating
  | BMutating, BMutating | BConversion, BConversion | BOther, BOther => true
  | _, _ => false
  end.

(* ScheduleConfig / ValidatingConfig / MutatingConfig / ConversionConfig: what the contexts need *)
Record obind := mkObind {
  ob_type : btype;             (* BSchedule | BValidating | BMutating | BConversion *)
  ob_name : bytes;             (* BindingName *)
  ob_incl : list bytes;        (* IncludeSnapshotsFrom (after the merge with the group's kubernetes bindings) *)
  ob_group : bytes;            (* Group *)
  ob_crd : bytes;              (* conversion bindings: Webhook.CrdName ([] otherwise) *)
  ob_rules : list (bytes * bytes) }.   (* conversion bindings: Webhook.Rules = the `conversions` (fromVersion, toVersion) *)

(* what makes the controllers create contexts *)
Inductive hevent :=
| HSync (name : bytes)                           (* EnableKubernetesBindings: the Synchronization of that kubernetes binding *)
| HWatch (name : bytes) (t : wevent) (w : wobj)  (* a watch event delivered to that binding's informer *)
| HOther (k : nat) (review : json)
    (* the k-th other binding, a schedule or an admission binding: a crontab tick (schedule), an
       AdmissionReview request (validating/mutating: [review] is the AdmissionReview) *)
| HConv (crd : bytes) (review : json) (from to : bytes).
    (* HandleConversionEvent(crdName, request, rule): a ConversionReview request for the CRD that
       the conversion chain resolved to the rule from->to (C15 is about the chain) *)

Record hcase := mkHcase {
  hk_kube : list (binding * list wobj);    (* kubernetes bindings with the objects their monitors list at start *)
  hk_other : list obind;
  hk_evs : list hevent }.                  (* in the order in which the contexts are appended to the array *)

(* `for _, binding := range kubernetesBindings { if bindingName == binding.BindingName {...; break} }` *)
Definition kube_named {A} (name : bytes) (l : list (binding * A)) : option (binding * A) :=
  find (fun p => bytes_eqb name (b_name (fst p))) l.

(* the watch events of one binding's informer, in delivery order *)
Definition watch_ops (name : bytes) (evs : list hevent) : list (wevent * wobj) :=
  flat_map (fun ev => match ev with
                      | HWatch n t w => if bytes_eqb n name then [(t, w)] else []
                      | _ => []
                      end) evs.

(* the informer cache of a binding after these watch events *)
Definition run_cache (b : binding) (ws : list wobj) (ops : list (wevent * wobj)) : cache :=
  fold_left (fun c op => fst (handle b c (fst op) (snd op))) ops (load_existing b ws []).

(* KubernetesController.SnapshotsFor(name) once the events [done] have been handled *)
Definition hk_snapshots_for (hc : hcase) (done : list hevent) (name : bytes) : option (list entry) :=
  match kube_named name (hk_kube hc) with
  | Some (b, ws) => Some (snapshot (run_cache b ws (watch_ops name done)))
  | None => None
  end.

(* hook_controller.go getIncludeSnapshotsFrom(bindingType, bindingName): the first binding of
   that name in the list OF THAT TYPE *)
Definition hk_include_from (hc : hcase) (bt : btype) (name : bytes) : list bytes :=
  match bt with
  | BKube => match kube_named name (hk_kube hc) with Some p => b_incl (fst p) | None => [] end
  | BSchedule | BValidating | BMutating | BConversion =>
      match find (fun o => btype_eqb bt (ob_type o) && bytes_eqb name (ob_name o)) (hk_other hc) with
      | Some o => ob_incl o
      | None => []
      end
  | BOnStartup | BOther => []
  end.

(* scheduleBindingsController / AdmissionBindingsController HandleEvent *)
Definition ctx_of_obind (o : obind) (review : json) : ctx :=
  let adm := match ob_type o with BValidating | BMutating => true | _ => false end in
  mkCtx (ob_type o) false (ob_incl o) false (ob_group o) (ob_name o) KEmpty WNone [] []
        (if adm then Some review else None) None [] [].

(* ConversionBindingsController.  EnableConversionBindings:
     for _, config := range Bindings { for _, conv := range config.Webhook.Rules {
         Links[config.Webhook.CrdName][conv] = &Link{BindingName, IncludeSnapshots, Group,
                                                     FromVersion: conv.FromVersion, ToVersion: conv.ToVersion} } }
   one link PER RULE, holding that rule's versions; a later binding that declares the same rule
   for the same CRD replaces the link.  HandleEvent(crdName, request, rule) answers with
   Links[crdName][rule]: Binding, FromVersion, ToVersion, IncludeSnapshots, Group of the link. *)
Definition rule_eqb (from to : bytes) (r : bytes * bytes) : bool :=
  bytes_eqb from (fst r) && bytes_eqb to (snd r).

Definition conv_match (crd from to : bytes) (o : obind) : bool :=
  btype_eqb (ob_type o) BConversion && bytes_eqb crd (ob_crd o) && existsb (rule_eqb from to) (ob_rules o).

(* the link that is left for (crd, rule): the last binding that declares it, with the versions
   of the declared rule *)
Definition conv_link (hc : hcase) (crd from to : bytes) : option (obind * (bytes * bytes)) :=
  match find (conv_match crd from to) (rev (hk_other hc)) with
  | Some o => match find (rule_eqb from to) (ob_rules o) with
              | Some r => Some (o, r)
              | None => None
              end
  | None => None
  end.

Definition ctx_of_conv (o : obind) (r : bytes * bytes) (review : json) : ctx :=
  mkCtx BConversion false (ob_incl o) false (ob_group o) (ob_name o) KEmpty WNone [] []
        None (Some review) (fst r) (snd r).

(* AdmissionBindingsController: AdmissionLinks is a map keyed by the WebhookId, which
   hook_manager derives from the binding NAME alone (UpdateIds("", BindingName)) — for validating
   and mutating bindings alike.  EnableValidatingBindings fills it, then EnableMutatingBindings:
   a later binding of the same name replaces the link.  An admission event carries only the
   webhook id, so it is answered with the link that is left.  (Names that differ only in
   characters SafeURLString rewrites would collide as well; here a name is its own id.) *)
Definition is_adm (t : btype) : bool := match t with BValidating | BMutating => true | _ => false end.

Definition adm_links (hc : hcase) : list obind :=
  filter (fun o => btype_eqb (ob_type o) BValidating) (hk_other hc)
  ++ filter (fun o => btype_eqb (ob_type o) BMutating) (hk_other hc).

Definition adm_link (hc : hcase) (o : obind) : obind :=
  match find (fun o' => bytes_eqb (ob_name o) (ob_name o')) (rev (adm_links hc)) with
  | Some o' => o'
  | None => o
  end.

(* the contexts one event adds to the array, each with the ResourceIds behind its Objects;
   [pre] = the events before it *)
Definition hk_contexts (hc : hcase) (pre : list hevent) (ev : hevent) : list (list bytes * ctx) :=
  match ev with
  | HSync name =>
      match kube_named name (hk_kube hc) with
      | Some (b, _) => map (fun c => ([], c)) (convert_kube_event b (mkKev KSync [] []))
      | None => []
      end
  | HWatch name t w =>
      match kube_named name (hk_kube hc) with
      | Some (b, ws) =>
          match snd (handle b (run_cache b ws (watch_ops name pre)) t w) with
          | Some kev => map (fun c => (map fst (ke_objs kev), c)) (convert_kube_event b kev)
          | None => []
          end
      | None => []
      end
  | HOther k review =>
      match nth_error (hk_other hc) k with
      | Some o => match ob_type o with
                  | BConversion => []     (* conversion bindings are reached through (crd, rule) only *)
                  | _ => [([], ctx_of_obind (if is_adm (ob_type o) then adm_link hc o else o) review)]
                  end
      | None => []
      end
  | HConv crd review from to =>
      match conv_link hc crd from to with
      | Some (o, r) => [([], ctx_of_conv o r review)]
      | None => []
      end
  end.

(* the array: the contexts of all events, each tagged with the index of its event *)
Fixpoint hk_collect (hc : hcase) (pre : list hevent) (evs : list hevent) : list (nat * (list bytes * ctx)) :=
  match evs with
  | [] => []
  | ev :: r => map (fun p => (length pre, p)) (hk_contexts hc pre ev) ++ hk_collect hc (pre ++ [ev]) r
  end.

(* ---- UpdateSnapshots.  [inc] = getIncludeSnapshotsFrom, [sf] = SnapshotsFor ---- *)

(* cache := make(map[string][]ObjectAndFilterResult): a name is read at most once per call *)
Definition scache := list (bytes * option (list entry)).

(* if _, has := cache[name]; !has { cache[name] = SnapshotsFor(name) } ; cache[name] *)
Definition cached_for (sf : bytes -> option (list entry)) (sc : scache) (name : bytes)
  : scache * option (list entry) :=
  match aget name sc with
  | Some v => (sc, v)
  | None => let v := sf name in (aset name v sc, v)
  end.

(* nil (no such kubernetes binding) leaves the empty array *)
Definition entries_items (v : option (list entry)) : list item :=
  match v with Some es => map (fun e => Raw (en_ofr e)) es | None => [] end.
Definition entries_ids (v : option (list entry)) : list bytes :=
  match v with Some es => map en_id es | None => [] end.

(* for _, bindingName := range includeSnapshotsFrom { newBc.Snapshots[bindingName] = ... }
   (a repeated name is written twice with the same value; the list keeps both, rendering
   keeps one) *)
Fixpoint fill_snapshots (sf : bytes -> option (list entry)) (sc : scache) (names : list bytes)
  : scache * list (bytes * list item) :=
  match names with
  | [] => (sc, [])
  | n :: r => let (sc1, v) := cached_for sf sc n in
              let (sc2, rest) := fill_snapshots sf sc1 r in
              (sc2, (n, entries_items v) :: rest)
  end.

Definition set_fresh (x : ctx) (objs : list item) (snaps : list (bytes * list item)) : ctx :=
  mkCtx (c_btype x) (c_jq x) (c_incl x) (c_incl_all x) (c_group x) (c_binding x) (c_type x) (c_wev x)
        objs snaps (c_areview x) (c_creview x) (c_from x) (c_to x).

(* newBc.Metadata.BindingType == OnKubernetesEvent && newBc.Type == TypeSynchronization *)
Definition is_sync (x : ctx) : bool :=
  match c_btype x, c_type x with BKube, KSync => true | _, _ => false end.

(* the body of the loop: includeSnapshotsFrom is resolved for THIS context's (type, name) *)
Definition update_ctx (inc : btype -> bytes -> list bytes) (sf : bytes -> option (list entry))
           (sc : scache) (x : ctx) : scache * ctx :=
  let (sc1, snaps) := fill_snapshots sf sc (inc (c_btype x) (c_binding x)) in
  if is_sync x then
    let (sc2, v) := cached_for sf sc1 (c_binding x) in (sc2, set_fresh x (entries_items v) snaps)
  else (sc1, set_fresh x (c_objects x) snaps).

Fixpoint update_all (inc : btype -> bytes -> list bytes) (sf : bytes -> option (list entry))
         (sc : scache) (xs : list ctx) : list ctx :=
  match xs with
  | [] => []
  | x :: r => let (sc', x') := update_ctx inc sf sc x in x' :: update_all inc sf sc' r
  end.

(* if hc.KubernetesController == nil { return context } *)
Definition hk_update_snapshots (hc : hcase) (xs : list ctx) : list ctx :=
  if is_nil (hk_kube hc) then xs
  else update_all (hk_include_from hc) (hk_snapshots_for hc (hk_evs hc)) [] xs.

(* what the driver records for every item of the array: the event it stands for, the
   ResourceIds behind its Objects and behind its Snapshots (names as in the rendered object) *)
Record hitem := mkHitem {
  hi_ev : N;
  hi_ids : list bytes;
  hi_snaps : list (bytes * list bytes) }.

Record hobs := mkHobs { ho_items : list hitem; ho_out : option json }.

Definition hk_item (hc : hcase) (p : nat * (list bytes * ctx)) : hitem :=
  let x := snd (snd p) in
  let sf := hk_snapshots_for hc (hk_evs hc) in
  mkHitem (N.of_nat (fst p))
          (if is_sync x && negb (is_nil (hk_kube hc)) then entries_ids (sf (c_binding x)) else fst (snd p))
          (if is_nil (hk_kube hc) then []
           else map (fun n => (n, entries_ids (sf n)))
                    (canon_names (hk_include_from hc (c_btype x) (c_binding x)))).

(* one execution over the combined array: Hook.Run *)
Definition run_hook (hc : hcase) : hobs :=
  let tagged := hk_collect hc [] (hk_evs hc) in
  mkHobs (map (hk_item hc) tagged)
         (render_list V1 (hk_update_snapshots hc (map (fun p => snd (snd p)) tagged))).

(* ====================================================================================
   What gojq is given: pkg/filter/jq/apply.go.

     func (f *Filter) ApplyFilter(jqFilter string, data map[string]any) (map[string]any, error) {
         query, err := gojq.Parse(jqFilter)
         workData := deepCopy(data)              // "gojq will normalize numbers in the input data"
         iter := query.Run(workData)
         result := make(map[string]any)
         for { v, ok := iter.Next(); ...; if resultMap, ok := v.( map[string]any ); ok { maps.Copy(result, resultMap) } }
         return result, nil }
     func deepCopy(input map[string]any) map[string]any {
         data, _ := json.Marshal(input); var output map[string]any; _ = json.Unmarshal(data, &output); return output }

   filter.go applyFilter calls it with obj.UnstructuredContent() and stores the returned map as
   FilterResult, while Object keeps pointing to obj: the value jq RUNS ON is the copy, the value
   the hook SEES as `object` is the original.  The first half of this file took the output stream of
   jq on the object as given ([Stored]'s [jqf], [w_outs]); here the jq program is a function
   [jq_fn] of its input (gojq is an oracle: any function) and the copy is explicit.

   deepCopy on the value tree: json.Marshal writes a Go map with its keys sorted and
   json.Unmarshal builds a map again (one value per key, the last one wins); slices are
   copied element-wise; strings, booleans and nil come back as they are (Marshal's HTML
   escapes are undone by Unmarshal; the harness emits valid UTF-8 only).  Numbers come back as
   float64: every integer of magnitude up to 2^53 and every float64 exactly - larger int64
   values are outside this model (client-go decodes them as int64; jq itself computes in
   float64).  Every member of the object is copied, whatever its name: metadata.managedFields,
   metadata.annotations, status, ... are part of what jq runs on.
   ==================================================================================== *)

Fixpoint deep_copy (j : json) : json :=
  match j with
  | JArr l => JArr (map deep_copy l)
  | JObj m => JObj (fold_left (fun acc kv => obj_set (fst kv) (deep_copy (snd kv)) acc) m [])
  | _ => j
  end.

(* query.Run: the output stream of the binding's compiled jqFilter on an input value *)
Definition jq_fn := json -> list json.

(* jq.ApplyFilter: the merged object-valued outputs of jq on the COPY *)
Definition jq_apply_filter (jq : jq_fn) (data : json) : list (bytes * json) := glue (jq (deep_copy data)).

(* filter.go applyFilter over it: the output stream that travels with an object of the informer
   path is the stream of the copy *)
Definition wobj_via (jq : jq_fn) (w : wobj) : wobj :=
  mkWobj (w_ns w) (w_name w) (w_id w) (w_obj w) (jq (deep_copy (w_obj w))).

Definition stored_via (jq : jq_fn) (keep : bool) (obj : json) : item :=
  Stored (Some (jq (deep_copy obj))) keep obj.

(* ---- the jq function of a correspondence case ----
   The harness asks the independent /usr/bin/jq ONE question per object: the binding's jqFilter
   on the object exactly as it is created in the cluster (and as the hook must see it in `object`).
   That answer is [outs].  Asked about any other value, this oracle has no answer; it then yields
   an object that names the value it was given, so that a model (or code) that hands jq anything
   but the object shows up in filterResult. *)
Module LitJq.
Import String.
Local Open Scope string_scope.
Definition k_not_the_object : bytes := Eval compute in bs "jq was run on another value than the object, namely".
End LitJq.
Export LitJq.

Definition asked (obj : json) (outs : list json) : jq_fn :=
  fun input => if json_eqb input obj then outs else [JObj [(k_not_the_object, input)]].

(* every element / object of a case, sent through ApplyFilter's copy *)
Definition item_run (i : item) : item :=
  match i with
  | Stored (Some outs) keep obj => stored_via (asked obj outs) keep obj
  | _ => i
  end.

Definition ctx_run (c : ctx) : ctx :=
  mkCtx (c_btype c) (c_jq c) (c_incl c) (c_incl_all c) (c_group c) (c_binding c) (c_type c) (c_wev c)
        (map item_run (c_objects c))
        (map (fun p => (fst p, map item_run (snd p))) (c_snapshots c))
        (c_areview c) (c_creview c) (c_from c) (c_to c).

Definition wobj_run (w : wobj) : wobj := wobj_via (asked (w_obj w) (w_outs w)) w.

Definition flow_run (f : flow) : flow :=
  mkFlow (f_version f) (f_bind f) (map wobj_run (f_initial f))
         (map (fun op => (fst op, wobj_run (snd op))) (f_ops f)).

Definition hevent_run (ev : hevent) : hevent :=
  match ev with
  | HWatch n t w => HWatch n t (wobj_run w)
  | _ => ev
  end.

Definition hcase_run (hc : hcase) : hcase :=
  mkHcase (map (fun p => (fst p, map wobj_run (snd p))) (hk_kube hc)) (hk_other hc) (map hevent_run (hk_evs hc)).
