(* C09_Model.v — executable model of the binding-context rendering of /repo:

     pkg/kube_events_manager/filter.go         applyFilter      (what is stored as filter result)
     pkg/kube_events_manager/types/types.go    ObjectAndFilterResult.Map / MarshalJSON / RemoveFullObject
     pkg/hook/binding_context/binding_context.go  MapV1, MapV0, Map, ConvertBindingContextList, Json

   The model follows the code AFTER the repair of F3 (Map() accepts the decoded, non-string
   filter result that applyFilter stores) and keeps everything else as it is, including
   the merge of F8 (applyFilter/jq.ApplyFilter keep only object-valued jq outputs, merged
   into one map) and MapV0's dereference of the first object's full object.
   No proofs in this file. *)
From Coq Require String Ascii.
From Verif Require Import Common Json.

(* ---- byte-string literals (only used to write the fixed JSON keys / type names) ---- *)
Definition bs (s : String.string) : bytes := map Ascii.N_of_ascii (String.list_ascii_of_string s).

Module Lit.
Import String.
Local Open Scope string_scope.
Definition k_binding : bytes := Eval compute in bs "binding".
Definition k_type : bytes := Eval compute in bs "type".
Definition k_watchEvent : bytes := Eval compute in bs "watchEvent".
Definition k_object : bytes := Eval compute in bs "object".
Definition k_objects : bytes := Eval compute in bs "objects".
Definition k_filterResult : bytes := Eval compute in bs "filterResult".
Definition k_snapshots : bytes := Eval compute in bs "snapshots".
Definition k_groupName : bytes := Eval compute in bs "groupName".
Definition k_review : bytes := Eval compute in bs "review".
Definition k_fromVersion : bytes := Eval compute in bs "fromVersion".
Definition k_toVersion : bytes := Eval compute in bs "toVersion".
Definition k_resourceEvent : bytes := Eval compute in bs "resourceEvent".
Definition k_resourceNamespace : bytes := Eval compute in bs "resourceNamespace".
Definition k_resourceKind : bytes := Eval compute in bs "resourceKind".
Definition k_resourceName : bytes := Eval compute in bs "resourceName".
Definition k_metadata : bytes := Eval compute in bs "metadata".
Definition k_namespace : bytes := Eval compute in bs "namespace".
Definition k_name : bytes := Eval compute in bs "name".
Definition k_kind : bytes := Eval compute in bs "kind".

Definition s_Validating : bytes := Eval compute in bs "Validating".
Definition s_Mutating : bytes := Eval compute in bs "Mutating".
Definition s_Conversion : bytes := Eval compute in bs "Conversion".
Definition s_Group : bytes := Eval compute in bs "Group".
Definition s_Schedule : bytes := Eval compute in bs "Schedule".
Definition s_Synchronization : bytes := Eval compute in bs "Synchronization".
Definition s_Event : bytes := Eval compute in bs "Event".
Definition s_Added : bytes := Eval compute in bs "Added".
Definition s_Modified : bytes := Eval compute in bs "Modified".
Definition s_Deleted : bytes := Eval compute in bs "Deleted".
Definition s_add : bytes := Eval compute in bs "add".
Definition s_update : bytes := Eval compute in bs "update".
Definition s_delete : bytes := Eval compute in bs "delete".

End Lit.
Export Lit.

(* ---- the Go data ---- *)

Inductive version := V0 | V1 | VOther.          (* Metadata.Version: "v0", "v1", anything else *)

(* Metadata.BindingType; BOther = any type outside shell-operator's six (addon-operator) *)
Inductive btype := BOnStartup | BSchedule | BKube | BValidating | BMutating | BConversion | BOther.

Inductive ktype := KEmpty | KSync | KEvent.     (* bc.Type: "", "Synchronization", "Event" *)
Inductive wevent := WNone | WAdded | WModified | WDeleted.   (* bc.WatchEvent *)

(* ObjectAndFilterResult.FilterResult (an interface{}):
   nil | a Go string (with what a JSON parser says about it: None = not one JSON value)
   | any other decoded value (applyFilter stores a map[string]any here).
   [FRVal] is never used with a JSON string — a Go string is [FRStr]. *)
Inductive fres := FRNil | FRStr (text : bytes) (parsed : option json) | FRVal (v : json).

Record ofr := mkOfr {
  o_jq : bool;                 (* Metadata.JqFilter <> "" *)
  o_remove : bool;             (* Metadata.RemoveObject *)
  o_object : option json;      (* Object (pointer to Unstructured), None = nil pointer *)
  o_fres : fres }.

(* An element of Objects / Snapshots: either produced by the informer path
   (applyFilter on [obj] with the binding's jqFilter — [jqf] = None when there is no
   jqFilter, Some outs = the output stream of jq on obj — then RemoveFullObject when
   keepFullObjectsInMemory=false), or a hand-built struct. *)
Inductive item :=
| Stored (jqf : option (list json)) (keep : bool) (obj : json)
| Raw (o : ofr).

Record ctx := mkCtx {
  c_btype : btype;
  c_jq : bool;                           (* Metadata.JqFilter <> "" *)
  c_incl : list bytes;                   (* Metadata.IncludeSnapshots *)
  c_incl_all : bool;                     (* Metadata.IncludeAllSnapshots *)
  c_group : bytes;                       (* Metadata.Group, [] = none *)
  c_binding : bytes;
  c_type : ktype;
  c_wev : wevent;
  c_objects : list item;
  c_snapshots : list (bytes * list item);(* the Snapshots map *)
  c_areview : option json;               (* AdmissionReview pointer, as JSON *)
  c_creview : option json;               (* ConversionReview pointer, as JSON *)
  c_from : bytes;
  c_to : bytes }.

Definition is_some {A} (o : option A) : bool := match o with Some _ => true | None => false end.
Definition is_nil {A} (l : list A) : bool := match l with [] => true | _ => false end.

(* ---- pkg/filter/jq ApplyFilter + filter.go applyFilter ---- *)

(* maps.Copy(result, m) *)
Definition copy (m acc : list (bytes * json)) : list (bytes * json) :=
  fold_left (fun a kv => obj_set (fst kv) (snd kv) a) m acc.

(* the loop over iter.Next(): only map-valued outputs are merged, everything else is dropped *)
Definition glue (outs : list json) : list (bytes * json) :=
  fold_left (fun acc v => match v with JObj m => copy m acc | _ => acc end) outs [].

(* applyFilter (FilterFunc = nil) followed by resourceInformer's RemoveFullObject *)
Definition apply_filter (jqf : option (list json)) (keep : bool) (obj : json) : ofr :=
  mkOfr (is_some jqf) (negb keep) (if keep then Some obj else None)
        (match jqf with None => FRNil | Some outs => FRVal (JObj (glue outs)) end).

Definition ofr_of_item (i : item) : ofr :=
  match i with Stored jqf keep obj => apply_filter jqf keep obj | Raw o => o end.

(* ---- types.go: ObjectAndFilterResult.Map (after the F3 repair) ---- *)

Definition map_ofr (o : ofr) : list (bytes * json) :=
  let m := if o_remove o then []
           else obj_set k_object (match o_object o with Some j => j | None => JNull end) [] in
  match o_jq o, o_fres o with
  | false, FRNil => m
  | true, FRStr text parsed =>
      obj_set k_filterResult
        (match text, parsed with
         | [], _ => JNull              (* filterResString == "" *)
         | _, Some v => v              (* json.Unmarshal ok *)
         | _, None => JNull            (* "Possible bug!!! Cannot unmarshal jq filter result" *)
         end) m
  | true, FRNil => obj_set k_filterResult JNull m
  | true, FRVal v => obj_set k_filterResult v m     (* F3 repair; before it: JNull *)
  | false, FRStr text _ => obj_set k_filterResult (JStr text) m
  | false, FRVal v => obj_set k_filterResult v m
  end.

Definition render_item (i : item) : json := JObj (map_ofr (ofr_of_item i)).

(* json.Marshal of map[string][]ObjectAndFilterResult: keys sorted *)
Definition snapshots_json (l : list (bytes * list item)) : json :=
  JObj (fold_left (fun acc p => obj_set (fst p) (JArr (map render_item (snd p))) acc) l []).

Definition includes (c : ctx) : bool := negb (is_nil (c_incl c)) || c_incl_all c.

Definition opt_json (o : option json) : json := match o with Some j => j | None => JNull end.

Definition wev_str (w : wevent) : bytes :=
  match w with WNone => [] | WAdded => s_Added | WModified => s_Modified | WDeleted => s_Deleted end.

(* ---- binding_context.go: MapV1 ---- *)

Definition map_v1 (c : ctx) : list (bytes * json) :=
  let res := obj_set k_binding (JStr (c_binding c)) [] in
  match c_btype c with
  | BOnStartup => res
  | bt =>
    let res := if includes c then obj_set k_snapshots (snapshots_json (c_snapshots c)) res else res in
    match bt with
    | BValidating => obj_set k_review (opt_json (c_areview c)) (obj_set k_type (JStr s_Validating) res)
    | BMutating => obj_set k_review (opt_json (c_areview c)) (obj_set k_type (JStr s_Mutating) res)
    | BConversion =>
        obj_set k_review (opt_json (c_creview c))
          (obj_set k_toVersion (JStr (c_to c))
             (obj_set k_fromVersion (JStr (c_from c)) (obj_set k_type (JStr s_Conversion) res)))
    | _ =>
      if negb (is_nil (c_group c)) then
        obj_set k_groupName (JStr (c_group c)) (obj_set k_type (JStr s_Group) res)
      else
        match bt with
        | BSchedule => obj_set k_type (JStr s_Schedule) res
        | BKube =>
            match c_type c with
            | KEmpty => res
            | kt =>
              let res := obj_set k_type (JStr (match kt with KSync => s_Synchronization | _ => s_Event end)) res in
              let res := match c_wev c with
                         | WNone => res
                         | w => obj_set k_watchEvent (JStr (wev_str w)) res
                         end in
              match kt with
              | KSync => obj_set k_objects (JArr (map render_item (c_objects c))) res
              | _ =>
                match c_objects c with
                | [] => let res := obj_set k_object JNull res in
                        if c_jq c then obj_set k_filterResult (JStr []) res else res
                | i :: _ => copy (map_ofr (ofr_of_item i)) res
                end
              end
            end
        | _ => res          (* "A short way for addon-operator's hooks" *)
        end
    end
  end.

(* ---- binding_context.go: MapV0 ---- *)

(* unstructured NestedString: "" when absent or not a string *)
Definition jstr_at (path : list bytes) (j : json) : bytes :=
  match fold_left (fun o k => match o with Some x => jget k x | None => None end) path (Some j) with
  | Some (JStr s) => s
  | _ => []
  end.

(* None = the nil-pointer panic of bc.Objects[0].Object.GetNamespace() *)
Definition map_v0 (c : ctx) : option (list (bytes * json)) :=
  let res := obj_set k_binding (JStr (c_binding c)) [] in
  match c_btype c with
  | BKube =>
      let ev := match c_wev c with WNone => [] | WAdded => s_add | WModified => s_update | WDeleted => s_delete end in
      let res := obj_set k_resourceEvent (JStr ev) res in
      match c_objects c with
      | [] => Some res
      | i :: _ =>
          match o_object (ofr_of_item i) with
          | None => None
          | Some obj =>
              Some (obj_set k_resourceName (JStr (jstr_at [k_metadata; k_name] obj))
                     (obj_set k_resourceKind (JStr (jstr_at [k_kind] obj))
                        (obj_set k_resourceNamespace (JStr (jstr_at [k_metadata; k_namespace] obj)) res)))
          end
      end
  | _ => Some res
  end.

(* Map(): dispatch on the version; unknown version: empty map (and an error log) *)
Definition render (v : version) (c : ctx) : option json :=
  match v with
  | V1 => Some (JObj (map_v1 c))
  | V0 => match map_v0 c with Some m => Some (JObj m) | None => None end
  | VOther => Some (JObj [])
  end.

(* ConvertBindingContextList(version, contexts).Json(), parsed: None = panic *)
Fixpoint render_all (v : version) (cs : list ctx) : option (list json) :=
  match cs with
  | [] => Some []
  | c :: r => match render v c, render_all v r with
              | Some j, Some js => Some (j :: js)
              | _, _ => None
              end
  end.

Definition render_list (v : version) (cs : list ctx) : option json :=
  match render_all v cs with Some js => Some (JArr js) | None => None end.
