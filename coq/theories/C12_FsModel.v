(* C12_FsModel.v — HOW a hook writes its output files.  No proofs here.

   The contract hands the hook PATHS ($METRICS_PATH, $KUBERNETES_PATCH_PATH, $ADMISSION_RESPONSE_PATH /
   $VALIDATING_RESPONSE_PATH, $CONVERSION_RESPONSE_PATH).  What a hook does with a path is its own business:
   it may write in place (open, truncate, write), append in several steps, write a scratch file and rename
   it onto the path (mv, sed -i, yq -i, atomic-write libraries), remove the file and create it again, write
   through a second hard link, or put a symbolic link at the path.  To say what the operator finds afterwards
   one needs names AND files (inodes), so this file has three parts:

   1. THE FILE SYSTEM (the operating system's part, shared with C12_FsSpec): a directory maps names to
      nodes (a hard link to an inode, or a symbolic link to a name), inodes hold bytes.  Six operations, with
      the POSIX behaviour that matters here: open-for-writing follows symbolic links and creates a missing
      file with a NEW inode; rename and unlink work on the NAME (never follow a link), the inode a replaced
      name referred to lives on for whoever still holds it; link gives an inode a second name.
   2. THE WAYS OF WRITING ([way], [script]): each is a sequence of those operations producing a content
      given in chunks (several writes).  [jobs_ops]: a hook process producing several outputs, one after the
      other, in any order.
   3. THE OPERATOR ([exec_fs], mirrors Hook.Run in pkg/hook/hook.go): creates its five files with os.WriteFile
      in an empty temp directory (a new inode each), runs the hook (ANY list of operations), then reads the
      four outputs BY PATH - operation.MetricOperationsFromFile, admission.ResponseFromFile,
      conversion.ResponseFromFile and os.ReadFile(kubernetesPatchPath) all open the path again, following
      links - and the deferred function removes the five paths with os.Remove (the name, not the target of a
      link).  What was read goes through [C12_Model.run] unchanged.  An unreadable path (removed and not
      created again, a dangling link) is an error of the reader at the place where a parse error would
      arise; in [run]'s vocabulary that is a file that does not parse ([unreadable]).

   The patch file is YAML, outside the model: [cls] is the oracle that says which of the abstract kinds a
   byte string is (a Section-free parameter: every theorem holds for every oracle; C12_Corr uses the table of
   the three documents the harness writes).
   Names: 0..4 the execution's five files (C12_Model.file_context etc.), names below 100 are in the operator's temp
   directory, the others elsewhere.  Not modelled: directories, permissions, several executions in one
   directory (their names are distinct: C12_Spec.P_os / C12_ConcSpec), the content of the context file. *)
From Verif Require Import Common Json JsonText C12_Model.
Open Scope N_scope.

(* ------------------------------------------------------------------ 1. the file system *)

Inductive node := NFile (i : N) | NSym (target : N).
Record fs := mkFs { dir : N -> option node; ino : N -> bytes; next : N }.

Definition fupd {A} (f : N -> A) (k : N) (v : A) : N -> A := fun x => if x =? k then v else f x.

Definition fs_empty : fs := mkFs (fun _ => None) (fun _ => []) 0.

(* path resolution: symbolic links are followed, at most [max_links] of them (ELOOP) *)
Definition max_links : nat := 40.
Fixpoint final_name (d : N -> option node) (fuel : nat) (p : N) : option N :=
  match d p with
  | Some (NSym t) => match fuel with O => None | S n => final_name d n t end
  | _ => Some p
  end.
Definition inode_at (s : fs) (p : N) : option N :=
  match final_name (dir s) max_links p with
  | Some q => match dir s q with Some (NFile i) => Some i | _ => None end
  | None => None
  end.
(* os.ReadFile(p): None = an error *)
Definition read_path (s : fs) (p : N) : option bytes := option_map (ino s) (inode_at s p).

Inductive op :=
| OWrite (p : N) (c : bytes)       (* open(p, O_WRONLY|O_CREAT|O_TRUNC), write c, close *)
| OAppend (p : N) (c : bytes)      (* open(p, O_WRONLY|O_CREAT|O_APPEND), write c, close *)
| ORename (a b : N)                (* rename(a, b) *)
| OUnlink (p : N)                  (* unlink(p) *)
| OLink (a b : N)                  (* link(a, b): b becomes another name of what a names *)
| OSymlink (t p : N).              (* symlink(t, p): p becomes a symbolic link to t *)

Definition open_write (append : bool) (p : N) (c : bytes) (s : fs) : fs :=
  match final_name (dir s) max_links p with
  | None => s                                                             (* ELOOP *)
  | Some q =>
    match dir s q with
    | Some (NFile i) => mkFs (dir s) (fupd (ino s) i ((if append then ino s i else []) ++ c)) (next s)
    | Some (NSym _) => s                                                  (* not reached: q is a final name *)
    | None => mkFs (fupd (dir s) q (Some (NFile (next s)))) (fupd (ino s) (next s) c) (next s + 1)   (* O_CREAT: a new inode *)
    end
  end.

(* a failing call (ENOENT, EEXIST) changes nothing; the scripted hook goes on *)
Definition apply_op (o : op) (s : fs) : fs :=
  match o with
  | OWrite p c => open_write false p c s
  | OAppend p c => open_write true p c s
  | ORename a b =>
      match dir s a with
      | None => s
      | Some n =>
          if a =? b then s
          else match n, dir s b with
               | NFile i, Some (NFile j) =>
                   if i =? j then s                                       (* two names of one file: rename does nothing *)
                   else mkFs (fupd (fupd (dir s) b (Some n)) a None) (ino s) (next s)
               | _, _ => mkFs (fupd (fupd (dir s) b (Some n)) a None) (ino s) (next s)
               end
      end
  | OUnlink p => mkFs (fupd (dir s) p None) (ino s) (next s)
  | OLink a b =>
      match dir s a, dir s b with
      | Some n, None => mkFs (fupd (dir s) b (Some n)) (ino s) (next s)
      | _, _ => s
      end
  | OSymlink t p =>
      match dir s p with
      | None => mkFs (fupd (dir s) p (Some (NSym t))) (ino s) (next s)
      | Some _ => s
      end
  end.

Definition run_ops (ops : list op) (s : fs) : fs := fold_left (fun s o => apply_op o s) ops s.

(* ------------------------------------------------------------------ 2. ways of writing *)

Inductive way :=
| WInPlace      (* > "$P"  (then >> "$P" for further chunks) *)
| WAppend       (* >> "$P" only: never truncates, relies on the file being empty *)
| WRename       (* write a scratch file beside it, mv scratch "$P"   (sed -i, yq -i, atomic write) *)
| WRecreate     (* rm "$P"; > "$P"   (cp --remove-destination, install) *)
| WHardLink     (* ln "$P" scratch; write scratch; rm scratch *)
| WSymlink      (* write a file elsewhere; rm "$P"; ln -s elsewhere "$P" *)
| WRemove.      (* rm "$P" and nothing else: there is no file at the path when the hook exits *)

Definition way_eqb (a b : way) : bool :=
  match a, b with
  | WInPlace, WInPlace | WAppend, WAppend | WRename, WRename | WRecreate, WRecreate
  | WHardLink, WHardLink | WSymlink, WSymlink | WRemove, WRemove => true
  | _, _ => false
  end.

(* a content produced in several writes at name q: the first open truncates *)
Definition write_chunks (q : N) (cs : list bytes) : list op :=
  match cs with
  | [] => [OWrite q []]
  | c :: r => OWrite q c :: map (OAppend q) r
  end.

(* p the path handed to the hook, st a scratch name beside it, so a name elsewhere *)
Definition script (w : way) (p st so : N) (cs : list bytes) : list op :=
  match w with
  | WInPlace => write_chunks p cs
  | WAppend => map (OAppend p) cs
  | WRename => write_chunks st cs ++ [ORename st p]
  | WRecreate => OUnlink p :: write_chunks p cs
  | WHardLink => OLink p st :: write_chunks st cs ++ [OUnlink st]
  | WSymlink => write_chunks so cs ++ [OUnlink p; OSymlink so p]
  | WRemove => [OUnlink p]
  end.

Definition scratch_beside (g : N) : N := 10 + g.      (* in the temp directory *)
Definition scratch_elsewhere (g : N) : N := 200 + g.  (* not in the temp directory *)
Definition in_tmp (q : N) : bool := q <? 100.

(* one output of the hook: the file (0..4), the way, the chunks *)
Definition fjob := (way * N * list bytes)%type.
Definition fj_way (j : fjob) : way := fst (fst j).
Definition fj_file (j : fjob) : N := snd (fst j).
Definition fj_chunks (j : fjob) : list bytes := snd j.
Definition job_script (j : fjob) : list op :=
  script (fj_way j) (fj_file j) (scratch_beside (fj_file j)) (scratch_elsewhere (fj_file j)) (fj_chunks j).
Definition jobs_ops (js : list fjob) : list op := flat_map job_script js.

(* what is at the path of file g when a hook that did [js] exits, in closed form (C12_FsProofs.jobs_content) *)
Fixpoint content_of (js : list fjob) (g : N) : option bytes :=
  match js with
  | [] => Some []
  | j :: r => if fj_file j =? g
              then (if way_eqb (fj_way j) WRemove then None else Some (concat (fj_chunks j)))
              else content_of r g
  end.

(* the hook addresses its outputs through the variables of ITS environment (C12_Model.child_env): a job
   given by variable reaches the file the variable points to; a variable that does not point to a file of
   this execution loses the output (as [C12_Model.written]) *)
Definition vjob := (way * N * list bytes)%type.      (* way, VARIABLE, chunks *)
Definition hook_jobs (e : list (N * N)) (vs : list vjob) : list fjob :=
  flat_map (fun v => match getenv (child_env e) (snd (fst v)) with
                     | Some (Own g) => [(fst (fst v), g, snd v)]
                     | _ => []
                     end) vs.

(* ------------------------------------------------------------------ 3. the operator *)

Definition own_files : list N := [file_context; file_metrics; file_admission; file_conversion; file_patch].

(* os.WriteFile(path, []byte{}, 0o644), five times (creation order of Hook.Run) *)
Definition create_all (s : fs) : fs := run_ops (map (fun p => OWrite p []) own_files) s.
(* the deferred function: os.Remove on the five paths *)
Definition remove_all (s : fs) : fs :=
  run_ops (map OUnlink [file_context; file_metrics; file_conversion; file_admission; file_patch]) s.

Definition unreadable : fkind := FTruncated.

Record finput := mkFI {
  fi_exit : Z; fi_concurrent : bool; fi_namelen : N; fi_env : list (N * N);
  fi_ops : list op               (* everything the hook process does to the file system before it exits *)
}.

Definition op_names (o : op) : list N :=
  match o with
  | OWrite p _ | OAppend p _ | OUnlink p => [p]
  | ORename a b | OLink a b | OSymlink a b => [a; b]
  end.
Definition bound (s : fs) (q : N) : bool := match dir s q with Some _ => true | None => false end.
(* entries of the temp directory, among the names that were ever used *)
Definition tmp_listing (s : fs) (names : list N) : list N :=
  filter (fun q => in_tmp q && bound s q) (nodup N.eq_dec names).

Definition hook_fs (i : finput) : fs := run_ops (fi_ops i) (create_all fs_empty).

Definition kind_at (s : fs) (f : N) : fkind :=
  match read_path s f with Some b => FText b | None => unreadable end.
Definition patch_kind_at (cls : bytes -> fkind) (s : fs) : fkind :=
  match read_path s file_patch with Some b => cls b | None => unreadable end.

(* what the operator reads back, as an input of [C12_Model.run] *)
Definition read_back (cls : bytes -> fkind) (i : finput) : input :=
  let s := hook_fs i in
  mkIn (fi_exit i) (kind_at s file_metrics) (patch_kind_at cls s) (kind_at s file_admission) (kind_at s file_conversion)
       (fi_concurrent i) (fi_namelen i) (fi_env i).

Definition exec_fs (cls : bytes -> fkind) (i : finput) : outcome :=
  let o := run (read_back cls i) in
  if o_started o
  then mkOut true (o_success o)
             (N.of_nat (length (tmp_listing (remove_all (hook_fs i)) (own_files ++ flat_map op_names (fi_ops i)))))
             (o_metric_applied o) (o_metric_unknown o) (o_patch_applied o)
  else o.      (* a temp file could not be created: the hook is not started, what exists is removed (C12_Model.run) *)

(* what a reader holding the inode that was created BEFORE the hook ran would see (not what the code
   does; for the non-vacuity examples) *)
Definition read_inode_created (i : finput) (f : N) : option bytes :=
  match inode_at (create_all fs_empty) f with
  | Some k => Some (ino (hook_fs i) k)
  | None => None
  end.

(* a case of the correspondence: the hook produces outputs, each in its way *)
Record winput := mkWI {
  wi_exit : Z; wi_concurrent : bool; wi_namelen : N; wi_env : list (N * N);
  wi_jobs : list vjob
}.
Definition finput_of (w : winput) : finput :=
  mkFI (wi_exit w) (wi_concurrent w) (wi_namelen w) (wi_env w) (jobs_ops (hook_jobs (wi_env w) (wi_jobs w))).
