(* C20_Properties.v — the property theorems of C20 and nothing else.

   Full statement (every tree a file system can hold, every --config scenario):
     C20_model_satisfies_P : P i (model_of i) = true
   proved at full strength — no trigger predicate: the one defect found on the
   unchanged tree (F10: a hooks directory itself named `lib` or hidden yielded no
   hooks) was repaired in /repo and the model follows the repaired code.
   The only hypothesis is wf_children: names are non-empty single path elements and
   the entries of one directory have distinct names — what a file system guarantees.
   It is needed for "duplicate-free" only; C20_discover_iff and C20_sorted need nothing.

   Naming ("each hook is named by its path relative to the hooks directory") and the
   by-name index: C20_rel_is_remainder, C20_name_is_relative_path,
   C20_name_determines_file, C20_index_holds_every_hook - for every tree, in particular
   trees in which the hooks directory's own path (its last element, several trailing
   elements, the whole absolute path) occurs again below it.  No hypothesis.

   The file-name rule, character by character (part 3, at the end of this file):
   C20_ext_is_last_dot_suffix, C20_last_dot_suffix_spec, C20_two_readings_agree,
   C20_excluded_names, C20_file_rule, C20_letters_need_the_dot, C20_bare_letters_are_a_name,
   C20_suffix_after_extension (all for EVERY byte string, no hypothesis beyond "a path element
   has no separator"), C20_top_level_file_rule and C20_model_satisfies_P_files (file by file
   through discovery and the --config round; hypothesis wf_children as above).

   Entry kinds (part 4): the on-disk tree with regular files, directories, symbolic links (with
   what they resolve to) and FIFOs; the walk sees it through Lstat.  C20_walk_sees_lstat,
   C20_discovery_by_kind, C20_link_is_hook_whatever_target, C20_file_or_fifo_is_hook,
   C20_bad_hook_fails_init, C20_model_satisfies_PX.

   What a valid configuration declares (part 5): the registry of C20_Model (index by binding type,
   by-name index, list of names) for EVERY assignment of configurations to hooks.
   C20_hook_set_whatever_the_configs, C20_hook_set_is_discovery, C20_binding_index,
   C20_bound_hook_is_in_the_set, C20_no_binding_still_a_hook, C20_model_satisfies_PC. *)
From Coq Require Import Sorted.
From Verif Require Import Common C20_Model C20_Spec C20_Corr C20_Proofs C20_NameProofs C20_KindProofs C20_ConfigProofs.
Local Open Scope N_scope.

(* the discovered hooks are exactly the files meeting the conditions of the statement *)
Theorem C20_discover_iff : forall parent root cs p,
  In p (discover parent root cs) <-> is_hook cs p.
Proof. exact discover_iff. Qed.
Print Assumptions C20_discover_iff.

(* hooks are loaded in lexical (bytewise) order of their relative paths: no element is
   greater than a later one — for every tree whatsoever *)
Theorem C20_sorted : forall parent root cs,
  StronglySorted (fun a b => bytes_ltb b a = false) (discover parent root cs).
Proof. exact discover_sorted. Qed.
Print Assumptions C20_sorted.

(* ... strictly increasing and duplicate-free on file-system trees *)
Theorem C20_sorted_nodup : forall parent root cs,
  wf_children cs = true ->
  StronglySorted (fun a b => bytes_ltb a b = true) (discover parent root cs)
  /\ NoDup (discover parent root cs).
Proof. exact discover_sorted_nodup. Qed.
Print Assumptions C20_sorted_nodup.

(* --config: the executions are an initial segment of the sorted paths (so each file is
   asked at most once, in order); when Init succeeds every discovered file was asked,
   the loaded hook names are the discovered ones, and nobody misbehaved *)
Theorem C20_config_once : forall parent root cs beh,
  (exists rest, sorted_paths parent root cs = asked (init parent root cs beh) ++ rest)
  /\ (result (init parent root cs beh) = InitOk ->
        asked (init parent root cs beh) = sorted_paths parent root cs
        /\ names (init parent root cs beh) = discover parent root cs
        /\ (forall n, In n (discover parent root cs) -> beh n = BOk))
  /\ (wf_children cs = true -> NoDup (asked (init parent root cs beh))).
Proof. exact config_once. Qed.
Print Assumptions C20_config_once.

(* the first hook (in load order) whose --config run fails or prints an invalid
   configuration makes Init fail, right after asking it, with an error naming it *)
Theorem C20_first_failure_named : forall parent root cs beh pre h post,
  sorted_paths parent root cs = pre ++ h :: post ->
  (forall p, In p pre -> beh (rel (working_dir parent root) p) = BOk) ->
  beh (rel (working_dir parent root) h) <> BOk ->
  asked (init parent root cs beh) = pre ++ [h]
  /\ names (init parent root cs beh) = map (rel (working_dir parent root)) pre
  /\ result (init parent root cs beh) <> InitOk
  /\ (result (init parent root cs beh) = ErrGetConfig h
      \/ result (init parent root cs beh) = ErrCreating (rel (working_dir parent root) h)).
Proof. exact init_first_failure. Qed.
Print Assumptions C20_first_failure_named.

(* the observable predicate of C20_Spec holds of the model's observation *)
Theorem C20_model_satisfies_P : forall i,
  wf_children (i_children i) = true -> P i (model_of i) = true.
Proof. exact P_model. Qed.
Print Assumptions C20_model_satisfies_P.

(* "each hook is named by its path relative to the hooks directory".
   The name is computed by filepath.Rel, modelled on the ELEMENTS of the two path strings
   (C20_Model.rel: split both at the separators, drop the common leading elements, join the
   rest).  Whatever stands below the hooks directory - directories that repeat its last
   element, several trailing elements or its whole absolute path, any number of times -
   the name is exactly the remainder: *)
Theorem C20_rel_is_remainder : forall wd r, rel wd (wd ++ slash :: r) = r.
Proof. exact rel_join. Qed.
Print Assumptions C20_rel_is_remainder.

(* ... so for every tree the name of a discovered file is its path relative to the hooks
   directory (the file is the hooks directory joined with the name, and the name is the path
   of a file of the tree that meets the conditions of the statement) *)
Theorem C20_name_is_relative_path : forall parent root cs p,
  In p (get_executable_paths parent root cs) ->
  p = working_dir parent root ++ slash :: rel (working_dir parent root) p
  /\ exists e, In e (all_files cs) /\ entry_is_hook e = true /\ rel (working_dir parent root) p = entry_path e.
Proof. exact name_is_relative_path. Qed.
Print Assumptions C20_name_is_relative_path.

(* ... and the name determines the file: no two discovered files share a name, for every
   tree whatsoever (no hypothesis on the tree, on the hooks directory or on its parent) *)
Theorem C20_name_determines_file : forall parent root cs p q,
  In p (get_executable_paths parent root cs) -> In q (get_executable_paths parent root cs) ->
  rel (working_dir parent root) p = rel (working_dir parent root) q -> p = q.
Proof. exact name_determines_file. Qed.
Print Assumptions C20_name_determines_file.

(* the by-name index (hm.hooksByName, a Go map: a later hook of the same name would replace
   an earlier one): a look-up leads to the file at that relative path and to no other; every
   loaded hook is found under its name; when Init succeeds every discovered file is found
   under its relative path - the index holds every discovered hook *)
Theorem C20_index_holds_every_hook : forall parent root cs beh,
  (forall n p, index_get (hooks_by_name parent root cs beh) n = Some p -> p = working_dir parent root ++ slash :: n)
  /\ (forall n, In n (names (init parent root cs beh)) ->
        index_get (hooks_by_name parent root cs beh) n = Some (working_dir parent root ++ slash :: n))
  /\ (result (init parent root cs beh) = InitOk ->
        forall p, In p (get_executable_paths parent root cs) ->
        index_get (hooks_by_name parent root cs beh) (rel (working_dir parent root) p) = Some p).
Proof. exact index_holds_every_hook. Qed.
Print Assumptions C20_index_holds_every_hook.

(* non-vacuity of the naming theorems: the stock layout HOOKS_DIR=/hooks with a nested
   directory also called hooks, next to a file whose name is what is left when the text
   "/hooks/" is cut out of the nested path a second time:
       /hooks/001-mod/hooks/start.sh   ->  001-mod/hooks/start.sh
       /hooks/001-modstart.sh          ->  001-modstart.sh
   two hooks, two names, both in the index *)
Definition b_hooks : bytes := [104; 111; 111; 107; 115].                                     (* hooks *)
Definition b_mod : bytes := [48; 48; 49; 45; 109; 111; 100].                                 (* 001-mod *)
Definition b_start : bytes := [115; 116; 97; 114; 116; 46; 115; 104].                        (* start.sh *)
Definition ex_nested : list tree :=
  [Dir b_mod [Dir b_hooks [File b_start 493]]; File (b_mod ++ b_start) 493].
Example C20_nested_hooks_dir :
  wf_children ex_nested = true
  /\ get_executable_paths [] b_hooks ex_nested
     = [47 :: b_hooks ++ 47 :: b_mod ++ 47 :: b_hooks ++ 47 :: b_start; 47 :: b_hooks ++ 47 :: b_mod ++ b_start]
  /\ discover [] b_hooks ex_nested = [b_mod ++ 47 :: b_hooks ++ 47 :: b_start; b_mod ++ b_start]
  /\ result (init [] b_hooks ex_nested (fun _ => BOk)) = InitOk
  /\ index_get (hooks_by_name [] b_hooks ex_nested (fun _ => BOk)) (b_mod ++ b_start)
     = Some (47 :: b_hooks ++ 47 :: b_mod ++ b_start)
  /\ index_get (hooks_by_name [] b_hooks ex_nested (fun _ => BOk)) (b_mod ++ 47 :: b_hooks ++ 47 :: b_start)
     = Some (47 :: b_hooks ++ 47 :: b_mod ++ 47 :: b_hooks ++ 47 :: b_start).
Proof. repeat split; vm_compute; reflexivity. Qed.

(* non-vacuity: a non-trivial tree meets wf_children, has hooks and non-hooks, and a
   scenario meets the hypotheses of C20_first_failure_named *)
Definition ex_tree : list tree :=
  [Dir [97] [File [98] 493];                       (* a/b            0755 *)
   File [97; 46; 115; 104] 493;                    (* a.sh           0755 *)
   File [99; 46; 109; 100] 493;                    (* c.md           0755 *)
   Dir [108; 105; 98] [File [122] 493];            (* lib/z          0755 *)
   File [100] 420].                                (* d              0644 *)
Definition ex_beh (n : bytes) : behaviour := if bytes_eqb n [97; 47; 98] then BInvalid else BOk.

Example C20_hyp_met :
  wf_children ex_tree = true
  /\ discover [47; 119] [108; 105; 98] ex_tree = [[97; 46; 115; 104]; [97; 47; 98]]     (* a.sh, a/b — under a root named lib *)
  /\ sorted_paths [47; 119] [104] ex_tree = [[47;119;47;104;47;97;46;115;104]] ++ [47;119;47;104;47;97;47;98] :: []
  /\ ex_beh (rel (working_dir [47; 119] [104]) [47;119;47;104;47;97;46;115;104]) = BOk
  /\ ex_beh (rel (working_dir [47; 119] [104]) [47;119;47;104;47;97;47;98]) <> BOk
  /\ result (init [47; 119] [104] ex_tree ex_beh) = ErrCreating [97; 47; 98].
Proof. repeat split; try (vm_compute; reflexivity). vm_compute. discriminate. Qed.

(* ==================================================================== *)
(* part 3: the file-name rule, character by character                    *)
(* ==================================================================== *)

(* the model's filepath.Ext (a scan from the end of the name) yields the suffix from the LAST
   dot of the name - for every name that is a single path element *)
Theorem C20_ext_is_last_dot_suffix : forall n, ~ In slash n -> ext n = last_dot_suffix n.
Proof. exact ext_last_dot. Qed.
Print Assumptions C20_ext_is_last_dot_suffix.

(* ... and that suffix is: empty for a name without a dot; otherwise the name is pre ++ "." ++ s
   with no dot in s, and the extension is "." ++ s *)
Theorem C20_last_dot_suffix_spec : forall n,
  (~ In dot n /\ last_dot_suffix n = [])
  \/ exists pre s, n = pre ++ dot :: s /\ ~ In dot s /\ last_dot_suffix n = dot :: s.
Proof. exact last_dot_suffix_spec. Qed.
Print Assumptions C20_last_dot_suffix_spec.

(* "the name ends in .yaml, .json, .md or .txt" and "the extension of the name is .yaml, .json,
   .md or .txt" are the same condition, on every byte string *)
Theorem C20_two_readings_agree : forall n, excluded_ending n = has_excluded_extension n.
Proof. exact excluded_ending_extension. Qed.
Print Assumptions C20_two_readings_agree.

(* exactly which names checkExecutableHookFile reports as "file has wrong extension": those
   that do not start with a dot and are pre ++ e for one of the four extensions e (pre may be
   anything, also empty - but then the name starts with a dot) - equivalently those whose
   extension is one of the four.  Nothing else: no case folding, no other separator. *)
Theorem C20_excluded_names : forall n m,
  (check_executable_hook_file n m = Some ErrFileHasWrongExtension
     <-> hidden n = false /\ exists pre e, In e excluded_exts /\ n = pre ++ e)
  /\ (check_executable_hook_file n m = Some ErrFileHasWrongExtension
     <-> hidden n = false /\ In (last_dot_suffix n) excluded_exts).
Proof. exact excluded_names. Qed.
Print Assumptions C20_excluded_names.

(* a file passes the check iff it carries an execute bit, its name does not start with a dot and
   does not end in one of the four extensions *)
Theorem C20_file_rule : forall n m,
  check_executable_hook_file n m = None
  <-> has_exec_bit m = true /\ hidden n = false
      /\ ~ (exists pre e, In e excluded_exts /\ n = pre ++ e).
Proof. exact file_rule. Qed.
Print Assumptions C20_file_rule.

(* the letters yaml / json / md / txt at the end of a name exclude it only when the character
   in front of them is the dot itself: with ANY other character c there (and anything before
   it) the name is not excluded - cmd, to_json, dump-yaml, ctxt, 001-restart-systemd *)
Theorem C20_letters_need_the_dot : forall pre c l,
  In l ext_letters -> excluded_ending (pre ++ c :: l) = N.eqb c dot.
Proof. exact letters_need_the_dot. Qed.
Print Assumptions C20_letters_need_the_dot.

(* ... and the bare words yaml, json, md, txt are ordinary names *)
Theorem C20_bare_letters_are_a_name : forall l,
  In l ext_letters -> excluded_ending l = false /\ hidden l = false.
Proof. exact bare_letters_not_excluded. Qed.
Print Assumptions C20_bare_letters_are_a_name.

(* anything without a dot behind one of the extensions (a.yamlx, a.md~, a.json5) makes the
   name an ordinary one *)
Theorem C20_suffix_after_extension : forall pre e s,
  In e excluded_exts -> s <> [] -> ~ In dot s -> excluded_ending (pre ++ e ++ s) = false.
Proof. exact suffix_after_extension. Qed.
Print Assumptions C20_suffix_after_extension.

(* through discovery: a file directly in the hooks directory is discovered (under its own
   name) iff the rule on its name and its mode says so *)
Theorem C20_top_level_file_rule : forall parent root cs n m,
  wf_children cs = true -> In (File n m) cs ->
  (In n (discover parent root cs) <-> file_ok n m = true).
Proof. exact top_level_file_rule. Qed.
Print Assumptions C20_top_level_file_rule.

(* file by file: every file of the tree occurs among the discovered paths exactly once when it
   meets the conditions of the statement and never otherwise; a file that is not a hook is
   never run with --config, a hook exactly once when Init succeeds, at most once when it fails *)
Theorem C20_model_satisfies_P_files : forall i,
  wf_children (i_children i) = true -> P_files i (model_of i) = true.
Proof. exact P_files_model. Qed.
Print Assumptions C20_model_satisfies_P_files.

(* non-vacuity, and the rule at work on the names of the task: one flat hooks directory (all
   files 0755) - the hooks are exactly the names without one of the four extensions that do
   not start with a dot *)
Definition ex_names : list tree := map (fun n => File n 493)
  [ [116;111;95;106;115;111;110];                         (* to_json       hook *)
    [99;109;100];                                         (* cmd           hook *)
    [100;117;109;112;45;121;97;109;108];                  (* dump-yaml     hook *)
    [99;116;120;116];                                     (* ctxt          hook *)
    [120;121;97;109;108];                                 (* xyaml         hook *)
    [97;46;121;97;109;108;120];                           (* a.yamlx       hook *)
    [46;121;97;109;108];                                  (* .yaml         hidden *)
    [97;46;89;65;77;76];                                  (* a.YAML        hook *)
    [97;46;121;97;109;108;46;115;104];                    (* a.yaml.sh     hook *)
    [121;97;109;108];                                     (* yaml          hook *)
    [109;100];                                            (* md            hook *)
    [97;46;121;97;109;108];                               (* a.yaml        excluded *)
    [97;46;115;104;46;109;100];                           (* a.sh.md       excluded *)
    [98;46;106;115;111;110];                              (* b.json        excluded *)
    [110;46;116;120;116] ].                               (* n.txt         excluded *)
Example C20_names_of_the_task :
  wf_children ex_names = true
  /\ discover [47; 119] [104] ex_names
     = sort_strings [ [116;111;95;106;115;111;110]; [99;109;100]; [100;117;109;112;45;121;97;109;108]; [99;116;120;116];
                      [120;121;97;109;108]; [97;46;121;97;109;108;120]; [97;46;89;65;77;76];
                      [97;46;121;97;109;108;46;115;104]; [121;97;109;108]; [109;100] ]
  /\ map (fun t => check_executable_hook_file (tree_name t) 493) (skipn 11 ex_names)
     = [Some ErrFileHasWrongExtension; Some ErrFileHasWrongExtension; Some ErrFileHasWrongExtension; Some ErrFileHasWrongExtension]
  /\ check_executable_hook_file [46;121;97;109;108] 493 = Some ErrFileIsHidden
  /\ P_files (mkInput [47; 119] [104] ex_names [] true) (model_of (mkInput [47; 119] [104] ex_names [] true)) = true.
Proof. repeat split; vm_compute; reflexivity. Qed.

(* ==================================================================== *)
(* part 4: the KIND of an entry (regular file, directory, symbolic link, FIFO)   *)
(* ==================================================================== *)

(* the files the walk sees are the non-directory entries of the on-disk tree, one for one and in
   the same order, each with the mode Lstat reports for its kind (a link: Lrwxrwxrwx, never
   followed, never descended into) *)
Theorem C20_walk_sees_lstat : forall xs,
  all_files (map lstat xs) = map lstat_entry (all_xfiles xs).
Proof. exact all_files_lstat. Qed.
Print Assumptions C20_walk_sees_lstat.

(* discovery entry by entry, for every kind: the entry's relative path is among the hooks iff the
   entry meets the conditions of the statement with the permission bits it carries itself *)
Theorem C20_discovery_by_kind : forall parent root xs e,
  wf_children (map lstat xs) = true -> In e (all_xfiles xs) ->
  (In (xentry_path e) (discover parent root (map lstat xs)) <-> xentry_is_hook e = true).
Proof. exact discovery_by_kind. Qed.
Print Assumptions C20_discovery_by_kind.

(* a symbolic link is a hook iff its own name and its place allow it - whatever it points to
   (a script under lib or in a hidden directory, a directory, nothing, a file without execute bits) *)
Theorem C20_link_is_hook_whatever_target : forall anc n t,
  xentry_is_hook (anc, n, KSymlink t)
  = negb (hidden n) && negb (excluded_ending n)
    && forallb (fun d => negb (named_lib d) && negb (hidden d)) anc.
Proof. exact link_is_hook. Qed.
Print Assumptions C20_link_is_hook_whatever_target.

(* a regular file and a FIFO: the execute bits of the entry's own mode decide *)
Theorem C20_file_or_fifo_is_hook : forall anc n m,
  xentry_is_hook (anc, n, KRegular m) = xentry_is_hook (anc, n, KFifo m)
  /\ (xentry_is_hook (anc, n, KRegular m) = true <->
      has_exec_bit m = true /\ hidden n = false /\ excluded_ending n = false
      /\ forallb (fun d => negb (named_lib d) && negb (hidden d)) anc = true).
Proof. exact file_is_hook. Qed.
Print Assumptions C20_file_or_fifo_is_hook.

(* a hook of any kind whose --config run fails or prints an invalid configuration makes Init
   fail - in particular a linked hook whose target fails, and a link that cannot be run at all *)
Theorem C20_bad_hook_fails_init : forall xi e,
  wf_children (map lstat (x_children xi)) = true -> In e (all_xfiles (x_children xi)) ->
  xentry_is_hook e = true -> bad_code (run_code xi e) = true ->
  result (init (x_parent xi) (x_root xi) (map lstat (x_children xi)) (beh_of (to_input xi))) <> InitOk.
Proof. exact bad_hook_fails_init. Qed.
Print Assumptions C20_bad_hook_fails_init.

(* the whole predicate on on-disk trees (P and P_files on what the walk sees + the clauses by kind) *)
Theorem C20_model_satisfies_PX : forall xi,
  wf_children (map lstat (x_children xi)) = true -> PX xi (model_of (to_input xi)) = true.
Proof. exact PX_model. Qed.
Print Assumptions C20_model_satisfies_PX.

(* non-vacuity: a ConfigMap-like / multi-call layout
     001-x.sh -> lib/multicall.sh (valid)      hook
     002.sh   regular 0755                      hook
     mod/h.sh -> ../..data/h.sh (run fails)     hook, makes Init fail
     lib/multicall.sh, ..data/h.sh              excluded places
     lib/l -> (valid script)                    link below lib: not a hook
     d -> directory, z -> nothing               hooks that cannot be run (here after the failing one)
     p  FIFO 0644                               not a hook
     README.md -> valid script                  excluded name *)
Definition b_sh (x : N) : bytes := [x; 46; 115; 104].
Definition ex_kinds : list xtree :=
  [ XLink (48 :: 48 :: 49 :: 45 :: b_sh 120) (TFile 493 0);
    XFile (48 :: 48 :: 50 :: b_sh 120) 493;
    XDir [109; 111; 100] [XLink (b_sh 104) (TFile 493 1)];
    XDir [108; 105; 98] [XFile [109] 493; XLink [108] (TFile 493 0)];
    XDir [46; 46; 100] [XFile (b_sh 104) 493];
    XLink [110] TDir; XLink [122] TDangling; XFifo [112] 420;
    XLink [82; 46; 109; 100] (TFile 493 0) ].
Definition ex_kinds_input : xinput := mkXInput [47; 119] [104] ex_kinds [] true.
Example C20_kinds_hyp_met :
  wf_children (map lstat ex_kinds) = true
  /\ discover [47; 119] [104] (map lstat ex_kinds)
     = [48 :: 48 :: 49 :: 45 :: b_sh 120; 48 :: 48 :: 50 :: b_sh 120; [109; 111; 100; 47] ++ b_sh 104; [110]; [122]]
  /\ In ([[109; 111; 100]], b_sh 104, KSymlink (TFile 493 1)) (all_xfiles ex_kinds)
  /\ xentry_is_hook ([[109; 111; 100]], b_sh 104, KSymlink (TFile 493 1)) = true
  /\ bad_code (run_code ex_kinds_input ([[109; 111; 100]], b_sh 104, KSymlink (TFile 493 1))) = true
  /\ result (init [47; 119] [104] (map lstat ex_kinds) (beh_of (to_input ex_kinds_input)))
     = ErrGetConfig ([47; 119; 47; 104; 47; 109; 111; 100; 47] ++ b_sh 104)
  /\ PX ex_kinds_input (model_of (to_input ex_kinds_input)) = true.
Proof. repeat split; try (vm_compute; reflexivity). vm_compute. tauto. Qed.

(* ==================================================================== *)
(* part 5: WHAT a valid configuration declares does not matter for the hook set   *)
(* ==================================================================== *)

(* the list of names and the by-name index of the registry are those of the plain --config round
   (C20_config_once, C20_index_holds_every_hook speak about them) for EVERY assignment cfg of
   configurations to hooks - so two assignments give the same hook set *)
Theorem C20_hook_set_whatever_the_configs : forall parent root cs beh cfg,
  rg_names (registry_of parent root cs beh cfg) = names (init parent root cs beh)
  /\ rg_by_name (registry_of parent root cs beh cfg) = hooks_by_name parent root cs beh.
Proof. exact registry_names_by_name. Qed.
Print Assumptions C20_hook_set_whatever_the_configs.

(* after a successful Init the registered names are exactly the discovered executables (as a list,
   so in lexical order too); a name is found in the by-name index iff it is a discovered file, and
   every discovered file is found under its relative path - for all trees, all configurations *)
Theorem C20_hook_set_is_discovery : forall parent root cs beh cfg,
  result (init parent root cs beh) = InitOk ->
  rg_names (registry_of parent root cs beh cfg) = discover parent root cs
  /\ (forall n, In n (discover parent root cs) <->
                exists p, index_get (rg_by_name (registry_of parent root cs beh cfg)) n = Some p)
  /\ (forall p, In p (get_executable_paths parent root cs) ->
        index_get (rg_by_name (registry_of parent root cs beh cfg)) (rel (working_dir parent root) p) = Some p).
Proof. exact hook_set_is_discovery. Qed.
Print Assumptions C20_hook_set_is_discovery.

(* the index by binding type after a successful Init: exactly the discovered hooks whose
   configuration declares the type, in load order *)
Theorem C20_binding_index : forall parent root cs beh cfg b,
  result (init parent root cs beh) = InitOk ->
  rg_in_order (registry_of parent root cs beh cfg) b
  = filter (fun n => has_binding (cfg n) b) (discover parent root cs).
Proof. exact binding_index. Qed.
Print Assumptions C20_binding_index.

(* at any time (also when Init fails half-way): a hook listed under a binding type is in the hook set *)
Theorem C20_bound_hook_is_in_the_set : forall parent root cs beh cfg b n,
  In n (rg_in_order (registry_of parent root cs beh cfg) b) -> In n (rg_names (registry_of parent root cs beh cfg)).
Proof. exact in_order_subset_of_names. Qed.
Print Assumptions C20_bound_hook_is_in_the_set.

(* a discovered hook whose valid configuration declares NO binding is listed under no binding type
   and is a member of the hook set, found under its name and bound to its own file *)
Theorem C20_no_binding_still_a_hook : forall parent root cs beh cfg n,
  result (init parent root cs beh) = InitOk ->
  In n (discover parent root cs) -> cfg n = [] ->
  (forall b, ~ In n (rg_in_order (registry_of parent root cs beh cfg) b))
  /\ In n (rg_names (registry_of parent root cs beh cfg))
  /\ index_get (rg_by_name (registry_of parent root cs beh cfg)) n = Some (working_dir parent root ++ slash :: n).
Proof. exact no_binding_still_a_hook. Qed.
Print Assumptions C20_no_binding_still_a_hook.

(* the whole predicate, with the clause that judges GetHookNames / GetHook against the discovery
   file by file without looking at the configurations *)
Theorem C20_model_satisfies_PC : forall xi,
  wf_children (map lstat (x_children xi)) = true -> PC xi (model_of (to_input xi)) = true.
Proof. exact PC_model. Qed.
Print Assumptions C20_model_satisfies_PC.

(* non-vacuity: the layout of the demonstration
     001-startup.sh    onStartup               (no entry: the default shape)
     sub/idle.sh       configVersion + settings only: NO binding   (code 11 = shape 1)
     zzz-schedule.sh   one schedule binding                       (code 15 = shape 5)
   Init succeeds, all three are hooks, sub/idle.sh is under no binding type *)
Definition b_idle : bytes := [115; 117; 98; 47; 105; 100; 108; 101; 46; 115; 104].          (* sub/idle.sh *)
Definition b_startup : bytes := [48; 48; 49; 45; 115; 116; 97; 114; 116; 117; 112; 46; 115; 104].
Definition b_zzz : bytes := [122; 122; 122; 45; 115; 99; 104; 101; 100; 117; 108; 101; 46; 115; 104].
Definition ex_cfg_input : xinput :=
  mkXInput [47; 119] [104]
    [XFile b_startup 493; XDir [115; 117; 98] [XFile [105; 100; 108; 101; 46; 115; 104] 493]; XFile b_zzz 493]
    [(b_idle, 11); (b_zzz, 15)] true.
Example C20_configs_hyp_met :
  let i := to_input ex_cfg_input in
  wf_children (i_children i) = true
  /\ result (init (i_parent i) (i_root i) (i_children i) (beh_of i)) = InitOk
  /\ discover (i_parent i) (i_root i) (i_children i) = [b_startup; b_idle; b_zzz]
  /\ cfg_of i b_idle = [] /\ cfg_of i b_zzz = [BSchedule] /\ cfg_of i b_startup = [BOnStartup]
  /\ rg_names (registry_of_input i) = [b_startup; b_idle; b_zzz]
  /\ bound_obs_of i = [[b_startup]; [b_zzz]; []; []; []; []]
  /\ PC ex_cfg_input (model_of i) = true.
Proof. cbv zeta. repeat split; vm_compute; reflexivity. Qed.
