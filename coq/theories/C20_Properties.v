(* C20_Properties.v — the property theorems of C20 and nothing else.

   Full statement (every tree a file system can hold, every --config scenario):
     C20_model_satisfies_P : P i (model_of i) = true
   proved at full strength — no trigger predicate: the one defect found on the
   unchanged tree (F10: a hooks directory itself named `lib` or hidden yielded no
   hooks) was repaired in /repo and the model follows the repaired code.
   The only hypothesis is wf_children: names are non-empty single path elements and
   the entries of one directory have distinct names — what a file system guarantees.
   It is needed for "duplicate-free" only; C20_discover_iff and C20_sorted need nothing. *)
From Coq Require Import Sorted.
From Verif Require Import Common C20_Model C20_Spec C20_Corr C20_Proofs.
Local Open Scope N_scope.

(* the discovered hooks are exactly the files meeting the conditions of the statement *)
Theorem C20_discover_iff : forall parent root cs p,
  In p (discover parent root cs) <-> is_hook cs p.
Proof. exact discover_iff. Qed.
Print Assumptions C20_discover_iff.

(* hooks are loaded in lexical (bytewise) order of their relative paths: no element is
   greater than a later one — for every tree whatsoever *)
Theorem C20_sorted : forall parent root cs,
  StronglySorted (fun a b => bytes_ltb b a = false) (discover parent root cs).
Proof. exact discover_sorted. Qed.
Print Assumptions C20_sorted.

(* ... strictly increasing and duplicate-free on file-system trees *)
Theorem C20_sorted_nodup : forall parent root cs,
  wf_children cs = true ->
  StronglySorted (fun a b => bytes_ltb a b = true) (discover parent root cs)
  /\ NoDup (discover parent root cs).
Proof. exact discover_sorted_nodup. Qed.
Print Assumptions C20_sorted_nodup.

(* --config: the executions are an initial segment of the sorted paths (so each file is
   asked at most once, in order); when Init succeeds every discovered file was asked,
   the loaded hook names are the discovered ones, and nobody misbehaved *)
Theorem C20_config_once : forall parent root cs beh,
  (exists rest, sorted_paths parent root cs = asked (init parent root cs beh) ++ rest)
  /\ (result (init parent root cs beh) = InitOk ->
        asked (init parent root cs beh) = sorted_paths parent root cs
        /\ names (init parent root cs beh) = discover parent root cs
        /\ (forall n, In n (discover parent root cs) -> beh n = BOk))
  /\ (wf_children cs = true -> NoDup (asked (init parent root cs beh))).
Proof. exact config_once. Qed.
Print Assumptions C20_config_once.

(* the first hook (in load order) whose --config run fails or prints an invalid
   configuration makes Init fail, right after asking it, with an error naming it *)
Theorem C20_first_failure_named : forall parent root cs beh pre h post,
  sorted_paths parent root cs = pre ++ h :: post ->
  (forall p, In p pre -> beh (rel (working_dir parent root) p) = BOk) ->
  beh (rel (working_dir parent root) h) <> BOk ->
  asked (init parent root cs beh) = pre ++ [h]
  /\ names (init parent root cs beh) = map (rel (working_dir parent root)) pre
  /\ result (init parent root cs beh) <> InitOk
  /\ (result (init parent root cs beh) = ErrGetConfig h
      \/ result (init parent root cs beh) = ErrCreating (rel (working_dir parent root) h)).
Proof. exact init_first_failure. Qed.
Print Assumptions C20_first_failure_named.

(* the observable predicate of C20_Spec holds of the model's observation *)
Theorem C20_model_satisfies_P : forall i,
  wf_children (i_children i) = true -> P i (model_of i) = true.
Proof. exact P_model. Qed.
Print Assumptions C20_model_satisfies_P.

(* non-vacuity: a non-trivial tree meets wf_children, has hooks and non-hooks, and a
   scenario meets the hypotheses of C20_first_failure_named *)
Definition ex_tree : list tree :=
  [Dir [97] [File [98] 493];                       (* a/b            0755 *)
   File [97; 46; 115; 104] 493;                    (* a.sh           0755 *)
   File [99; 46; 109; 100] 493;                    (* c.md           0755 *)
   Dir [108; 105; 98] [File [122] 493];            (* lib/z          0755 *)
   File [100] 420].                                (* d              0644 *)
Definition ex_beh (n : bytes) : behaviour := if bytes_eqb n [97; 47; 98] then BInvalid else BOk.

Example C20_hyp_met :
  wf_children ex_tree = true
  /\ discover [47; 119] [108; 105; 98] ex_tree = [[97; 46; 115; 104]; [97; 47; 98]]     (* a.sh, a/b — under a root named lib *)
  /\ sorted_paths [47; 119] [104] ex_tree = [[47;119;47;104;47;97;46;115;104]] ++ [47;119;47;104;47;97;47;98] :: []
  /\ ex_beh (rel (working_dir [47; 119] [104]) [47;119;47;104;47;97;46;115;104]) = BOk
  /\ ex_beh (rel (working_dir [47; 119] [104]) [47;119;47;104;47;97;47;98]) <> BOk
  /\ result (init [47; 119] [104] ex_tree ex_beh) = ErrCreating [97; 47; 98].
Proof. repeat split; try (vm_compute; reflexivity). vm_compute. discriminate. Qed.
