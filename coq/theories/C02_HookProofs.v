(* C02_HookProofs.v — proofs for C02_Hook / C02_HookSpec *)
From Verif Require Import Common C02_Model C02_Spec C02_Proofs C02_Hook C02_HookSpec.
Open Scope N_scope.

Lemma btype_eqb_eq a b : btype_eqb a b = true <-> a = b.
Proof. destruct a, b; simpl; split; intros H; try reflexivity; try discriminate. Qed.

Lemma btype_eqb_refl a : btype_eqb a a = true.
Proof. now destruct a. Qed.

Lemma hb_is_eq t n b : hb_is t n b = true <-> hb_type b = t /\ hb_name b = n.
Proof.
  unfold hb_is. rewrite Bool.andb_true_iff, btype_eqb_eq, N.eqb_eq. reflexivity.
Qed.

(* ---- MergeArrays ---- *)
Lemma merge_new_in x : forall a2 seen, In x (merge_new seen a2) <-> In x a2 /\ ~ In x seen.
Proof.
  induction a2 as [|y r IH]; intros seen; simpl.
  - intuition.
  - destruct (mem_N y seen) eqn:M.
    + apply mem_N_In in M. rewrite IH. split.
      * intros [H1 H2]. split; [now right | exact H2].
      * intros [[H1|H1] H2]; [subst; contradiction | split; assumption].
    + assert (Hn : ~ In y seen) by (intros H; apply mem_N_In in H; congruence).
      simpl. rewrite IH. simpl. split.
      * intros [H|[H1 H2]]; [subst; split; [now left | exact Hn] |].
        split; [now right | intros H; apply H2; now right].
      * intros [[H1|H1] H2]; [now left |].
        destruct (N.eq_dec y x) as [E|E]; [now left | right].
        split; [exact H1 | intros [H|H]; [contradiction | contradiction]].
Qed.

Lemma merge_arrays_in x a1 a2 : In x (merge_arrays a1 a2) <-> In x a1 \/ In x a2.
Proof.
  unfold merge_arrays. rewrite in_app_iff, merge_new_in. split.
  - intros [H|[H _]]; [now left | now right].
  - intros [H|H]; [now left |].
    destruct (in_dec N.eq_dec x a1) as [Hi|Hi]; [now left | right; split; assumption].
Qed.

(* ---- the loaded configuration keeps types and names ---- *)
Lemma find_load bs0 t n : forall bs,
  find (hb_is t n) (map (fun b => mkHB (hb_type b) (hb_name b) (effective bs0 b) (hb_group b)) bs)
  = option_map (fun b => mkHB (hb_type b) (hb_name b) (effective bs0 b) (hb_group b)) (find (hb_is t n) bs).
Proof.
  induction bs as [|b r IH]; [reflexivity|]. cbn [map find].
  change (hb_is t n (mkHB (hb_type b) (hb_name b) (effective bs0 b) (hb_group b))) with (hb_is t n b).
  destruct (hb_is t n b); [reflexivity | exact IH].
Qed.

Lemma existsb_load bs0 t n : forall bs,
  existsb (hb_is t n) (map (fun b => mkHB (hb_type b) (hb_name b) (effective bs0 b) (hb_group b)) bs)
  = existsb (hb_is t n) bs.
Proof.
  induction bs as [|b r IH]; [reflexivity|]. cbn [map existsb].
  change (hb_is t n (mkHB (hb_type b) (hb_name b) (effective bs0 b) (hb_group b))) with (hb_is t n b).
  now rewrite IH.
Qed.

Lemma shows_load bs n : shows (load_config bs) n = shows bs n.
Proof. unfold shows, load_config. now rewrite existsb_load. Qed.

(* the effective list is a function of the binding's type and name (and of the configuration) *)
Lemma get_includes_load bs t n :
  get_includes (load_config bs) t n
  = match find (hb_is t n) bs with Some b => effective bs b | None => [] end.
Proof.
  unfold get_includes, load_config. rewrite find_load. now destruct (find (hb_is t n) bs).
Qed.

(* ---- unique names within a type: the first binding is the only one ---- *)
Lemma existsb_false_filter {A} (p : A -> bool) l : existsb p l = false -> filter p l = [].
Proof.
  induction l as [|a r IH]; [reflexivity|]. simpl. destruct (p a); simpl; [discriminate | exact IH].
Qed.

Lemma nodup_find_filter t n : forall bs b,
  nodup_hb bs = true -> find (hb_is t n) bs = Some b -> filter (hb_is t n) bs = [b].
Proof.
  induction bs as [|a r IH]; intros b Hn Hf; [discriminate|].
  cbn [nodup_hb] in Hn. apply Bool.andb_true_iff in Hn as [Hn1 Hn2]. apply Bool.negb_true_iff in Hn1.
  cbn [find filter] in *. destruct (hb_is t n a) eqn:Ea.
  - inversion Hf; subst a. apply hb_is_eq in Ea as [E1 E2]. rewrite E1, E2 in Hn1.
    now rewrite (existsb_false_filter _ _ Hn1).
  - apply IH; assumption.
Qed.

Lemma find_none_filter {A} (p : A -> bool) l : find p l = None -> filter p l = [].
Proof.
  induction l as [|a r IH]; [reflexivity|]. simpl. destruct (p a); [discriminate | exact IH].
Qed.

(* ---- the snapshots map of one context ---- *)
Lemma snaps_of_spec cfg inc : forall m,
  ssorted m -> (forall k v, In (k, v) m -> v = shows cfg k) ->
  let m' := fold_left (fun m k => set_kv k (shows cfg k) m) inc m in
  ssorted m' /\ (forall k v, In (k, v) m' -> v = shows cfg k)
  /\ (forall k, In k (map fst m') <-> In k (map fst m) \/ In k inc).
Proof.
  induction inc as [|x r IH]; intros m Hs Hv; cbn [fold_left].
  - split; [exact Hs|]. split; [exact Hv|]. intros k. simpl. intuition.
  - assert (Hs' : ssorted (set_kv x (shows cfg x) m)) by (apply set_kv_sorted; exact Hs).
    assert (Hv' : forall k v, In (k, v) (set_kv x (shows cfg x) m) -> v = shows cfg k).
    { intros k v Hin. pose proof (ssorted_in_assoc _ Hs' k v Hin) as A.
      rewrite (set_kv_assoc x (shows cfg x) m Hs k) in A.
      destruct (N.eqb x k) eqn:E.
      - apply N.eqb_eq in E. subst k. now inversion A.
      - clear Hin. revert A. clear -Hs Hv. intros A.
        assert (Hin : In (k, v) m).
        { clear Hs Hv. induction m as [|[a b] m IHm]; [discriminate|]. simpl in A.
          destruct (N.eqb a k) eqn:Ea; [apply N.eqb_eq in Ea; subst; inversion A; now left | right; auto]. }
        now apply Hv. }
    destruct (IH _ Hs' Hv') as (A & B & C). split; [exact A|]. split; [exact B|].
    intros k. rewrite C, set_kv_keys. simpl. intuition.
Qed.

Lemma same_set_iff a b : (forall x, In x a <-> In x b) -> same_set a b = true.
Proof.
  intros H. unfold same_set. apply Bool.andb_true_iff. split; apply forallb_forall; intros x Hx;
    apply mem_N_In; apply H; exact Hx.
Qed.

Lemma NoDup_nodup_N l : NoDup l -> nodup_N l = true.
Proof.
  induction 1 as [|x l Hx Hn IH]; [reflexivity|]. simpl. rewrite IH, Bool.andb_true_r.
  apply Bool.negb_true_iff. destruct (mem_N x l) eqn:M; [apply mem_N_In in M; contradiction | reflexivity].
Qed.

Lemma group_members_kube bs g k : In k (group_members bs g) -> existsb (hb_is TKube k) bs = true.
Proof.
  unfold group_members. intros H. apply in_map_iff in H as [b [E Hb]]. apply filter_In in Hb as [Hb Hp].
  apply Bool.andb_true_iff in Hp as [Hp _]. apply existsb_exists. exists b. split; [exact Hb|].
  apply hb_is_eq. split; [now apply btype_eqb_eq | exact E].
Qed.

(* ---- event -> context ---- *)
Definition vm_ctx (bs : list hb) (c : hctx) : bool :=
  let '(t, n, _) := c in btype_eqb t TValid && existsb (hb_is TMut n) bs.

Lemma delivered_id bs c : vm_ctx bs c = false -> delivered (load_config bs) c = c.
Proof.
  destruct c as [[t n] sync]. unfold vm_ctx, delivered, load_config. rewrite existsb_load.
  destruct t; cbn [btype_eqb andb]; try reflexivity. now intros ->.
Qed.

(* ---- one context ---- *)
Lemma ctx_ok i c :
  nodup_hb (hk_bindings i) = true ->
  forallb (fun b => negb (N.eqb (hb_name b) 0) && forallb (fun k => existsb (hb_is TKube k) (hk_bindings i)) (hb_incl b)) (hk_bindings i) = true ->
  (let '(t, n, _) := c in existsb (hb_is t n) (hk_bindings i)) = true ->
  vm_ctx (hk_bindings i) c = false ->
  P_hk_ctx (hk_bindings i) c (hk_ctx_out (load_config (hk_bindings i)) c) = true.
Proof.
  set (bs := hk_bindings i). intros Hnd Hinc Hex Hvm. unfold hk_ctx_out. rewrite (delivered_id _ _ Hvm).
  destruct c as [[t n] sync].
  unfold upd_out, P_hk_ctx. cbn [fst snd].
  rewrite get_includes_load.
  apply existsb_exists in Hex as [b0 [Hb0 Hm0]].
  destruct (find (hb_is t n) bs) as [b|] eqn:Ef.
  2:{ pose proof (find_none _ _ Ef b0 Hb0) as C. congruence. }
  pose proof (find_some _ _ Ef) as [Hb Hm].
  assert (Hexp : expected_keys bs t n = hb_incl b ++ (if N.eqb (hb_group b) 0 then [] else kube_of_group bs (hb_group b))).
  { unfold expected_keys, the_bindings. rewrite (nodup_find_filter t n bs b Hnd Ef). simpl. now rewrite app_nil_r. }
  rewrite forallb_forall in Hinc. specialize (Hinc b Hb). apply Bool.andb_true_iff in Hinc as [Hnz Hik].
  rewrite forallb_forall in Hik.
  assert (Hkube : forall k, In k (effective bs b) -> shows (load_config bs) k = k).
  { intros k Hk. rewrite shows_load. unfold shows. unfold effective in Hk. apply merge_arrays_in in Hk as [Hk|Hk].
    - now rewrite (Hik k Hk).
    - destruct (N.eqb (hb_group b) 0); [destruct Hk|]. now rewrite (group_members_kube _ _ _ Hk). }
  pose proof (snaps_of_spec (load_config bs) (effective bs b) [] I (fun k v H => match H with end)) as S.
  cbn zeta in S. fold (snaps_of (load_config bs) (effective bs b)) in S. destruct S as (S1 & S2 & S3).
  assert (Hkeys : forall k, In k (map fst (snaps_of (load_config bs) (effective bs b))) <-> In k (effective bs b)).
  { intros k. rewrite S3. simpl. intuition. }
  apply Bool.andb_true_iff; split; [apply Bool.andb_true_iff; split; [apply Bool.andb_true_iff; split|]|].
  - apply same_set_iff. intros k. rewrite Hkeys, Hexp. unfold effective. rewrite merge_arrays_in, in_app_iff.
    unfold kube_of_group, group_members. reflexivity.
  - apply NoDup_nodup_N, ssorted_nodup, S1.
  - apply forallb_forall. intros [k v] Hin. cbn [fst snd]. apply N.eqb_eq.
    rewrite (S2 k v Hin). apply Hkube, Hkeys. apply in_map_iff. exists (k, v). split; [reflexivity | exact Hin].
  - apply N.eqb_eq. destruct (btype_eqb t TKube && sync) eqn:Ek; [|reflexivity].
    apply Bool.andb_true_iff in Ek as [Ek _]. apply btype_eqb_eq in Ek. subst t.
    rewrite shows_load. unfold shows.
    assert (E : existsb (hb_is TKube n) bs = true) by (apply existsb_exists; exists b; split; assumption).
    now rewrite E.
Qed.

(* ---- every execution of every process ---- *)
Lemma exec_ok i r :
  nodup_hb (hk_bindings i) = true ->
  forallb (fun b => negb (N.eqb (hb_name b) 0) && forallb (fun k => existsb (hb_is TKube k) (hk_bindings i)) (hb_incl b)) (hk_bindings i) = true ->
  forallb (fun c : hctx => let '(t, n, _) := c in existsb (hb_is t n) (hk_bindings i)) r = true ->
  existsb (vm_ctx (hk_bindings i)) r = false ->
  all2 (P_hk_ctx (hk_bindings i)) r (hk_exec (load_config (hk_bindings i)) r) = true
  /\ all2 (fun (c : hctx) ty => btype_eqb (fst (fst c)) ty) r
          (map (fun c => fst (fst (delivered (load_config (hk_bindings i)) c))) r) = true.
Proof.
  intros Hnd Hinc. induction r as [|c r IH]; intros Hr Hvm; [split; reflexivity|].
  cbn [forallb] in Hr. apply Bool.andb_true_iff in Hr as [Hc Hr].
  cbn [existsb] in Hvm. apply Bool.orb_false_iff in Hvm as [Hv Hvm].
  destruct (IH Hr Hvm) as [IH1 IH2].
  cbn [hk_exec map all2]. rewrite (ctx_ok i c Hnd Hinc Hc Hv). rewrite (delivered_id _ _ Hv), btype_eqb_refl.
  cbn [andb]. split; [exact IH1 | exact IH2].
Qed.

Theorem hook_keys_are_includes_plus_group i : hk_wf i = true -> T_vm i = false ->
  P_hk i (hk_run i) (hk_types i) false = true.
Proof.
  unfold hk_wf, P_hk, hk_run, hk_types, T_vm. intros H Hvm. apply Bool.andb_true_iff in H as [H Hr].
  apply Bool.andb_true_iff in H as [Hnd Hinc]. cbn [negb andb].
  change (fun c : hctx => let '(t, n, _) := c in btype_eqb t TValid && existsb (hb_is TMut n) (hk_bindings i))
    with (vm_ctx (hk_bindings i)) in Hvm.
  apply Bool.andb_true_iff.
  induction (hk_rounds i) as [|r rs IH]; [split; reflexivity|].
  cbn [forallb] in Hr. apply Bool.andb_true_iff in Hr as [Hr1 Hr2].
  cbn [existsb] in Hvm. apply Bool.orb_false_iff in Hvm as [Hv1 Hv2].
  destruct (exec_ok i r Hnd Hinc Hr1 Hv1) as [E1 E2]. destruct (IH Hr2 Hv2) as [I1 I2].
  cbn [hk_process map all2]. rewrite E1, E2. cbn [andb]. split; assumption.
Qed.

(* the exception: a validating and a mutating binding of one name *)
Theorem hook_vm_refuted : exists i, hk_wf i = true /\ T_vm i = true /\ P_hk i (hk_run i) (hk_types i) false = false.
Proof.
  exists (mkHkIn [mkHB TKube 1 [] 0; mkHB TKube 2 [] 0; mkHB TValid 3 [1] 0; mkHB TMut 3 [2] 0] [[(TValid, 3, false)]]).
  vm_compute. repeat split; reflexivity.
Qed.

(* ---- history independence: what an execution yields does not depend on the executions before
   (or after) it in the process ---- *)
Lemma hk_process_app cfg a b : hk_process cfg (a ++ b) = hk_process cfg a ++ hk_process cfg b.
Proof. induction a as [|r a IH]; [reflexivity|]. simpl. now rewrite IH. Qed.

Lemma hk_process_length cfg a : length (hk_process cfg a) = length a.
Proof. induction a as [|r a IH]; [reflexivity|]. simpl. now rewrite IH. Qed.

Theorem hook_history_independent bs pre r post :
  nth (length pre) (hk_run (mkHkIn bs (pre ++ r :: post))) [] = hk_exec (load_config bs) r
  /\ hk_run (mkHkIn bs [r]) = [hk_exec (load_config bs) r].
Proof.
  unfold hk_run. cbn [hk_bindings hk_rounds]. split; [|reflexivity].
  rewrite hk_process_app. rewrite app_nth2; rewrite hk_process_length; [|lia].
  now rewrite Nat.sub_diag.
Qed.

(* the list behind a context is a function of the binding's TYPE and name *)
Theorem hook_includes_by_type_and_name bs b :
  nodup_hb bs = true -> In b bs ->
  get_includes (load_config bs) (hb_type b) (hb_name b) = effective bs b.
Proof.
  intros Hnd Hb. rewrite get_includes_load.
  destruct (find (hb_is (hb_type b) (hb_name b)) bs) as [b'|] eqn:Ef.
  - pose proof (nodup_find_filter _ _ bs b' Hnd Ef) as F.
    assert (Hin : In b (filter (hb_is (hb_type b) (hb_name b)) bs)).
    { apply filter_In. split; [exact Hb|]. apply hb_is_eq. now split. }
    rewrite F in Hin. destruct Hin as [->|[]]. reflexivity.
  - pose proof (find_none _ _ Ef b Hb) as C.
    assert (hb_is (hb_type b) (hb_name b) b = true) by (apply hb_is_eq; now split). congruence.
Qed.
