(* C17_Locks.v — the LOCKS on the way of Shutdown().  operator.go Shutdown():
     ScheduleManager.Stop(); KubeEventsManager.PauseHandleEvents(); TaskQueues.Stop(); WaitStopWithTimeout
   reaches the queues (TaskQueues.Stop cancels their context) only after it has been through the
   read lock of the kube events manager (mgr.m) and takes the read lock of the queue set (tqs.m).
   "After shutdown has been requested no queue starts another task ... shutdown requested at
   every point of a run ... in the middle of a handler": a handler can be in the middle of ANYTHING,
   in particular of a call that does not return for a long time or at all (an API server that does
   not answer a LIST, a channel nobody reads, a hook process) - if such a call is made while one of
   these locks is held, Shutdown() waits behind it and the queues go on starting tasks.

   The PROGRAM below is not written by hand: the harness translates, on every run, the functions of
   the current source that take these locks (go/ast: harness/internal/c17/locks.go) into lists of
   operations in program order - calls to functions of the set inlined, deferred unlocks moved to
   the end, goroutine bodies left out - and hands the term over with every case of class CHang.
   This file gives it a semantics (threads running functions of the program in any interleaving,
   any thread may stop for ever at an operation that may block) and a decidable check; the theorem
   is in C17_LocksProofs.v.  No proofs here. *)
From Verif Require Import Common.
Open Scope N_scope.

Inductive lop :=
| LLock (l : N) | LRLock (l : N) | LUnlock (l : N) | LRUnlock (l : N)
| LBlock (what : N)       (* may never return: API call, channel operation, process, wait; also any
                             call the translator cannot classify *)
| LStep.                  (* anything that returns by itself: assignments, map operations, logging,
                             cancelling a context, starting a goroutine *)

Definition func := list lop.
Definition program := list (N * func).       (* function number -> its operations *)

(* ---- one thread: the locks it holds after a prefix of its operations ---- *)
Definition held := list (N * bool).          (* lock, write mode *)

Fixpoint remove_first (l : N) (w : bool) (h : held) : held :=
  match h with
  | [] => []
  | x :: r => if N.eqb (fst x) l && Bool.eqb (snd x) w then r else x :: remove_first l w r
  end.

Definition apply_op (h : held) (o : lop) : held :=
  match o with
  | LLock l => (l, true) :: h
  | LRLock l => (l, false) :: h
  | LUnlock l => remove_first l true h
  | LRUnlock l => remove_first l false h
  | LBlock _ | LStep => h
  end.

(* ---- the check: no operation that may block while a lock is held ---- *)
Definition is_block (o : lop) : bool := match o with LBlock _ => true | _ => false end.

Fixpoint func_ok (h : held) (f : func) : bool :=
  match f with
  | [] => true
  | o :: r => (if is_block o then match h with [] => true | _ => false end else true) && func_ok (apply_op h o) r
  end.
Definition lock_ok (p : program) : bool := forallb (fun nf => func_ok [] (snd nf)) p.

(* ---- the system: threads, each running one function of the program from its start ---- *)
Record thread := mkTh { th_done : list lop; th_rest : list lop }.     (* executed / still to do *)
Definition th_held (t : thread) : held := fold_left apply_op (th_done t) [].

Definition holds_w (l : N) (t : thread) : bool := existsb (fun x => N.eqb (fst x) l && snd x) (th_held t).
Definition holds_any (l : N) (t : thread) : bool := existsb (fun x => N.eqb (fst x) l) (th_held t).

(* may thread number i take its next step, given the others?  A blocking operation MAY proceed
   (and may equally stay for ever: nothing forces a step) *)
Definition others (i : nat) (ts : list thread) : list thread :=
  firstn i ts ++ skipn (S i) ts.
Definition enabled (i : nat) (ts : list thread) : bool :=
  match nth_error ts i with
  | Some t => match th_rest t with
              | LLock l :: _ => negb (existsb (holds_any l) (others i ts))
              | LRLock l :: _ => negb (existsb (holds_w l) (others i ts))
              | _ :: _ => true
              | [] => false
              end
  | None => false
  end.

Definition advance_thread (t : thread) : thread :=
  match th_rest t with
  | o :: r => mkTh (th_done t ++ [o]) r
  | [] => t
  end.

Fixpoint set_nth {A} (i : nat) (x : A) (l : list A) : list A :=
  match i, l with
  | O, _ :: r => x :: r
  | S j, y :: r => y :: set_nth j x r
  | _, [] => []
  end.

(* a schedule is a list of thread numbers; a thread that is not enabled does not move *)
Definition sys_step (ts : list thread) (i : nat) : list thread :=
  if enabled i ts then match nth_error ts i with Some t => set_nth i (advance_thread t) ts | None => ts end else ts.
Definition sys_run (ts : list thread) (sched : list nat) : list thread := fold_left sys_step sched ts.

Definition start (f : func) : thread := mkTh [] f.
Definition at_block (t : thread) : bool := match th_rest t with o :: _ => is_block o | [] => false end.
