(* C13_GSpec.v — the property C13 on clusters that serve a Kind in several API
   groups/versions and on sessions of several executions, as a decidable predicate over
   what the executions show.

   From the property text: "... are otherwise applied once each in document order, with
   the documented effect of each operation ...", over "all streams of operation
   documents ... against all initial cluster states", and from the documentation of the
   operation documents (docs/src/KUBERNETES.md): an operation addresses the object given
   by apiVersion, kind, namespace and name; "apiVersion - optional ... If not present,
   we'll use preferred apiVersion for the given kind".

   So: every document takes effect on exactly the object it NAMES - its own apiVersion
   when it has one, the preferred apiVersion of its kind (the first groupVersion in the
   cluster's discovery that serves the kind) when it has none - and every other object,
   in particular the object of the same kind, namespace and name in another group, is
   left as it was.  What a document names depends on the document and on the cluster's
   discovery, never on the documents or executions before it.  A document that names an
   apiVersion / kind the cluster does not serve cannot be applied: it reports an error
   and changes nothing (ignoreMissingObject is documented for a missing OBJECT, not for
   a kind the cluster does not know).

   The effect on the named object is C13_Spec's: [effect_create], deletion, [patched]. *)
From Verif Require Import Common Json C13_Model C13_Spec C13_GModel.

(* does the cluster serve [kind] in groupVersion [g]?  (the resource list of [g] holds it) *)
Definition serves (d : discovery) (g : gv) (kind : bytes) : bool :=
  match find (fun l => bytes_eqb g (fst l)) d with
  | Some l => has_kind kind (snd l)
  | None => false
  end.

(* the preferred groupVersion of a kind: the first one, in discovery order, that serves it *)
Definition preferred (d : discovery) (kind : bytes) : option gv :=
  option_map fst (find (fun l => has_kind kind (snd l)) d).

(* the groupVersion a document with these coordinates names; [None]: not served *)
Definition named_gv (d : discovery) (av kind : bytes) : option gv :=
  match av with
  | [] => preferred d kind
  | _ => if serves d av kind then Some av else None
  end.

(* the object a document names *)
Definition named_addr (d : discovery) (a : addr) : option key :=
  option_map (fun g => key_at g (a_kind a) (a_ns a) (a_name a)) (named_gv d (a_api a) (a_kind a)).

Definition named (d : discovery) (o : gop) : option key :=
  match o with
  | GCreate _ obj =>
    option_map (fun g => key_at g (obj_kind obj) (obj_ns obj) (obj_name obj)) (named_gv d (obj_api obj) (obj_kind obj))
  | GDelete _ a => named_addr d a
  | GPatch a _ _ _ => named_addr d a
  end.

(* documented effect of one operation *)
Definition geffect (d : discovery) (c : cluster) (o : gop) : cluster * option err :=
  match named d o with
  | None => (c, Some ENotServed)
  | Some k =>
    match o with
    | GCreate m obj => effect_create c m k obj
    | GDelete m _ => effect c (ODelete m k)
    | GPatch _ body sub im => effect c (OPatch k body sub im)
    end
  end.

Fixpoint geffects (d : discovery) (c : cluster) (os : list gop) : cluster * list err :=
  match os with
  | [] => (c, [])
  | o :: r =>
    let (c1, e) := geffect d c o in
    let (c2, es) := geffects d c1 r in
    (c2, opt_list e ++ es)
  end.

Definition gall_valid (ds : list gdoc) : bool :=
  forallb (fun x => match x with GDOp _ => true | GDBad => false end) ds.

Definition gops_of (ds : list gdoc) : list gop :=
  flat_map (fun x => match x with GDOp o => [o] | GDBad => [] end) ds.

(* one execution, as C13_Spec.P_run *)
Definition P_grun (proj : json -> json) (d : discovery) (c0 : cluster) (ds : list gdoc) (r : outcome) : bool :=
  if gall_valid ds then
    let (c1, es) := geffects d c0 (gops_of ds) in
    r_parse_ok r && cluster_sameb (view proj (r_cluster r)) (view proj c1) && list_eqb err_eqb (r_errors r) es
  else
    failed r && cluster_sameb (view proj (r_cluster r)) (view proj c0) && match r_calls r with [] => true | _ => false end.

(* the cluster an execution must leave *)
Definition cluster_after (d : discovery) (c0 : cluster) (ds : list gdoc) : cluster :=
  if gall_valid ds then fst (geffects d c0 (gops_of ds)) else c0.

(* a session: every execution meets P_grun from the cluster the executions before it must
   have left; nothing else of the past matters *)
Fixpoint P_gsession (proj : json -> json) (d : discovery) (c0 : cluster)
         (files : list (list gdoc)) (rs : list outcome) : bool :=
  match files, rs with
  | [], [] => true
  | f :: fs, r :: rs' => P_grun proj d c0 f r && P_gsession proj d (cluster_after d c0 f) fs rs'
  | _, _ => false
  end.

(* the same seen from outside the operator (C13_Spec.P_hook_run): per execution whether
   the hook run failed, its API calls, the cluster after it *)
Definition P_ghook_run (proj : json -> json) (d : discovery) (c0 : cluster) (ds : list gdoc)
           (run_failed : bool) (cl : cluster) (calls : list call) : bool :=
  if gall_valid ds then
    let (c1, es) := geffects d c0 (gops_of ds) in
    cluster_sameb (view proj cl) (view proj c1)
    && Bool.eqb run_failed (match es with [] => false | _ => true end)
  else
    run_failed && cluster_sameb (view proj cl) (view proj c0) && match calls with [] => true | _ => false end.

Fixpoint P_ghook_session (proj : json -> json) (d : discovery) (c0 : cluster)
         (files : list (list gdoc)) (rs : list (bool * cluster * list call)) : bool :=
  match files, rs with
  | [], [] => true
  | f :: fs, (failed_, cl, calls) :: rs' =>
    P_ghook_run proj d c0 f failed_ cl calls && P_ghook_session proj d (cluster_after d c0 f) fs rs'
  | _, _ => false
  end.
