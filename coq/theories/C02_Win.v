(* C02_Win.v — the START WINDOW of a monitor (resource_informer.go: createSharedInformer /
   loadExistedObjects, start, OnAdd; monitor.go: CreateInformers, Start).

   A binding is enabled in two steps (AddMonitor, StartMonitor - at the operator's start, at
   every restart, and for the namespaces a namespace.labelSelector binding finds in its initial
   namespace list):
     1. CreateInformers -> CreateInformersForNamespace -> createSharedInformer ->
        loadExistedObjects: LIST #1; every listed object of the informer's scope is filtered
        and stored in cachedObjects;
     2. Start -> resourceInformer.start: client-go's shared informer makes its own LIST #2 and
        reports every listed object through OnAdd(obj, isInInitialList = true) ->
        handleWatchEvent(Added), which REPLACES the cache entry of that object (and adds a new
        one); nothing is reported for an object of LIST #1 that LIST #2 no longer holds: its
        entry stays (the ghost, F26).  The WATCH starts at LIST #2: the changes after it are
        delivered one by one (Added / Modified replace or add the entry, Deleted removes it).
   Whatever happens to the cluster BETWEEN the two lists - objects modified (inside or outside
   what the jqFilter selects), deleted, deleted and re-created with other content, created,
   several of these - reaches the cache only through step 2.

   The history of a case: the cluster before the operator (wi_initial), what happened under a
   previous operator instance (wi_pre; wi_restart says the harness really ran one - it leaves
   nothing behind: a restart is a fresh monitor on the cluster as it is), LIST #1, the window
   (wi_window), LIST #2 + WATCH, the rest of the history (wi_after), quiescence.
   Static bindings (wi_dyn = false): wi_nss are the namespaces named by
   namespace.nameSelector ([] = all namespaces).  namespace.labelSelector bindings
   (wi_dyn = true): wi_nss are the namespaces carrying the label - throughout the case
   (namespaces changing their labels: C02_Model section 3); CreateInformers puts the informers
   of exactly these namespaces into VaryingInformers, Start starts them and then the namespace
   informer, whose own list reports the same namespaces ("ignore already started informers").
   No proofs here. *)
From Verif Require Import Common C02_Model.
Open Scope N_scope.

Record win_in := mkWinIn {
  wi_dyn : bool;
  wi_nss : list N;
  wi_names : list N;                       (* nameSelector.matchNames ([] = any name), may repeat *)
  wi_initial : list obj;
  wi_pre : list (okind * obj);
  wi_restart : bool;
  wi_window : list (okind * obj);          (* between LIST #1 and LIST #2 *)
  wi_after : list (okind * obj);           (* after LIST #2: delivered by the WATCH *)
  wi_filter : bool; wi_keep : bool
}.

(* the binding's configuration as a snap_in (scopes, shown) *)
Definition w_base (i : win_in) : snap_in :=
  mkSnapIn (wi_nss i) (wi_names i) (wi_initial i) (wi_pre i ++ wi_window i ++ wi_after i) None false
           (wi_filter i) (wi_keep i).

(* the cluster at LIST #1, at LIST #2 and at the end *)
Definition w_cluster0 (i : win_in) : list obj :=
  fold_left cl_apply (wi_pre i) (fold_left (fun c o => cl_set o c) (wi_initial i) []).
Definition w_cluster1 (i : win_in) : list obj := fold_left cl_apply (wi_window i) (w_cluster0 i).
Definition w_cluster2 (i : win_in) : list obj := fold_left cl_apply (wi_after i) (w_cluster1 i).

(* the informers: one per (namespace, name); a labelSelector binding without a labelled
   namespace has none (a static binding without namespaces has the all-namespaces ones) *)
Definition w_scopes (i : win_in) : list (option N * option N) :=
  match wi_nss i with
  | [] => if wi_dyn i then [] else scopes (w_base i)
  | _ => scopes (w_base i)
  end.

(* loadExistedObjects *)
Definition load_existed (s : option N * option N) (cl : list obj) : list obj := filter (in_scope s) cl.
(* the shared informer's initial list: OnAdd for every listed object of the scope *)
Definition initial_list (s : option N * option N) (cl : list obj) (cache : list obj) : list obj :=
  fold_left (fun c o => cl_set o c) (filter (in_scope s) cl) cache.
(* the watch: the changes of objects in the scope, in order *)
Definition watch (s : option N * option N) (ops : list (okind * obj)) (cache : list obj) : list obj :=
  fold_left cl_apply (filter (fun op => in_scope s (snd op)) ops) cache.

Definition w_cache (i : win_in) (s : option N * option N) : list obj :=
  watch s (wi_after i) (initial_list s (w_cluster1 i) (load_existed s (w_cluster0 i))).

(* Snapshot(): the caches, sorted *)
Definition w_caches (i : win_in) : list obj := flat_map (w_cache i) (w_scopes i).
Definition w_snapshot (i : win_in) : list obj := sort_objs (w_caches i).
Definition w_views (i : win_in) : list view := map (shown (w_base i)) (w_snapshot i).
