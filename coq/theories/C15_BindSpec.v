(* C15_BindSpec.v — C15_Spec part 4: the property for conversion bindings that carry further
   binding parameters (`group`, `includeSnapshotsFrom`), judged on WHAT EVERY EXECUTED HOOK READ.
   Written from the property text:

     "... a request to convert from version A to version B is served by a sequence of declared
      rules ...  The hooks are invoked in chain order, each receiving the previous output; the answer
      is Success with as many objects as were requested only if every step succeeded, otherwise it
      is Failed ..."

   The text does not mention the parameters a binding may carry besides its rules, so they give no
   licence for anything: whatever `group` / `includeSnapshotsFrom` a binding has (and whatever
   `kubernetes` / `schedule` bindings the hook has beside it), the hook of a step must be handed a
   CONVERSION REQUEST - the step's fromVersion and toVersion and, as the review's objects, the
   previous step's output (the request's objects for the first step) - and the hook that is run for a
   step is one that declared the step's rule.  What else the binding context carries (snapshots)
   is not the business of this property and is not judged (it is compared with the model).

   Only data types are shared with the model (hookcfg, cbinding, rendered, delivery). *)
From Verif Require Import Common C15_Model C15_Spec C15_BindModel.

(* the binding context, read as a conversion request: the rule it names and the objects it carries.
   (BINDING_CONVERSION.md: "type": "Conversion", "fromVersion", "toVersion", "review".) *)
Definition conversion_request (rc : rendered) : option invocation :=
  match r_type rc, r_versions rc, r_review rc with
  | RtConversion, Some r, Some objs => Some (r, objs)
  | _, _, _ => None
  end.

(* every executed hook read a conversion request: the trace of (rule, objects received) *)
Fixpoint requests (trace : list delivery) : option (list invocation) :=
  match trace with
  | [] => Some []
  | (_, rc) :: rest =>
    match conversion_request rc, requests rest with
    | Some i, Some t => Some (i :: t)
    | _, _ => None
    end
  end.

(* hook number h declares rule r in a conversion binding named b *)
Definition declares (hooks : list hookcfg) (h b : N) (r : rule) : bool :=
  existsb (fun cb => N.eqb (cb_name cb) b && existsb (rule_eqb r) (cb_rules cb))
          (h_conv (nth (N.to_nat h) hooks no_hook)).

(* the hook that ran for a request declared the rule the request names, under the binding it names *)
Definition run_by_declarer (hooks : list hookcfg) (d : delivery) : bool :=
  match r_versions (snd d) with
  | Some r => declares hooks (fst d) (r_binding (snd d)) r
  | None => false
  end.

(* one request served by hooks whose bindings carry any parameters *)
Definition P_params (hooks : list hookcfg) (desired : version) (chain : list rule) (outs : list outcome)
           (req : list obj) (trace : list delivery) (ans : review) : bool :=
  match requests trace with
  | None => false                 (* a hook was run on something that is not the conversion request of a step *)
  | Some t => forallb (run_by_declarer hooks) trace && P_handler desired chain outs req t ans
  end.
