(* Op_Proofs.v — invariants and theorems about the operator task-flow model Op_Model. *)
From Verif Require Import Common Op_Model.
From Coq Require Import Permutation Sorted.

(* ------------------------------------------------------------------ basic facts *)

Definition names (qs : list qstate) : list N := map q_name qs.

Definition weight (cfg : config) (items : list task) : nat :=
  fold_right (fun t n => task_weight cfg t + n)%nat 0%nat items.

Lemma weight_app cfg a b : weight cfg (a ++ b) = (weight cfg a + weight cfg b)%nat.
Proof. induction a as [|x a IH]; simpl; [reflexivity|]. rewrite IH. lia. Qed.

Lemma weight_sync_tasks cfg h l : weight cfg (map (sync_task h) l) = length l.
Proof. induction l as [|b l IH]; simpl; [reflexivity|]. rewrite IH. reflexivity. Qed.

Lemma task_weight_pos cfg t : (1 <= task_weight cfg t)%nat.
Proof. unfold task_weight. destruct (t_type t); try lia. destruct (find_hook cfg (t_hook t)); lia. Qed.

Lemma combine_nonempty t rest : fst (combine t rest) :: snd (combine t rest) <> [].
Proof. discriminate. Qed.

(* The worker always ends in a quiescent situation: an execution is open on a non-empty
   queue, or the queue is empty.  The fuel computed by [fuel_for] is sufficient. *)
Lemma advance_q_quiescent cfg qok : forall fuel items sh,
  (weight cfg items < fuel)%nat ->
  match advance_q fuel cfg qok items sh with
  | (items', Some _, _) => items' <> []
  | (items', None, _) => items' = []
  end.
Proof.
  induction fuel as [|fuel IH]; intros items sh Hw; [lia|].
  destruct items as [|t rest]; [reflexivity|].
  cbn [advance_q]. cbn [weight fold_right] in Hw. fold (weight cfg rest) in Hw.
  destruct (t_type t) eqn:Ty.
  - (* HookRun *)
    destruct (should_run _ t).
    + destruct (negb _ && should_combine t && qok (t_queue t)).
      * destruct (combine t rest) as [t' rest']. discriminate.
      * discriminate.
    + apply IH. pose proof (task_weight_pos cfg t). lia.
  - (* EnableKube *)
    unfold task_weight in Hw. rewrite Ty in Hw.
    destruct (find_hook cfg (t_hook t)) as [h|].
    + apply IH. rewrite weight_app, weight_sync_tasks. lia.
    + apply IH. lia.
  - (* EnableSched *)
    apply IH. unfold task_weight in Hw. rewrite Ty in Hw. lia.
Qed.

Lemma advance_q_fuel_ok cfg qok items sh :
  match advance_q (fuel_for cfg items) cfg qok items sh with
  | (items', Some _, _) => items' <> []
  | (items', None, _) => items' = []
  end.
Proof. apply advance_q_quiescent. unfold fuel_for. fold (weight cfg items). lia. Qed.

(* what a worker does to its queue does not depend on the shared state *)
Lemma advance_q_local cfg qok : forall fuel items sh1 sh2,
  fst (advance_q fuel cfg qok items sh1) = fst (advance_q fuel cfg qok items sh2).
Proof.
  induction fuel as [|fuel IH]; intros items sh1 sh2; [reflexivity|].
  destruct items as [|t rest]; [reflexivity|]. cbn [advance_q].
  destruct (t_type t).
  - destruct (should_run _ t).
    + destruct (negb _ && should_combine t && qok (t_queue t)); [destruct (combine t rest)|]; reflexivity.
    + apply IH.
  - destruct (find_hook cfg (t_hook t)); apply IH.
  - apply IH.
Qed.

Lemma advance_q_qok_ext cfg qok1 qok2 : (forall n, qok1 n = qok2 n) ->
  forall fuel items sh, advance_q fuel cfg qok1 items sh = advance_q fuel cfg qok2 items sh.
Proof.
  intros HQ. induction fuel as [|n IH]; intros l sh; [reflexivity|].
  destruct l as [|t rest]; [reflexivity|]. cbn [advance_q]. rewrite HQ.
  destruct (t_type t); [destruct (should_run _ t)| |]; try reflexivity; try apply IH.
  destruct (find_hook cfg (t_hook t)); apply IH.
Qed.

Lemma advance_q_hookrun fuel cfg qok t rest sh : t_type t = HookRun ->
  advance_q (S fuel) cfg qok (t :: rest) sh =
  let v0 := match find_hook cfg (t_hook t) with Some h => h_v0 h | None => false end in
  if should_run v0 t then
    if negb v0 && should_combine t && qok (t_queue t) then
      let (t', rest') := combine t rest in (t' :: rest', Some (is_sync t), sh)
    else (t :: rest, Some (is_sync t), sh)
  else advance_q fuel cfg qok rest (mkSh (s_sched_on sh) (s_unlocked sh ++ t_mids t) (s_mon_started sh)).
Proof. intros H. cbn [advance_q]. rewrite H. reflexivity. Qed.

(* ------------------------------------------------------------------ queue-list operations *)
Arguments advance_q : simpl never.
Arguments fuel_for : simpl never.


Lemma append_task_names qs t : names (append_task qs t) = names qs.
Proof.
  induction qs as [|q r IH]; [reflexivity|]. simpl.
  destruct (N.eqb (q_name q) (t_queue t)); simpl; [reflexivity | now rewrite IH].
Qed.

Lemma append_tasks_names qs ts : names (append_tasks qs ts) = names qs.
Proof.
  unfold append_tasks. revert qs. induction ts as [|t ts IH]; intros qs; [reflexivity|].
  simpl. now rewrite IH, append_task_names.
Qed.

Lemma finish_in_names qs qn ok stp wait unl : names (fst (finish_in qs qn ok stp wait unl)) = names qs.
Proof.
  induction qs as [|q r IH]; [reflexivity|]. simpl.
  destruct (N.eqb (q_name q) qn).
  - destruct (q_running q) as [sy|]; [|reflexivity]. destruct (q_items q); [reflexivity|].
    destruct (q_delay q); [reflexivity|].
    destruct stp; [reflexivity|]. destruct (ok || t_allow t); [reflexivity|]. destruct wait; reflexivity.
  - destruct (finish_in r qn ok stp wait unl) as [r' u'] eqn:E. simpl. f_equal. exact IH.
Qed.

Lemma elapse_in_names qs qn : names (elapse_in qs qn) = names qs.
Proof.
  induction qs as [|q r IH]; [reflexivity|]. simpl.
  destruct (N.eqb (q_name q) qn); simpl; [destruct (q_delay q); reflexivity | now rewrite IH].
Qed.

Lemma advance_all_names cfg qok qs sh : names (fst (advance_all cfg qok qs sh)) = names qs.
Proof.
  revert sh. induction qs as [|q r IH]; intros sh; [reflexivity|]. simpl.
  destruct (is_running q).
  - specialize (IH sh). destruct (advance_all cfg qok r sh) as [r' sh'] eqn:E. simpl. f_equal. exact IH.
  - destruct (advance_q (fuel_for cfg (q_items q)) cfg qok (q_items q) sh) as [[items run] sh1].
    specialize (IH sh1). destruct (advance_all cfg qok r sh1) as [r' sh'] eqn:E. simpl. f_equal. exact IH.
Qed.

(* ------------------------------------------------------------------ the invariant *)

Definition busy_nonempty (q : qstate) : Prop := is_running q = true -> q_items q <> [].
Definition quiescent_q (q : qstate) : Prop := is_running q = true \/ q_items q = [].
(* a back-off delay is a way of being blocked on the head task *)
Definition delay_running (q : qstate) : Prop := q_delay q = true -> is_running q = true.

Record Inv (s : state) : Prop := mkInv {
  inv_names : NoDup (names (queues s));
  inv_busy : Forall busy_nonempty (queues s);
  inv_quiet : stopped s = false -> Forall quiescent_q (queues s);
  inv_delay : Forall delay_running (queues s)
}.

Lemma advance_all_post cfg qok qs sh :
  Forall busy_nonempty qs ->
  Forall busy_nonempty (fst (advance_all cfg qok qs sh)) /\
  Forall quiescent_q (fst (advance_all cfg qok qs sh)).
Proof.
  revert sh. induction qs as [|q r IH]; intros sh Hb; [split; constructor|].
  inversion Hb as [|? ? Hq Hr]; subst. simpl.
  destruct (is_running q) eqn:R.
  - destruct (IH sh Hr) as [I1 I2]. destruct (advance_all cfg qok r sh) as [r' sh'] eqn:E. simpl in *.
    split; constructor; auto. left; exact R.
  - pose proof (advance_q_fuel_ok cfg qok (q_items q) sh) as Hq'.
    destruct (advance_q (fuel_for cfg (q_items q)) cfg qok (q_items q) sh) as [[items run] sh1].
    destruct (IH sh1 Hr) as [I1 I2]. destruct (advance_all cfg qok r sh1) as [r' sh'] eqn:E. simpl in *.
    split; constructor; auto.
    + unfold busy_nonempty, is_running. simpl. destruct run; [intros _; exact Hq' | discriminate].
    + unfold quiescent_q, is_running. simpl. destruct run; [left; reflexivity | right; exact Hq'].
Qed.

Lemma append_task_busy qs t : Forall busy_nonempty qs -> Forall busy_nonempty (append_task qs t).
Proof.
  induction qs as [|q r IH]; intros H; [constructor|]. inversion H; subst. simpl.
  destruct (N.eqb (q_name q) (t_queue t)).
  - constructor; [|assumption]. unfold busy_nonempty. simpl. intros _. destruct (q_items q); discriminate.
  - constructor; auto.
Qed.

Lemma append_tasks_busy qs ts : Forall busy_nonempty qs -> Forall busy_nonempty (append_tasks qs ts).
Proof.
  unfold append_tasks. revert qs. induction ts as [|t ts IH]; intros qs H; [exact H|].
  simpl. apply IH, append_task_busy, H.
Qed.

Lemma finish_in_busy qs qn ok stp wait unl :
  Forall busy_nonempty qs -> Forall busy_nonempty (fst (finish_in qs qn ok stp wait unl)).
Proof.
  induction qs as [|q r IH]; intros H; [constructor|]. inversion H as [|? ? Hq Hr]; subst. simpl.
  destruct (N.eqb (q_name q) qn).
  - destruct (q_running q) as [sy|] eqn:R.
    + destruct (q_items q) as [|t rest] eqn:I; [simpl; exact H|].
      destruct (q_delay q); [simpl; exact H|].
      destruct stp; [|destruct (ok || t_allow t); [|destruct wait]]; simpl; constructor; auto;
        unfold busy_nonempty, is_running; simpl; discriminate.
    + simpl. exact H.
  - specialize (IH Hr). destruct (finish_in r qn ok stp wait unl) as [r' u'] eqn:E. simpl in *.
    constructor; [exact Hq | exact IH].
Qed.

Lemma elapse_in_busy qs qn : Forall busy_nonempty qs -> Forall busy_nonempty (elapse_in qs qn).
Proof.
  induction qs as [|q r IH]; intros H; [constructor|]. inversion H as [|? ? Hq Hr]; subst. simpl.
  destruct (N.eqb (q_name q) qn); [|constructor; auto].
  constructor; [|exact Hr]. destruct (q_delay q); [|exact Hq]. unfold busy_nonempty, is_running. simpl. discriminate.
Qed.

(* ---- delay_running is kept by every operation ---- *)
Lemma append_task_delay qs t : Forall delay_running qs -> Forall delay_running (append_task qs t).
Proof.
  induction qs as [|q r IH]; intros H; [constructor|]. inversion H; subst. simpl.
  destruct (N.eqb (q_name q) (t_queue t)); constructor; auto.
Qed.
Lemma append_tasks_delay qs ts : Forall delay_running qs -> Forall delay_running (append_tasks qs ts).
Proof.
  unfold append_tasks. revert qs. induction ts as [|t ts IH]; intros qs H; [exact H|].
  simpl. apply IH, append_task_delay, H.
Qed.
Lemma finish_in_delay qs qn ok stp wait unl :
  Forall delay_running qs -> Forall delay_running (fst (finish_in qs qn ok stp wait unl)).
Proof.
  induction qs as [|q r IH]; intros H; [constructor|]. inversion H as [|? ? Hq Hr]; subst. simpl.
  destruct (N.eqb (q_name q) qn).
  - destruct (q_running q) as [sy|] eqn:R; [|simpl; exact H].
    destruct (q_items q) as [|t rest] eqn:I; [simpl; exact H|].
    destruct (q_delay q); [simpl; exact H|].
    destruct stp; [|destruct (ok || t_allow t); [|destruct wait]]; simpl; constructor; auto;
      unfold delay_running, is_running; simpl; auto; discriminate.
  - specialize (IH Hr). destruct (finish_in r qn ok stp wait unl) as [r' u'] eqn:E. simpl in *.
    constructor; [exact Hq | exact IH].
Qed.
Lemma elapse_in_delay qs qn : Forall delay_running qs -> Forall delay_running (elapse_in qs qn).
Proof.
  induction qs as [|q r IH]; intros H; [constructor|]. inversion H as [|? ? Hq Hr]; subst. simpl.
  destruct (N.eqb (q_name q) qn); [|constructor; auto].
  constructor; [|exact Hr]. destruct (q_delay q); [|exact Hq]. unfold delay_running. simpl. discriminate.
Qed.
Lemma advance_all_delay cfg qok qs sh :
  Forall delay_running qs -> Forall delay_running (fst (advance_all cfg qok qs sh)).
Proof.
  revert sh. induction qs as [|q r IH]; intros sh H; [constructor|]. inversion H as [|? ? Hq Hr]; subst. simpl.
  destruct (is_running q) eqn:R.
  - specialize (IH sh Hr). destruct (advance_all cfg qok r sh) as [r' sh']. simpl in *. constructor; auto.
  - destruct (advance_q (fuel_for cfg (q_items q)) cfg qok (q_items q) sh) as [[items run] sh1].
    specialize (IH sh1 Hr). destruct (advance_all cfg qok r sh1) as [r' sh']. simpl in *. constructor; auto.
    unfold delay_running. simpl. discriminate.
Qed.
Lemma add_queue_delay qs n : Forall delay_running qs -> Forall delay_running (add_queue qs n).
Proof.
  intros H. unfold add_queue. destruct (has_queue qs n); [exact H|].
  apply Forall_app. split; [exact H|]. constructor; [|constructor]. unfold delay_running. simpl. discriminate.
Qed.
Lemma fold_add_queue_delay l : forall qs, Forall delay_running qs -> Forall delay_running (fold_left add_queue l qs).
Proof. induction l as [|n l IH]; intros qs H; [exact H|]. simpl. apply IH, add_queue_delay, H. Qed.
Lemma boot_queues_delay cfg : Forall delay_running (boot_queues cfg).
Proof.
  unfold boot_queues. apply fold_add_queue_delay, fold_add_queue_delay.
  constructor; [|constructor]. unfold delay_running. simpl. discriminate.
Qed.


Lemma has_queue_false qs n : has_queue qs n = false -> ~ In n (names qs).
Proof.
  unfold has_queue, names. intros H Hin. apply in_map_iff in Hin as [q [E Hq]].
  assert (existsb (fun q0 => N.eqb (q_name q0) n) qs = true); [|congruence].
  apply existsb_exists. exists q. split; [assumption | now apply N.eqb_eq].
Qed.

Lemma nodup_snoc (l : list N) n : NoDup l -> ~ In n l -> NoDup (l ++ [n]).
Proof.
  induction l as [|x l IH]; intros H Hn; simpl; [constructor; [intros [] | constructor]|].
  inversion H; subst. constructor.
  - intros Hin. apply in_app_or in Hin as [Hin|[E|[]]]; [contradiction|]. subst. apply Hn. now left.
  - apply IH; [assumption|]. intros Hin. apply Hn. now right.
Qed.

Lemma add_queue_nodup qs n : NoDup (names qs) -> NoDup (names (add_queue qs n)).
Proof.
  intros H. unfold add_queue. destruct (has_queue qs n) eqn:E; [exact H|].
  unfold names. rewrite map_app. simpl. fold (names qs).
  apply nodup_snoc; [exact H | now apply has_queue_false].
Qed.

Lemma add_queue_busy qs n : Forall busy_nonempty qs -> Forall busy_nonempty (add_queue qs n).
Proof.
  intros H. unfold add_queue. destruct (has_queue qs n); [exact H|].
  apply Forall_app. split; [exact H|]. constructor; [|constructor].
  unfold busy_nonempty, is_running. simpl. discriminate.
Qed.

Lemma fold_add_queue_inv l : forall qs,
  NoDup (names qs) -> Forall busy_nonempty qs ->
  NoDup (names (fold_left add_queue l qs)) /\ Forall busy_nonempty (fold_left add_queue l qs).
Proof.
  induction l as [|n l IH]; intros qs H1 H2; [split; assumption|].
  simpl. apply IH; [apply add_queue_nodup | apply add_queue_busy]; assumption.
Qed.

Lemma boot_queues_inv cfg :
  NoDup (names (boot_queues cfg)) /\ Forall busy_nonempty (boot_queues cfg).
Proof.
  unfold boot_queues.
  apply fold_add_queue_inv; apply fold_add_queue_inv; simpl.
  - constructor; [intros [] | constructor].
  - constructor; [|constructor]. unfold busy_nonempty, is_running. simpl. discriminate.
  - constructor; [intros [] | constructor].
  - constructor; [|constructor]. unfold busy_nonempty, is_running. simpl. discriminate.
Qed.

Lemma advance_inv cfg s :
  NoDup (names (queues s)) -> Forall busy_nonempty (queues s) -> Forall delay_running (queues s) -> Inv (advance cfg s).
Proof.
  intros H1 H2 H4. unfold advance. destruct (stopped s) eqn:St.
  - constructor; auto. intros E; congruence.
  - destruct (advance_all_post cfg (has_queue (queues s)) (queues s)
                (mkSh (sched_on s) (unlocked s) (mon_started s)) H2) as [P1 P2].
    pose proof (advance_all_names cfg (has_queue (queues s)) (queues s)
                  (mkSh (sched_on s) (unlocked s) (mon_started s))) as P3.
    pose proof (advance_all_delay cfg (has_queue (queues s)) (queues s)
                  (mkSh (sched_on s) (unlocked s) (mon_started s)) H4) as P4.
    destruct (advance_all cfg (has_queue (queues s)) (queues s) _) as [qs sh]. simpl in *.
    constructor; simpl; auto. now rewrite P3.
Qed.

Lemma step_inv cfg s a : Inv s -> Inv (step cfg s a).
Proof.
  intros [I1 I2 I3 I4]. unfold step. apply advance_inv; destruct a; simpl.
  - destruct (queues s) eqn:E; simpl; [apply (boot_queues_inv cfg) | rewrite E; exact I1].
  - now rewrite append_tasks_names.
  - now rewrite append_tasks_names.
  - pose proof (finish_in_names (queues s) q ok (stopped s) false (unlocked s)) as N1.
    destruct (finish_in (queues s) q ok (stopped s) false (unlocked s)) as [qs unl]. simpl in *. now rewrite N1.
  - exact I1.
  - pose proof (finish_in_names (queues s) q false (stopped s) true (unlocked s)) as N1.
    destruct (finish_in (queues s) q false (stopped s) true (unlocked s)) as [qs unl]. simpl in *. now rewrite N1.
  - now rewrite elapse_in_names.
  - destruct (queues s) eqn:E; simpl; [apply (boot_queues_inv cfg) | rewrite E; exact I2].
  - now apply append_tasks_busy.
  - now apply append_tasks_busy.
  - pose proof (finish_in_busy (queues s) q ok (stopped s) false (unlocked s) I2) as N1.
    destruct (finish_in (queues s) q ok (stopped s) false (unlocked s)) as [qs unl]. exact N1.
  - exact I2.
  - pose proof (finish_in_busy (queues s) q false (stopped s) true (unlocked s) I2) as N1.
    destruct (finish_in (queues s) q false (stopped s) true (unlocked s)) as [qs unl]. exact N1.
  - now apply elapse_in_busy.
  - destruct (queues s) eqn:E; simpl; [apply (boot_queues_delay cfg) | rewrite E; exact I4].
  - now apply append_tasks_delay.
  - now apply append_tasks_delay.
  - pose proof (finish_in_delay (queues s) q ok (stopped s) false (unlocked s) I4) as N1.
    destruct (finish_in (queues s) q ok (stopped s) false (unlocked s)) as [qs unl]. exact N1.
  - exact I4.
  - pose proof (finish_in_delay (queues s) q false (stopped s) true (unlocked s) I4) as N1.
    destruct (finish_in (queues s) q false (stopped s) true (unlocked s)) as [qs unl]. exact N1.
  - now apply elapse_in_delay.
Qed.

Lemma init_inv : Inv init.
Proof. constructor; simpl; constructor. Qed.

Lemma exec_inv cfg acts : forall s, Inv s -> Inv (exec cfg acts s).
Proof.
  unfold exec. induction acts as [|a acts IH]; intros s H; [exact H|]. simpl. apply IH, step_inv, H.
Qed.

Theorem reachable_inv cfg acts : Inv (exec cfg acts init).
Proof. apply exec_inv, init_inv. Qed.

(* ------------------------------------------------------------------ queue-local evolution *)

Definition is_stop (a : action) : bool := match a with Stop => true | _ => false end.

Lemma advance_stopped cfg s : stopped (advance cfg s) = stopped s.
Proof.
  unfold advance. destruct (stopped s) eqn:E; [exact E|].
  destruct (advance_all _ _ _ _); reflexivity.
Qed.

Lemma step_stopped cfg s a : stopped (step cfg s a) = stopped s || is_stop a.
Proof.
  unfold step. rewrite advance_stopped. destruct a; simpl; try now rewrite orb_false_r.
  - destruct (queues s); simpl; now rewrite orb_false_r.
  - destruct (finish_in _ _ _ _ _ _); simpl; now rewrite orb_false_r.
  - now rewrite orb_true_r.
  - destruct (finish_in _ _ _ _ _ _); simpl; now rewrite orb_false_r.
Qed.

Definition eta_q (q : qstate) : q = mkQ (q_name q) (q_items q) (q_running q) (q_delay q).
Proof. destruct q; reflexivity. Qed.

Lemma map_id_notin (f : qstate -> qstate) (n : N) (qs : list qstate) :
  (forall q, q_name q <> n -> f q = q) -> ~ In n (names qs) -> map f qs = qs.
Proof.
  intros Hf. induction qs as [|q r IH]; intros Hn; [reflexivity|]. simpl.
  rewrite Hf, IH; [reflexivity | |]; intros E; apply Hn; simpl; auto.
Qed.

Definition app_one (t : task) (q : qstate) : qstate :=
  if N.eqb (q_name q) (t_queue t) then mkQ (q_name q) (q_items q ++ [t]) (q_running q) (q_delay q) else q.

Lemma append_task_map qs t : NoDup (names qs) -> append_task qs t = map (app_one t) qs.
Proof.
  induction qs as [|q r IH]; intros H; [reflexivity|]. inversion H as [|? ? Hn Hr]; subst. simpl.
  unfold app_one at 1. destruct (N.eqb (q_name q) (t_queue t)) eqn:E.
  - f_equal. symmetry. apply N.eqb_eq in E. apply (map_id_notin (app_one t) (t_queue t)).
    + intros q0 Hq0. unfold app_one. apply N.eqb_neq in Hq0. now rewrite Hq0.
    + now rewrite <- E.
  - f_equal. now apply IH.
Qed.

Definition app_many (ts : list task) (q : qstate) : qstate :=
  mkQ (q_name q) (q_items q ++ filter (fun t => N.eqb (t_queue t) (q_name q)) ts) (q_running q) (q_delay q).

Lemma append_tasks_map ts : forall qs, NoDup (names qs) -> append_tasks qs ts = map (app_many ts) qs.
Proof.
  unfold append_tasks. induction ts as [|t ts IH]; intros qs H.
  - simpl. rewrite <- (map_id qs) at 1. apply map_ext. intros q. unfold app_many. simpl.
    rewrite app_nil_r. apply eta_q.
  - simpl. rewrite IH by (now rewrite append_task_names). rewrite append_task_map by exact H.
    rewrite map_map. apply map_ext. intros q. unfold app_many, app_one. simpl.
    rewrite (N.eqb_sym (t_queue t) (q_name q)).
    destruct (N.eqb (q_name q) (t_queue t)); simpl; [now rewrite <- app_assoc | reflexivity].
Qed.

Definition finish_one (ok stp wait : bool) (q : qstate) : qstate :=
  match q_running q, q_items q, q_delay q with
  | Some _, t :: rest, false =>
      if stp then mkQ (q_name q) (q_items q) None false
      else if ok || t_allow t then mkQ (q_name q) rest None false
      else if wait then mkQ (q_name q) (incr_fail t :: rest) (Some false) true
      else mkQ (q_name q) (incr_fail t :: rest) None false
  | _, _, _ => q
  end.

Lemma finish_one_name ok stp wait q : q_name (finish_one ok stp wait q) = q_name q.
Proof.
  unfold finish_one. destruct (q_running q); [|reflexivity]. destruct (q_items q); [reflexivity|].
  destruct (q_delay q); [reflexivity|]. destruct stp; [reflexivity|]. destruct (ok || t_allow t); [reflexivity|].
  destruct wait; reflexivity.
Qed.

Lemma finish_in_map qs qn ok stp wait unl : NoDup (names qs) ->
  fst (finish_in qs qn ok stp wait unl) = map (fun q => if N.eqb (q_name q) qn then finish_one ok stp wait q else q) qs.
Proof.
  induction qs as [|q r IH]; intros H; [reflexivity|]. inversion H as [|? ? Hn Hr]; subst. simpl.
  destruct (N.eqb (q_name q) qn) eqn:E.
  - apply N.eqb_eq in E.
    assert (Hid : map (fun q0 => if N.eqb (q_name q0) qn then finish_one ok stp wait q0 else q0) r = r).
    { apply (map_id_notin _ qn); [|now rewrite <- E].
      intros q0 Hq0. apply N.eqb_neq in Hq0. now rewrite Hq0. }
    rewrite Hid. unfold finish_one.
    destruct (q_running q) as [sy|]; [|reflexivity]. destruct (q_items q) as [|t rest]; [reflexivity|].
    destruct (q_delay q); [reflexivity|].
    destruct stp; [reflexivity|]. destruct (ok || t_allow t); [reflexivity|]. destruct wait; reflexivity.
  - specialize (IH Hr). destruct (finish_in r qn ok stp wait unl) as [r' u']. simpl in *. now rewrite IH.
Qed.

Definition elapse_one (q : qstate) : qstate :=
  if q_delay q then mkQ (q_name q) (q_items q) None false else q.

Lemma elapse_one_name q : q_name (elapse_one q) = q_name q.
Proof. unfold elapse_one. destruct (q_delay q); reflexivity. Qed.

Lemma elapse_in_map qs qn : NoDup (names qs) ->
  elapse_in qs qn = map (fun q => if N.eqb (q_name q) qn then elapse_one q else q) qs.
Proof.
  induction qs as [|q r IH]; intros H; [reflexivity|]. inversion H as [|? ? Hn Hr]; subst. simpl.
  destruct (N.eqb (q_name q) qn) eqn:E.
  - apply N.eqb_eq in E. f_equal. symmetry. apply (map_id_notin _ qn); [|now rewrite <- E].
    intros q0 Hq0. apply N.eqb_neq in Hq0. now rewrite Hq0.
  - f_equal. now apply IH.
Qed.

Definition no_shared : shared := mkSh [] [] [].

Definition adv_one (cfg : config) (qok : N -> bool) (q : qstate) : qstate :=
  if is_running q then q
  else let '(items, run, _) := advance_q (fuel_for cfg (q_items q)) cfg qok (q_items q) no_shared in
       mkQ (q_name q) items run false.

Lemma advance_all_map cfg qok qs : forall sh, fst (advance_all cfg qok qs sh) = map (adv_one cfg qok) qs.
Proof.
  induction qs as [|q r IH]; intros sh; [reflexivity|]. simpl. unfold adv_one at 1.
  destruct (is_running q).
  - specialize (IH sh). destruct (advance_all cfg qok r sh) as [r' sh']. simpl in *. now rewrite IH.
  - pose proof (advance_q_local cfg qok (fuel_for cfg (q_items q)) (q_items q) sh no_shared) as L.
    destruct (advance_q (fuel_for cfg (q_items q)) cfg qok (q_items q) sh) as [[items run] sh1].
    destruct (advance_q (fuel_for cfg (q_items q)) cfg qok (q_items q) no_shared) as [[items2 run2] sh2].
    simpl in L. inversion L; subst.
    specialize (IH sh1). destruct (advance_all cfg qok r sh1) as [r' sh']. simpl in *. now rewrite IH.
Qed.

(* one queue's move under an action, as a function of that queue alone, the action and
   the global flags *)
Definition step_q (cfg : config) (a : action) (on unl : list N) (stp : bool) (qok : N -> bool) (q : qstate) : qstate :=
  let q1 :=
    match a with
    | Boot | Stop => q
    | Tick c => app_many (sched_tasks cfg on c) q
    | KubeEv m o => app_many (kube_tasks cfg unl m o) q
    | Finish qn ok => if N.eqb (q_name q) qn then finish_one ok stp false q else q
    | FinishWait qn => if N.eqb (q_name q) qn then finish_one false stp true q else q
    | Elapse qn => if N.eqb (q_name q) qn then elapse_one q else q
    end in
  if stp || is_stop a then q1 else adv_one cfg qok q1.

Lemma has_queue_names qs1 qs2 : names qs1 = names qs2 -> forall n, has_queue qs1 n = has_queue qs2 n.
Proof.
  intros H n. unfold has_queue.
  assert (G : forall qs, existsb (fun q => N.eqb (q_name q) n) qs = existsb (fun m => N.eqb m n) (names qs)).
  { induction qs as [|q r IH]; [reflexivity|]. simpl. now rewrite IH. }
  now rewrite !G, H.
Qed.

Lemma adv_one_qok_ext cfg qok1 qok2 q : (forall n, qok1 n = qok2 n) -> adv_one cfg qok1 q = adv_one cfg qok2 q.
Proof. intros H. unfold adv_one. now rewrite (advance_q_qok_ext cfg qok1 qok2 H). Qed.

Lemma advance_queues cfg s : stopped s = false ->
  queues (advance cfg s) = map (adv_one cfg (has_queue (queues s))) (queues s).
Proof.
  intros St. unfold advance. rewrite St.
  pose proof (advance_all_map cfg (has_queue (queues s)) (queues s)
                (mkSh (sched_on s) (unlocked s) (mon_started s))) as M.
  destruct (advance_all _ _ _ _) as [qs sh]. exact M.
Qed.

Lemma advance_when_stopped cfg s : stopped s = true -> advance cfg s = s.
Proof. intros St. unfold advance. now rewrite St. Qed.

(* generic shape: the action maps every queue by [g] (names kept), then the workers run *)
Lemma step_shape cfg s1 (g : qstate -> qstate) qs0 :
  queues s1 = map g qs0 -> (forall q, q_name (g q) = q_name q) ->
  queues (advance cfg s1) =
  map (fun q => if stopped s1 then g q else adv_one cfg (has_queue qs0) (g q)) qs0.
Proof.
  intros Hq Hg. destruct (stopped s1) eqn:St.
  - rewrite advance_when_stopped by exact St. exact Hq.
  - rewrite advance_queues by exact St. rewrite Hq, map_map. apply map_ext. intros q.
    apply adv_one_qok_ext. apply has_queue_names. unfold names. rewrite map_map.
    apply map_ext. exact Hg.
Qed.

Theorem step_queue_local cfg s a :
  NoDup (names (queues s)) -> queues s <> [] ->
  queues (step cfg s a) =
  map (step_q cfg a (sched_on s) (unlocked s) (stopped s) (has_queue (queues s))) (queues s).
Proof.
  intros Hn Hne. unfold step, step_q. destruct a.
  - (* Boot on a booted operator: nothing but a round of the workers *)
    destruct (queues s) eqn:E; [contradiction|]. rewrite <- E in *.
    rewrite (step_shape cfg s (fun q => q) (queues s)); [|now rewrite map_id|reflexivity].
    apply map_ext. intros q1. simpl. now rewrite orb_false_r.
  - rewrite (step_shape cfg _ (app_many (sched_tasks cfg (sched_on s) c)) (queues s));
      [|simpl; now apply append_tasks_map|reflexivity].
    apply map_ext. intros q1. simpl. now rewrite orb_false_r.
  - rewrite (step_shape cfg _ (app_many (kube_tasks cfg (unlocked s) mon obj)) (queues s));
      [|simpl; now apply append_tasks_map|reflexivity].
    apply map_ext. intros q1. simpl. now rewrite orb_false_r.
  - pose proof (finish_in_map (queues s) q ok (stopped s) false (unlocked s) Hn) as F.
    destruct (finish_in (queues s) q ok (stopped s) false (unlocked s)) as [qs unl]. simpl in F.
    rewrite (step_shape cfg _ (fun q0 => if N.eqb (q_name q0) q then finish_one ok (stopped s) false q0 else q0) (queues s));
      [|exact F|].
    + apply map_ext. intros q0. simpl. now rewrite orb_false_r.
    + intros q0. destruct (N.eqb (q_name q0) q); [apply finish_one_name|reflexivity].
  - rewrite (step_shape cfg _ (fun q => q) (queues s)); [|simpl; now rewrite map_id|reflexivity].
    apply map_ext. intros q1. simpl. now rewrite orb_true_r.
  - pose proof (finish_in_map (queues s) q false (stopped s) true (unlocked s) Hn) as F.
    destruct (finish_in (queues s) q false (stopped s) true (unlocked s)) as [qs unl]. simpl in F.
    rewrite (step_shape cfg _ (fun q0 => if N.eqb (q_name q0) q then finish_one false (stopped s) true q0 else q0) (queues s));
      [|exact F|].
    + apply map_ext. intros q0. simpl. now rewrite orb_false_r.
    + intros q0. destruct (N.eqb (q_name q0) q); [apply finish_one_name|reflexivity].
  - rewrite (step_shape cfg _ (fun q0 => if N.eqb (q_name q0) q then elapse_one q0 else q0) (queues s));
      [|simpl; now apply elapse_in_map|].
    + apply map_ext. intros q0. simpl. now rewrite orb_false_r.
    + intros q0. destruct (N.eqb (q_name q0) q); [apply elapse_one_name|reflexivity].
Qed.

(* ------------------------------------------------------------------ consequences: C03 *)

Lemma adv_one_quiescent cfg qok q : quiescent_q q -> busy_nonempty q -> delay_running q -> adv_one cfg qok q = q.
Proof.
  intros [R|E] B D; unfold adv_one.
  - now rewrite R.
  - destruct (is_running q) eqn:R; [reflexivity|].
    rewrite E. unfold advance_q, fuel_for. simpl.
    assert (Dq : q_delay q = false) by (destruct (q_delay q) eqn:Dq'; [specialize (D Dq'); congruence | reflexivity]).
    rewrite (eta_q q) at 2. rewrite E, Dq. unfold is_running in R. destruct (q_running q); [discriminate | reflexivity].
Qed.

Lemma app_many_nil q ts :
  filter (fun t => N.eqb (t_queue t) (q_name q)) ts = [] -> app_many ts q = q.
Proof. intros H. unfold app_many. rewrite H, app_nil_r. symmetry. apply eta_q. Qed.

(* An action that does not concern a queue leaves it exactly as it was: the end of an
   execution in another queue, a tick or event none of whose tasks is routed to it.
   Hence a queue held by a slow or failing hook never delays another queue. *)
Theorem other_queue_untouched cfg s a q :
  Inv s -> In q (queues s) ->
  match a with
  | Boot | Stop => False
  | Finish qn _ | FinishWait qn | Elapse qn => q_name q <> qn
  | Tick c => filter (fun t => N.eqb (t_queue t) (q_name q)) (sched_tasks cfg (sched_on s) c) = []
  | KubeEv m o => filter (fun t => N.eqb (t_queue t) (q_name q)) (kube_tasks cfg (unlocked s) m o) = []
  end ->
  step_q cfg a (sched_on s) (unlocked s) (stopped s) (has_queue (queues s)) q = q.
Proof.
  intros [I1 I2 I3 I4] Hin Ha. unfold step_q.
  assert (B : busy_nonempty q) by (rewrite Forall_forall in I2; auto).
  assert (D : delay_running q) by (rewrite Forall_forall in I4; auto).
  destruct a; try contradiction.
  - rewrite app_many_nil by exact Ha. simpl. rewrite orb_false_r. destruct (stopped s) eqn:St; [reflexivity|].
    apply adv_one_quiescent; [|exact B|exact D]. specialize (I3 eq_refl). rewrite Forall_forall in I3; auto.
  - rewrite app_many_nil by exact Ha. simpl. rewrite orb_false_r. destruct (stopped s) eqn:St; [reflexivity|].
    apply adv_one_quiescent; [|exact B|exact D]. specialize (I3 eq_refl). rewrite Forall_forall in I3; auto.
  - apply N.eqb_neq in Ha. rewrite Ha. simpl. rewrite orb_false_r. destruct (stopped s) eqn:St; [reflexivity|].
    apply adv_one_quiescent; [|exact B|exact D]. specialize (I3 eq_refl). rewrite Forall_forall in I3; auto.
  - apply N.eqb_neq in Ha. rewrite Ha. simpl. rewrite orb_false_r. destruct (stopped s) eqn:St; [reflexivity|].
    apply adv_one_quiescent; [|exact B|exact D]. specialize (I3 eq_refl). rewrite Forall_forall in I3; auto.
  - apply N.eqb_neq in Ha. rewrite Ha. simpl. rewrite orb_false_r. destruct (stopped s) eqn:St; [reflexivity|].
    apply adv_one_quiescent; [|exact B|exact D]. specialize (I3 eq_refl). rewrite Forall_forall in I3; auto.
Qed.

(* While a handler runs, its queue only grows at the tail: the running task stays the head
   and nothing else is started in that queue, whatever arrives. *)
Theorem running_queue_only_grows cfg s a q :
  Inv s -> In q (queues s) -> is_running q = true ->
  match a with Finish qn _ | FinishWait qn | Elapse qn => q_name q <> qn | _ => True end ->
  exists extra,
    step_q cfg a (sched_on s) (unlocked s) (stopped s) (has_queue (queues s)) q
    = mkQ (q_name q) (q_items q ++ extra) (q_running q) (q_delay q).
Proof.
  intros [I1 I2 I3 I4] Hin R Ha. unfold step_q.
  assert (G : forall ts, (if stopped s || false then app_many ts q else adv_one cfg (has_queue (queues s)) (app_many ts q))
                         = mkQ (q_name q) (q_items q ++ filter (fun t => N.eqb (t_queue t) (q_name q)) ts) (q_running q) (q_delay q)).
  { intros ts. rewrite orb_false_r. destruct (stopped s); [reflexivity|].
    unfold adv_one. replace (is_running (app_many ts q)) with (is_running q) by reflexivity. now rewrite R. }
  assert (G0 : (if stopped s || false then q else adv_one cfg (has_queue (queues s)) q)
               = mkQ (q_name q) (q_items q ++ []) (q_running q) (q_delay q)).
  { rewrite orb_false_r, app_nil_r. rewrite <- eta_q. destruct (stopped s); [reflexivity|]. unfold adv_one. now rewrite R. }
  destruct a; simpl.
  - exists []. exact G0.
  - eexists. apply G.
  - eexists. apply G.
  - exists []. apply N.eqb_neq in Ha. rewrite Ha. exact G0.
  - exists []. rewrite orb_true_r, app_nil_r. apply eta_q.
  - exists []. apply N.eqb_neq in Ha. rewrite Ha. exact G0.
  - exists []. apply N.eqb_neq in Ha. rewrite Ha. exact G0.
Qed.

(* The same holds while the queue waits in the back-off delay after a failed run: until the
   delay elapses the failed task stays the head, nothing of the queue is started, the
   queue only grows at the tail - whatever ticks, events, ends of other executions arrive. *)
Theorem delayed_queue_only_grows cfg s a q :
  Inv s -> In q (queues s) -> q_delay q = true ->
  match a with Elapse qn => q_name q <> qn | _ => True end ->
  exists extra,
    step_q cfg a (sched_on s) (unlocked s) (stopped s) (has_queue (queues s)) q
    = mkQ (q_name q) (q_items q ++ extra) (q_running q) true.
Proof.
  intros HI Hin D Ha.
  assert (R : is_running q = true) by (pose proof (inv_delay s HI) as I4; rewrite Forall_forall in I4; now apply I4).
  assert (F : forall ok w, finish_one ok (stopped s) w q = q).
  { intros ok w. unfold finish_one. destruct (q_running q); [|reflexivity]. destruct (q_items q); [reflexivity|]. now rewrite D. }
  assert (Blocked : (if stopped s || false then q else adv_one cfg (has_queue (queues s)) q)
                    = mkQ (q_name q) (q_items q ++ []) (q_running q) true).
  { rewrite orb_false_r, app_nil_r. rewrite <- D, <- eta_q. destruct (stopped s); [reflexivity|]. unfold adv_one. now rewrite R. }
  assert (Other : forall a', match a' with Finish qn _ | FinishWait qn | Elapse qn => q_name q <> qn | _ => True end ->
            exists extra, step_q cfg a' (sched_on s) (unlocked s) (stopped s) (has_queue (queues s)) q
                          = mkQ (q_name q) (q_items q ++ extra) (q_running q) true).
  { intros a' Ha'. destruct (running_queue_only_grows cfg s a' q HI Hin R Ha') as [extra E].
    exists extra. now rewrite E, D. }
  destruct a as [| | |qn ok| |qn|qn].
  - apply Other. exact I.
  - apply Other. exact I.
  - apply Other. exact I.
  - destruct (N.eqb (q_name q) qn) eqn:E.
    + exists []. unfold step_q. rewrite E, F. exact Blocked.
    + apply Other. now apply N.eqb_neq.
  - apply Other. exact I.
  - destruct (N.eqb (q_name q) qn) eqn:E.
    + exists []. unfold step_q. rewrite E, F. exact Blocked.
    + apply Other. now apply N.eqb_neq.
  - apply Other. exact Ha.
Qed.

(* routing: a firing of crontab c yields exactly one task per schedule binding with that
   crontab of every hook whose schedules are enabled, in configuration order, carrying the
   binding's name, group, allowFailure and queue — and none for other bindings *)
Definition sched_task_of (hb : N * sbinding) : task :=
  mkTask HookRun (fst hb) BSchedule [mkCtx (sb_name (snd hb)) KSchedule (sb_group (snd hb)) 0]
         (sb_allow (snd hb)) (sb_group (snd hb)) [] false (sb_queue (snd hb)) 0.

Definition sched_pairs (cfg : config) : list (N * sbinding) :=
  flat_map (fun h => map (fun b => (h_id h, b)) (h_sched h)) cfg.

Theorem sched_tasks_exactly cfg on c :
  sched_tasks cfg on c
  = map sched_task_of (filter (fun hb => mem_N (fst hb) on && N.eqb (sb_cron (snd hb)) c) (sched_pairs cfg)).
Proof.
  unfold sched_tasks, sched_pairs. induction cfg as [|h cfg IH]; [reflexivity|].
  simpl. rewrite filter_app, map_app, IH. f_equal.
  destruct (mem_N (h_id h) on) eqn:M.
  - induction (h_sched h) as [|b l IHl]; [reflexivity|]. simpl. rewrite M. simpl.
    destruct (N.eqb (sb_cron b) c); simpl; now rewrite IHl.
  - induction (h_sched h) as [|b l IHl]; [reflexivity|]. simpl. rewrite M. simpl. exact IHl.
Qed.

Definition kube_task_of (obj : N) (hb : N * kbinding) : task :=
  mkTask HookRun (fst hb) BKube [mkCtx (kb_name (snd hb)) KEvent (kb_group (snd hb)) obj]
         (kb_allow (snd hb)) (kb_group (snd hb)) [] false (kb_queue (snd hb)) 0.

Definition kube_pairs (cfg : config) : list (N * kbinding) :=
  flat_map (fun h => map (fun b => (h_id h, b)) (h_kube h)) cfg.

Theorem kube_tasks_exactly cfg unl m obj :
  kube_tasks cfg unl m obj
  = if mem_N m unl then map (kube_task_of obj) (filter (fun hb => N.eqb (kb_mon (snd hb)) m) (kube_pairs cfg)) else [].
Proof.
  unfold kube_tasks, kube_pairs. destruct (mem_N m unl); [|reflexivity].
  induction cfg as [|h cfg IH]; [reflexivity|].
  simpl. rewrite filter_app, map_app, IH. f_equal.
  induction (h_kube h) as [|b l IHl]; [reflexivity|]. simpl.
  destruct (N.eqb (kb_mon b) m); simpl; now rewrite IHl.
Qed.

(* ------------------------------------------------------------------ consequences: C17 *)

Theorem stop_is_permanent cfg acts s : stopped s = true -> stopped (exec cfg acts s) = true.
Proof.
  revert s. unfold exec. induction acts as [|a acts IH]; intros s H; [exact H|].
  simpl. apply IH. rewrite step_stopped, H. reflexivity.
Qed.

(* After Shutdown no queue starts another task: a queue that is in a handler after the
   step was in that very handler before it (same head), whatever the action - also the end
   of a back-off delay. *)
Theorem no_new_execution_after_stop cfg s a q :
  Inv s -> In q (queues s) -> stopped s = true \/ a = Stop ->
  let q' := step_q cfg a (sched_on s) (unlocked s) (stopped s) (has_queue (queues s)) q in
  in_handler q' = true ->
  q_running q' = q_running q /\ hd_error (q_items q') = hd_error (q_items q) /\ in_handler q = true.
Proof.
  intros [I1 I2 I3 I4] Hin Hs q' R.
  assert (B : busy_nonempty q) by (rewrite Forall_forall in I2; auto).
  assert (St : stopped s || is_stop a = true) by (destruct Hs as [->| ->]; [reflexivity | apply orb_true_r]).
  unfold q', step_q in *. rewrite St in *.
  assert (G : forall ts, in_handler (app_many ts q) = true ->
              q_running (app_many ts q) = q_running q /\
              hd_error (q_items (app_many ts q)) = hd_error (q_items q) /\ in_handler q = true).
  { intros ts Hr. unfold app_many, in_handler in *. unfold is_running in *. simpl in *. repeat split; auto.
    apply andb_true_iff in Hr as [Hr _]. specialize (B Hr). destruct (q_items q); [contradiction | reflexivity]. }
  assert (Fin : forall ok w, stopped s = true -> in_handler (finish_one ok (stopped s) w q) = true ->
              q_running (finish_one ok (stopped s) w q) = q_running q /\
              hd_error (q_items (finish_one ok (stopped s) w q)) = hd_error (q_items q) /\ in_handler q = true).
  { intros ok w Ss. rewrite Ss. unfold finish_one. destruct (q_running q) eqn:Rq; auto. destruct (q_items q) eqn:Iq.
    - rewrite Iq. auto.
    - destruct (q_delay q) eqn:Dq; [rewrite Iq; auto|]. unfold in_handler, is_running. simpl. discriminate. }
  destruct a; auto.
  - destruct (N.eqb (q_name q) q0); auto. destruct Hs as [Hs|Hs]; [now apply Fin | discriminate].
  - destruct (N.eqb (q_name q) q0); auto. destruct Hs as [Hs|Hs]; [now apply Fin | discriminate].
  - destruct (N.eqb (q_name q) q0); auto. unfold elapse_one in *. destruct (q_delay q) eqn:Dq; auto.
    unfold in_handler, is_running in R. simpl in R. discriminate.
Qed.

(* the worker terminates as soon as its current handler returns: after Finish the queue is
   not in a handler any more, its result is not applied, and (previous theorem) it never
   enters one again *)
Theorem handler_return_stops_worker cfg s q ok :
  Inv s -> In q (queues s) -> stopped s = true ->
  let q' := step_q cfg (Finish (q_name q) ok) (sched_on s) (unlocked s) (stopped s) (has_queue (queues s)) q in
  in_handler q' = false /\ q_items q' = q_items q.
Proof.
  intros [I1 I2 I3 I4] Hin St q'.
  assert (B : busy_nonempty q) by (rewrite Forall_forall in I2; auto).
  unfold q', step_q. rewrite St, N.eqb_refl. simpl. unfold finish_one.
  destruct (q_running q) eqn:R.
  - destruct (q_items q) eqn:I.
    + exfalso. apply B; [unfold is_running; now rewrite R | exact I].
    + destruct (q_delay q) eqn:D.
      * unfold in_handler. rewrite D, I, andb_false_r. auto.
      * unfold in_handler, is_running. simpl. auto.
  - unfold in_handler, is_running. rewrite R. auto.
Qed.

(* a queue waiting in a back-off delay when Shutdown is requested runs nothing any more:
   the end of the delay starts no execution *)
Theorem stop_during_delay cfg s q :
  Inv s -> In q (queues s) -> stopped s = true -> q_delay q = true ->
  let q' := step_q cfg (Elapse (q_name q)) (sched_on s) (unlocked s) (stopped s) (has_queue (queues s)) q in
  is_running q' = false /\ q_items q' = q_items q.
Proof.
  intros HI Hin St D q'. unfold q', step_q. rewrite St, N.eqb_refl. simpl. unfold elapse_one. rewrite D.
  unfold is_running. simpl. auto.
Qed.

(* ticks and events after Shutdown only append; they change no running flag *)
Theorem events_inert_after_stop q ts :
  is_running (app_many ts q) = is_running q /\ exists extra, q_items (app_many ts q) = q_items q ++ extra.
Proof. unfold app_many, is_running. simpl. split; [reflexivity | eexists; reflexivity]. Qed.
