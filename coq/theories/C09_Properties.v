(* C09_Properties.v — the property theorems of C09 and nothing else.

   Model: C09_Model.render (MapV1 / MapV0 / ObjectAndFilterResult.Map / applyFilter's stored
   value), after the repairs of F3 (Map() accepts the decoded filter result) and F15
   (config v0 keeps full objects).  Spec: C09_Spec.P, the documented field table.

   Full statement (every documented context, any jq result):

     Definition C09_full_statement :=
       forall v cs out, render_list v cs = Some out -> P v cs (Some out) = true.

   It is FALSE of the faithful model (and of the code) on the inputs of the recorded
   finding F8 (C08): applyFilter keeps only object-valued jq results, so a scalar, array or
   null result is rendered as {} — C09_filter_result_refuted.  What is proved at full
   strength is C09_contract_partial: P for every list of contexts outside the trigger
   T = "the jq result of some rendered object is not a single JSON object".

   Second part (C09_flow_...): the same contract for the files the operator produces by
   itself — model C09_Model.run_flow of the informer path (loadExistedObjects,
   handleWatchEvent incl. the RemoveFullObject step, the cache, Snapshot, shouldFireEvent,
   ConvertKubeEventToBindingContext, UpdateSnapshots, then render_list), Spec
   C09_Spec.P_flow.  Full statement

     Definition C09_flow_full_statement :=
       forall f, flow_wf f = true -> P_flow f (Some (run_flow f)) = true.

   is false for the same reason (C09_flow_refuted); C09_flow_contract_partial proves it
   outside T_flow for every binding configuration (keepFullObjectsInMemory true/false,
   any executeHookOnEvent list, jqFilter or not, group, includeSnapshotsFrom, v0/v1), every
   set of existing objects and every history of watch events.  flow_wf asks that the
   includeSnapshotsFrom list is sorted without duplicates (a restriction of the theorem,
   not of the model), that jq answers are printed canonically and that a v0 hook keeps
   full objects (F15).

   Third part (C09_hook_...): combined arrays of a hook with SEVERAL bindings — kubernetes
   bindings (each with its own informer cache) and schedule / validating / mutating /
   conversion bindings whose names need not differ from the kubernetes bindings' names.
   Model C09_Model.run_hook: the controllers' HandleEvent for every binding type (conversion
   bindings with several rules each and several bindings per CRD: one link per (CRD, rule) holding
   that rule's versions), then
   HookController.UpdateSnapshots over the WHOLE array (getIncludeSnapshotsFrom by binding type
   and name, SnapshotsFor, the per-call cache), then render_list.  Spec C09_Spec.P_hook: every
   item is the documented context of its own binding = (type, name).  Full statement

     Definition C09_hook_full_statement :=
       forall hc, hook_wf hc = true -> P_hook hc (Some (run_hook hc)) = true.

   is false on F8 and, in addition, (a) when two bindings of ONE type share a name and include
   different snapshots (C09_refuted_F30: getIncludeSnapshotsFrom finds the first
   binding of that name for both) and (b) when a validating and a mutating binding (or two
   mutating ones) share a name (C09_refuted_F31: AdmissionLinks is keyed by
   the webhook id, which is derived from the name alone, so the request of one is rendered as
   the other) — both reproduced on the real code and recorded as the known findings F30 and F31
   (triggers T_same_type_name, T_admission_same_name; the correspondence generates such hooks
   only in its trigger-F30 / trigger-F31 streams).  C09_hook_contract_partial proves it outside
   the three triggers
   for every hook, every set of existing objects, every sequence of events and every order of
   the contexts in the array; includeSnapshotsFrom lists need not be sorted here.  hook_wf asks
   what the config loader guarantees (the other bindings are of the four kinds, included names
   are names of kubernetes bindings) and that jq answers are printed canonically.

   Fourth part (C09_jq_...): the value jq is RUN ON.  The parts above take "the jq result for that
   very object" as an input (the oracle's answer for the object travels with it).  The code obtains
   it from pkg/filter/jq ApplyFilter, which runs gojq on a COPY of the object (deepCopy: a JSON
   round trip) and merges the object-valued outputs.  Model: C09_Model.deep_copy /
   jq_apply_filter / stored_via / wobj_via with the jq program as an arbitrary function of its
   input.  C09_jq_input_is_the_object: the copy is the object, member by member at every depth -
   metadata.managedFields, annotations, uid, resourceVersion, status, anything - so for every jq
   program the stored filter result is the (merged) jq result of the object the hook sees in
   `object` (C09_jq_filter_result_of_that_object, ..._event); the three contract theorems hold of the
   path through the copy (C09_contract_via_copy, C09_flow_contract_via_copy,
   C09_hook_contract_via_copy).  Domain: objects that stand for a Go map tree (canon_json: one value
   per key; the harness prints them so); integers beyond 2^53 (float64 in the copy) are outside the
   model.  The correspondence evaluates every case THROUGH the copy (C09_Corr: ctx_run / flow_run /
   hcase_run) with the answer of /usr/bin/jq for the object as created in the cluster - objects shaped
   as an API server returns them in a large share of the cases.

   Sixth part (C09_win_...): the WINDOW between a binding's start and its unlock.  Model
   C09_WinModel: handleWatchEvent's last part (eventCbEnabled ? putEvent : append to eventBuf),
   getCachedObjects dropping the saved events while the binding is locked (the run of the Synchronization
   hook), enableKubeEventCb handing the saved events over in order; histories = any sequence of
   deliveries, Synchronization runs and the unlock.  Spec C09_WinSpec.P_win: one Event file per delivery
   that passes the change filter since the last Synchronization run, in delivery order, each the
   documented Event context of ITS delivery (object and jq result of that very object), snapshots as they
   are when the file is written, and jq asked again about the object shown.  Full statement

     Definition C09_win_full_statement := win_full_statement
       (forall w, win_wf w = true -> P_win w (Some (run_win w)) = true)

   is false on F8 (C09_win_refuted: a scalar jq result is stored as {}, a change of it never passes);
   C09_win_contract_partial proves it outside T_win for every binding configuration, every set of
   existing objects and EVERY sequence of deliveries / Synchronization runs / unlock - by induction over
   the sequence with a simulation between the informer's cache + buffer and the specification's view of
   the cluster.  C09_win_event_from_one_delivery: every Event file of every window renders the KubeEvent
   built from ONE delivery of the history and from nothing else. *)
From Verif Require Import Common Json C09_Model C09_Spec C09_Proofs C09_CopyProofs C09_ShareModel C09_ShareProofs.
From Verif Require Import C09_WinModel C09_WinSpec C09_WinProofs.

Definition C09_full_statement : Prop :=
  forall v cs out, render_list v cs = Some out -> P v cs (Some out) = true.

(* the documented key set, for every documented v1 context (no assumption on jq results) *)
Theorem C09_fields_exact : forall c, wf1 c = true -> jkeys (JObj (map_v1 c)) = documented_keys c.
Proof. exact fields_exact. Qed.
Print Assumptions C09_fields_exact.

(* `binding` is present with the binding's name in every v1 context whatsoever *)
Theorem C09_binding_always : forall c, jget k_binding (JObj (map_v1 c)) = Some (JStr (c_binding c)).
Proof. exact binding_rendered. Qed.
Print Assumptions C09_binding_always.

(* every rendered file (any version, any list of contexts, documented or not) satisfies the
   whole contract P — keys, type, watchEvent, object, filterResult = jq result, objects,
   snapshots, groupName, review, fromVersion/toVersion, v0 shape — outside the trigger of F8 *)
Theorem C09_contract_partial : forall v cs out,
  render_list v cs = Some out -> T v cs = false -> P v cs (Some out) = true.
Proof. exact contract_partial. Qed.
Print Assumptions C09_contract_partial.

(* filterResult of an Event is the jq result of that very object, for object-valued results
   (domain: the result is a single JSON object [JObj m], canonically printed) *)
Theorem C09_filter_result_faithful : forall c keep obj m rest,
  is_event c = true -> c_objects c = Stored (Some [JObj m]) keep obj :: rest ->
  sorted_strict m = true ->
  jget k_filterResult (JObj (map_v1 c)) = Some (JObj m).
Proof. exact filter_result_event. Qed.
Print Assumptions C09_filter_result_faithful.

(* the same for every element of `objects` and of a snapshot *)
Theorem C09_filter_result_faithful_item : forall keep obj m,
  sorted_strict m = true ->
  jget k_filterResult (render_item (Stored (Some [JObj m]) keep obj)) = Some (JObj m).
Proof. exact filter_result_item. Qed.
Print Assumptions C09_filter_result_faithful_item.

(* without jqFilter there is no filterResult; with one there always is *)
Theorem C09_filter_result_iff_jq : forall jqf keep obj,
  is_some (jget k_filterResult (render_item (Stored jqf keep obj))) = is_some jqf.
Proof. exact filter_result_iff_jq_item. Qed.
Print Assumptions C09_filter_result_iff_jq.

(* outside that domain the statement fails: .spec.replicas = 3 is rendered as {} (F8) *)
Theorem C09_filter_result_refuted :
  exists c, wf1 c = true /\ T V1 [c] = true /\ P V1 [c] (render_list V1 [c]) = false.
Proof. exists Wit.witness_F8. exact Wit.refuted. Qed.
Print Assumptions C09_filter_result_refuted.

(* snapshots present exactly when the binding includes snapshots, and then it is the map of
   the included bindings' snapshots *)
Theorem C09_snapshots_iff : forall c,
  wf1 c = true -> is_some (jget k_snapshots (JObj (map_v1 c))) = includes c.
Proof. exact snapshots_iff. Qed.
Print Assumptions C09_snapshots_iff.

Theorem C09_snapshots_value : forall c,
  includes c = true -> c_btype c <> BOnStartup ->
  jget k_snapshots (JObj (map_v1 c)) = Some (snapshots_json (c_snapshots c)).
Proof. exact snapshots_value. Qed.
Print Assumptions C09_snapshots_value.

(* the full object is present exactly when keepFullObjectsInMemory is true: in every element
   of objects/snapshots and in an Event *)
Theorem C09_object_iff_keep : forall jqf keep obj,
  jget k_object (render_item (Stored jqf keep obj)) = if keep then Some obj else None.
Proof. exact object_iff_keep_item. Qed.
Print Assumptions C09_object_iff_keep.

Theorem C09_object_iff_keep_event : forall c jqf keep obj rest,
  is_event c = true -> c_objects c = Stored jqf keep obj :: rest ->
  jget k_object (JObj (map_v1 c)) = if keep then Some obj else None.
Proof. exact object_iff_keep_event. Qed.
Print Assumptions C09_object_iff_keep_event.

(* v0: a context of a v0 hook (full objects kept) never crashes and has the v0 shape *)
Theorem C09_v0_shape : forall c,
  wf0 c = true -> exists m, map_v0 c = Some m /\ doc_v0 c (JObj m) = true.
Proof. exact v0_shape. Qed.
Print Assumptions C09_v0_shape.

(* a file is always produced: v1 for any contexts, v0 when full objects are kept *)
Theorem C09_file_produced : forall cs,
  (exists out, render_list V1 cs = Some out)
  /\ (forallb wf0 cs = true -> exists out, render_list V0 cs = Some out).
Proof. intros cs; split; [apply v1_total | apply v0_total]. Qed.
Print Assumptions C09_file_produced.

(* non-vacuity: a documented Event context with snapshots and an object-valued filter meets
   every hypothesis above and renders to the documented JSON; a v0 context likewise; and the
   latent nil dereference of MapV0 (outside wf0, unreachable since the repair of F15) *)
Example C09_hyp_met :
  wf1 Wit.example_event = true /\ T V1 [Wit.example_event] = false /\ is_event Wit.example_event = true
  /\ wf0 Wit.example_v0 = true
  /\ render_list V0 [Wit.witness_v0_nil] = None /\ wf0 Wit.witness_v0_nil = false.
Proof.
  destruct Wit.example_event_ok as [H1 [H2 [H3 _]]]. destruct Wit.example_v0_ok as [H4 _].
  destruct Wit.v0_nil_object_crashes as [H5 H6]. repeat split; assumption.
Qed.

(* ---------------- the informer path (flow cases) ---------------- *)

Definition C09_flow_full_statement : Prop :=
  forall f, flow_wf f = true -> P_flow f (Some (run_flow f)) = true.

(* every file of every history conforms: the Synchronization file and the file of every fired
   event are the documented contexts of the binding for the objects they stand for *)
Theorem C09_flow_contract_partial : forall f,
  flow_wf f = true -> T_flow f = false -> P_flow f (Some (run_flow f)) = true.
Proof. exact flow_contract_partial. Qed.
Print Assumptions C09_flow_contract_partial.

Theorem C09_flow_refuted :
  exists f, flow_wf f = true /\ T_flow f = true /\ P_flow f (Some (run_flow f)) = false.
Proof. exists Wit.witness_flow_F8. exact Wit.flow_refuted. Qed.
Print Assumptions C09_flow_refuted.

(* whatever the cache holds and whichever watch event arrives — Added, Modified or Deleted —
   a KubeEvent that is fired carries exactly that event type and, for that very object, the
   filter result with the full object present exactly when keepFullObjectsInMemory is true *)
Theorem C09_flow_event_object_iff_keep : forall b c t w c' ev,
  handle b c t w = (c', Some ev) ->
  t <> WNone
  /\ ev = mkKev KEvent [t] [(w_id w, apply_filter (jqf_of b w) (b_keep b) (w_obj w))].
Proof. exact handle_event. Qed.
Print Assumptions C09_flow_event_object_iff_keep.

(* after any history the cache (the source of `objects` and `snapshots`) is the image of the
   objects of the cluster, and every entry holds its object's filter result with the full
   object present exactly when keepFullObjectsInMemory is true *)
Theorem C09_flow_cache_object_iff_keep : forall b ws ops id e,
  In (id, e) (fold_left (fun c op => fst (handle b c (fst op) (snd op))) ops (load_existing b ws [])) ->
  exists w, In (id, w) (fold_left alive_step ops (alive_init ws))
            /\ en_ofr e = apply_filter (jqf_of b w) (b_keep b) (w_obj w).
Proof. intros b ws ops id e H. rewrite cache_after in H. now apply cache_entry_ofr. Qed.
Print Assumptions C09_flow_cache_object_iff_keep.

(* non-vacuity: a binding with keepFullObjectsInMemory=false, a jqFilter, all event types and
   its own snapshots over an existing object and a Modified/Added/Deleted history meets the
   hypotheses and renders files without `object`; the predicate rejects the same Deleted
   file when it carries the deleted object *)
Example C09_flow_hyp_met :
  flow_wf Wit.example_flow = true /\ T_flow Wit.example_flow = false
  /\ length (run_flow Wit.example_flow) = 4%nat
  /\ P_file Wit.example_flow Wit.leaking_file = false.
Proof.
  destruct Wit.example_flow_ok as [H1 [H2 H3]]. destruct Wit.leaking_file_rejected as [H4 _].
  split; [exact H1|]. split; [exact H2|]. split; [|exact H4].
  apply (f_equal (@length _)) in H3. now rewrite map_length in H3.
Qed.

(* ---------------- hooks with several bindings: combined arrays (hook cases) ---------------- *)

Definition C09_hook_full_statement : Prop :=
  forall hc, hook_wf hc = true -> P_hook hc (Some (run_hook hc)) = true.

(* every item of every combined array conforms as the context of ITS OWN binding (type, name):
   `snapshots` present exactly when that binding includes snapshots, one array per name it
   includes, every element rendered with the included binding's jqFilter /
   keepFullObjectsInMemory; Schedule / Validating / Mutating / Conversion / Group /
   Synchronization / Event items with their documented fields — whatever other contexts
   precede it in the array and whatever the other bindings of the hook are called *)
Theorem C09_hook_contract_partial : forall hc,
  hook_wf hc = true -> T_hook hc = false -> T_same_type_name hc = false ->
  T_admission_same_name hc = false ->
  P_hook hc (Some (run_hook hc)) = true.
Proof. exact hook_contract_partial. Qed.
Print Assumptions C09_hook_contract_partial.

(* two schedule bindings of one name: the second one's context gets the first one's snapshots *)
Theorem C09_refuted_F30 :
  exists hc, hook_wf hc = true /\ T_hook hc = false /\ T_same_type_name hc = true
             /\ P_hook hc (Some (run_hook hc)) = false.
Proof. exists WitHook.witness_same_type_name. exact WitHook.same_type_name_refuted. Qed.
Print Assumptions C09_refuted_F30.

(* a validating and a mutating binding of one name: the validating request is rendered as Mutating *)
Theorem C09_refuted_F31 :
  exists hc, hook_wf hc = true /\ T_hook hc = false /\ T_same_type_name hc = false
             /\ T_admission_same_name hc = true
             /\ P_hook hc (Some (run_hook hc)) = false.
Proof. exists WitHook.witness_admission_same_name. exact WitHook.admission_same_name_refuted. Qed.
Print Assumptions C09_refuted_F31.

(* UpdateSnapshots treats every context of the array on its own: whatever getIncludeSnapshotsFrom
   [inc] and SnapshotsFor [sf] answer, and whatever contexts come before it, a context gets the
   snapshots of the names resolved for ITS binding type and name; the per-call cache is not
   observable *)
Theorem C09_update_snapshots_per_context : forall inc sf xs,
  update_all inc sf [] xs = map (update_pure inc sf) xs.
Proof. intros inc sf xs. apply update_all_pure, sc_ok_nil. Qed.
Print Assumptions C09_update_snapshots_per_context.

(* the rendered `snapshots` object depends on the includeSnapshotsFrom list only as a set of names *)
Theorem C09_snapshots_names_as_set : forall (f : bytes -> list item) l,
  snapshots_json (map (fun n => (n, f n)) l) = snapshots_json (map (fun n => (n, f n)) (canon_names l)).
Proof. exact snapshots_json_canon. Qed.
Print Assumptions C09_snapshots_names_as_set.

(* a conversion request that was resolved to the rule from->to is answered with a Conversion
   context of a binding of that CRD that declares this rule, carrying exactly fromVersion = from
   and toVersion = to — whichever other rules that binding or other bindings declare, in
   whichever order *)
Theorem C09_hook_conversion_versions : forall hc crd from to o r review,
  conv_link hc crd from to = Some (o, r) ->
  In o (hk_other hc) /\ conv_match crd from to o = true
  /\ jget k_fromVersion (JObj (map_v1 (ctx_of_conv o r review))) = Some (JStr from)
  /\ jget k_toVersion (JObj (map_v1 (ctx_of_conv o r review))) = Some (JStr to).
Proof. exact conv_versions. Qed.
Print Assumptions C09_hook_conversion_versions.

(* non-vacuity of the conversion part: a binding with two rules and a second binding of the same
   CRD; the request for the first rule is rendered with that rule's versions, and the predicate
   rejects the array that shows the binding's last rule instead *)
Example C09_hook_conversion_hyp_met :
  hook_wf WitHook.example_conv = true /\ T_hook WitHook.example_conv = false
  /\ T_same_type_name WitHook.example_conv = false /\ T_admission_same_name WitHook.example_conv = false
  /\ WitHook.example_conv_link <> None
  /\ length (ho_items (run_hook WitHook.example_conv)) = 2%nat.
Proof.
  destruct WitHook.example_conv_ok as [H1 [H2 [H3 [H3' H4]]]].
  split; [exact H1|]. split; [exact H2|]. split; [exact H3|]. split; [exact H3'|].
  split; [exact WitHook.example_conv_link_some|now rewrite H4].
Qed.

(* non-vacuity: a kubernetes binding "pods" that includes nothing and a schedule binding "pods"
   that includes the snapshot of "cm" meet the hypotheses; in the array [Event pods, Schedule
   pods] the Schedule item carries the snapshot of "cm" (one element, no full object, its
   filterResult); the predicate rejects the same array when the Schedule item carries the
   include list of its kubernetes namesake *)
Example C09_hook_hyp_met :
  hook_wf WitHook.example_hook = true /\ T_hook WitHook.example_hook = false
  /\ T_same_type_name WitHook.example_hook = false
  /\ T_admission_same_name WitHook.example_hook = false
  /\ length (ho_items (run_hook WitHook.example_hook)) = 2%nat
  /\ P_hook WitHook.example_hook (Some WitHook.confused_obs) = false.
Proof.
  destruct WitHook.example_hook_ok as [H1 [H2 [H3 [H3' H4]]]].
  split; [exact H1|]. split; [exact H2|]. split; [exact H3|]. split; [exact H3'|]. split; [now rewrite H4|].
  exact WitHook.confused_obs_rejected.
Qed.

(* ---------------- the value jq is run on (pkg/filter/jq ApplyFilter) ---------------- *)

(* deepCopy gives jq the object itself: every member at every depth *)
Theorem C09_jq_input_is_the_object : forall j, canon_json j = true -> deep_copy j = j.
Proof. exact deep_copy_canon. Qed.
Print Assumptions C09_jq_input_is_the_object.

(* so jq.ApplyFilter returns the merged jq outputs of the object itself, for every jq program *)
Theorem C09_jq_apply_filter_object : forall (jq : jq_fn) data,
  canon_json data = true -> jq_apply_filter jq data = glue (jq data).
Proof. exact jq_apply_filter_object. Qed.
Print Assumptions C09_jq_apply_filter_object.

(* `filterResult` equal to the jq result for that very object, next to `object` = that very object
   (when full objects are kept): for every jq program, every object whatever members it has, in
   every element of objects / snapshots ... *)
Theorem C09_jq_filter_result_of_that_object : forall (jq : jq_fn) keep obj m,
  canon_json obj = true -> jq obj = [JObj m] -> sorted_strict m = true ->
  jget k_filterResult (render_item (stored_via jq keep obj)) = Some (JObj m)
  /\ jget k_object (render_item (stored_via jq keep obj)) = (if keep then Some obj else None).
Proof. exact filter_result_of_that_object. Qed.
Print Assumptions C09_jq_filter_result_of_that_object.

(* ... and in an Event *)
Theorem C09_jq_filter_result_of_that_object_event : forall (jq : jq_fn) c keep obj m rest,
  is_event c = true -> c_objects c = stored_via jq keep obj :: rest ->
  canon_json obj = true -> jq obj = [JObj m] -> sorted_strict m = true ->
  jget k_filterResult (JObj (map_v1 c)) = Some (JObj m)
  /\ jget k_object (JObj (map_v1 c)) = (if keep then Some obj else None).
Proof. exact filter_result_of_that_object_event. Qed.
Print Assumptions C09_jq_filter_result_of_that_object_event.

(* what the informer path stores for an object is jq.ApplyFilter's result on it, next to the object *)
Theorem C09_jq_informer_stores_apply_filter : forall (jq : jq_fn) w,
  en_ofr (apply_filter_go true (wobj_via jq w))
  = mkOfr true false (Some (w_obj w)) (FRVal (JObj (jq_apply_filter jq (w_obj w)))).
Proof. exact apply_filter_go_via. Qed.
Print Assumptions C09_jq_informer_stores_apply_filter.

(* the contract theorems, for the cases as the correspondence evaluates them: every object sent
   through ApplyFilter's copy, the jq oracle knowing the answer for the object itself only *)
Theorem C09_contract_via_copy : forall v cs out,
  forallb ctx_canon cs = true ->
  render_list v (map ctx_run cs) = Some out -> T v cs = false -> P v cs (Some out) = true.
Proof. exact contract_via_copy. Qed.
Print Assumptions C09_contract_via_copy.

Theorem C09_flow_contract_via_copy : forall f,
  flow_canon f = true -> flow_wf f = true -> T_flow f = false ->
  P_flow f (Some (run_flow (flow_run f))) = true.
Proof. exact flow_contract_via_copy. Qed.
Print Assumptions C09_flow_contract_via_copy.

Theorem C09_hook_contract_via_copy : forall hc,
  hcase_canon hc = true -> hook_wf hc = true -> T_hook hc = false -> T_same_type_name hc = false ->
  T_admission_same_name hc = false ->
  P_hook hc (Some (run_hook (hcase_run hc))) = true.
Proof. exact hook_contract_via_copy. Qed.
Print Assumptions C09_hook_contract_via_copy.

(* non-vacuity: a ConfigMap as an API server returns it (two managedFields entries, uid,
   resourceVersion, creationTimestamp, generation, the last-applied annotation) meets canon_json; the
   jq program {"managers": [.metadata.managedFields[]?.manager]} yields one canonical object on it and
   the rendered element carries that result next to the full object; on the object WITHOUT
   managedFields the same program yields another result, and the oracle of a correspondence case
   has no answer for that value *)
Example C09_jq_hyp_met :
  canon_json WitCopy.served_cm = true
  /\ WitCopy.jq_managers WitCopy.served_cm = [JObj WitCopy.managers_result]
  /\ sorted_strict WitCopy.managers_result = true
  /\ WitCopy.jq_managers WitCopy.trimmed_cm <> WitCopy.jq_managers WitCopy.served_cm
  /\ asked WitCopy.served_cm [JObj WitCopy.managers_result] WitCopy.trimmed_cm
     = [JObj [(k_not_the_object, WitCopy.trimmed_cm)]].
Proof.
  destruct WitCopy.served_ok as [H1 [H2 [H3 _]]]. destruct WitCopy.trimmed_differs as [H4 [H5 _]].
  split; [exact H1|]. split; [exact H2|]. split; [exact H3|]. split; [|exact H5].
  rewrite H2, H4. discriminate.
Qed.

(* ---------------- several kubernetes bindings on ONE resource: one shared informer ---------------- *)

(* Bindings with an equal FactoryIndex share one client-go informer; every delivery is handled by
   every binding's own handler (C09_ShareModel).  The snapshot a binding contributes when the hook
   runs - its Synchronization `objects`, the `snapshots` arrays under its name - is the snapshot of
   the cache of that binding ALONE on the resource after the same deliveries: a function of the
   deliveries and of ITS OWN options (jqFilter answers, keepFullObjectsInMemory) only *)
Theorem C09_share_snapshot_own : forall sh k b,
  names_distinct (sh_binds sh) -> nth_error (sh_binds sh) k = Some b ->
  hk_snapshots_for (share_hcase sh) (hk_evs (share_hcase sh)) (b_name b)
  = Some (snapshot (own_cache b k sh)).
Proof. exact share_snapshots_own. Qed.
Print Assumptions C09_share_snapshot_own.

(* the Event contexts of a binding for a delivery are those of the binding alone on the resource:
   object, filterResult and whether the event fires do not depend on the other handlers that were
   given the same object *)
Theorem C09_share_contexts_own : forall sh k b pre t s,
  names_distinct (sh_binds sh) -> nth_error (sh_binds sh) k = Some b ->
  hk_contexts (share_hcase sh) (share_events (sh_binds sh) pre) (HWatch (b_name b) t (view k s))
  = own_contexts b k (sh_initial sh) pre t s.
Proof. exact share_contexts_own. Qed.
Print Assumptions C09_share_contexts_own.

(* other neighbours, other options of the neighbours, another position in the configuration: as
   long as the binding sees the same objects and deliveries, it renders the same snapshot *)
Theorem C09_share_binding_independent : forall sh1 sh2 k1 k2 b,
  names_distinct (sh_binds sh1) -> names_distinct (sh_binds sh2) ->
  nth_error (sh_binds sh1) k1 = Some b -> nth_error (sh_binds sh2) k2 = Some b ->
  map (view k1) (sh_initial sh1) = map (view k2) (sh_initial sh2) ->
  deliveries_of k1 (sh_evs sh1) = deliveries_of k2 (sh_evs sh2) ->
  hk_snapshots_for (share_hcase sh1) (hk_evs (share_hcase sh1)) (b_name b)
  = hk_snapshots_for (share_hcase sh2) (hk_evs (share_hcase sh2)) (b_name b).
Proof. exact share_independent. Qed.
Print Assumptions C09_share_binding_independent.

(* the combined array of the bindings of one shared informer - Synchronization and Event items of
   all of them, rendered after every binding handled every delivery - conforms item by item to the
   contract of the item's OWN binding: `object` exactly when THAT binding keeps full objects,
   `filterResult` exactly when THAT binding has a jqFilter and equal to the jq result for the
   delivered object; F30 / F31 cannot occur here *)
Theorem C09_share_contract_partial : forall sh,
  hook_wf (share_hcase sh) = true -> T_hook (share_hcase sh) = false ->
  P_hook (share_hcase sh) (Some (run_hook (share_hcase sh))) = true.
Proof. exact share_contract. Qed.
Print Assumptions C09_share_contract_partial.

(* non-vacuity: `full` (keeps objects, jqFilter over .data) and `slim` (keepFullObjectsInMemory false,
   jqFilter over the name) on one ConfigMap namespace meet the hypotheses; the array
   [Synchronization full, Event full, Event slim, Synchronization slim] has four items; the predicate
   rejects the same array when the `object` of the Event item of `full` is the stub that is left when
   `slim` releases the body of the shared object *)
Example C09_share_hyp_met :
  names_distinct (sh_binds WitShare.sh) /\ hook_wf (share_hcase WitShare.sh) = true
  /\ T_hook (share_hcase WitShare.sh) = false
  /\ length (ho_items (run_hook (share_hcase WitShare.sh))) = 4%nat
  /\ P_hook (share_hcase WitShare.sh) (Some WitShare.gutted_obs) = false.
Proof. exact WitShare.sh_ok. Qed.

(* ---------------- the window between a binding's start and its unlock ---------------- *)

Definition C09_win_full_statement : Prop := win_full_statement.

(* for ALL sequences of deliveries, Synchronization runs and unlocks: an Event file - handed out by the
   unlock from the buffer of saved events, or at once - is the rendering (at some later moment: cache c,
   step n) of the KubeEvent built from ONE delivery (t, o) of the history; nothing that happened to the
   object afterwards is in it *)
Theorem C09_win_event_from_one_delivery : forall w x,
  In x (run_win w) -> wf_sync x = false ->
  exists t o c n, In (WDeliver t o) (wn_ops w)
                  /\ x = event_file (wn_version w) (wn_bind w) c n (t, o, event_of (wn_bind w) t o).
Proof. exact win_event_from_one_delivery. Qed.
Print Assumptions C09_win_event_from_one_delivery.

(* ... and that KubeEvent pairs the delivered object with the jq result of that same object *)
Theorem C09_win_saved_event_pairs_object_with_its_result : forall b t o,
  ke_type (event_of b t o) = KEvent /\ ke_wevs (event_of b t o) = [t]
  /\ ke_objs (event_of b t o) = [(w_id o, ofr_of_item (spec_item b o))].
Proof. exact event_of_pairs. Qed.
Print Assumptions C09_win_saved_event_pairs_object_with_its_result.

(* handleWatchEvent fires (or saves) exactly for the deliveries that pass the change filter *)
Theorem C09_win_fires_iff_passes : forall b a t w,
  Forall (fun p => wgood b (snd p)) a -> wgood b w ->
  handle b (img b a) t w
  = (img b (alive_step a (t, w)), if passes b a t w then Some (event_of b t w) else None).
Proof. exact handle_passes. Qed.
Print Assumptions C09_win_fires_iff_passes.

(* the window contract: the right number of files in the right order, each the documented context of
   its own delivery with filterResult = jq of the object shown - every configuration, every history *)
Theorem C09_win_contract_partial : forall w,
  win_wf w = true -> T_win w = false -> P_win w (Some (run_win w)) = true.
Proof. exact win_contract_partial. Qed.
Print Assumptions C09_win_contract_partial.

Theorem C09_win_contract_via_copy : forall w,
  win_canon w = true -> win_wf w = true -> T_win w = false -> P_win w (Some (run_win (win_via w))) = true.
Proof. exact win_contract_via_copy. Qed.
Print Assumptions C09_win_contract_via_copy.

Theorem C09_win_refuted :
  exists w, win_wf w = true /\ T_win w = true /\ P_win w (Some (run_win w)) = false.
Proof. exists WitWin.witness_win_F8. exact WitWin.win_refuted. Qed.
Print Assumptions C09_win_refuted.

(* non-vacuity: cm-1 exists, the Synchronization hook runs, cm-1 is modified three times in a row inside
   the window (the second time outside the part jqFilter .data selects), then the unlock: the hypotheses
   hold; the model writes the Synchronization file and, after the unlock, TWO Modified files - for the
   first and the third modification, each with its own object and its own filterResult; the collapsed
   observation (one file: newest object, filterResult of the first modification) violates P_win and the
   jq-asked-again clause *)
Example C09_win_hyp_met :
  win_wf WitWin.example_win = true /\ T_win WitWin.example_win = false
  /\ map (fun x => fo_out (wf_file x)) (skipn 1 (run_win WitWin.example_win))
     = [Some (JArr [WitWin.item_of 2 0]); Some (JArr [WitWin.item_of 3 1])]
  /\ P_win WitWin.example_win (Some WitWin.collapsed_obs) = false
  /\ forallb rejq_ok WitWin.collapsed_obs = false.
Proof.
  destruct WitWin.example_win_ok as [H1 [H2 [_ H3]]]. destruct WitWin.collapsed_rejected as [_ [H4 H5]].
  repeat split; assumption.
Qed.
