(* C14_ConcSpec.v — C14 for admission requests that overlap in time, written from the property text.

     "An AdmissionReview is answered with allowed=true only when THE hook bound to the requested
      webhook path RAN [for that review], exited zero and wrote a valid response with allowed true
      ... The answer echoes the request UID, carries THE HOOK'S message, warnings and ... patch"

   The text speaks of one review and of the run of the hook made for it.  With several reviews in
   flight it says the same of each: every request is judged by the predicate C14_Spec.P, against
   what ITS OWN run did (the exit status of the process started for it, what that process wrote to
   the files it was given) - and against nothing else: not the order in which the runs started,
   wrote or ended, not what the runs for other requests wrote.  Every request is answered. *)
From Verif Require Import Common C14_Model C14_Spec C14_ConcModel.

(* one request of a session with what was observed for it: the HTTP answer, which hook process ran
   for which binding *)
Definition cobs := (creq * (answer * ran))%type.

Definition P_one (regs : list reg) (x : cobs) : bool :=
  let '(q, (a, who)) := x in P regs (cq_path q) (cq_body q) (cq_run q) a who.

Definition P_conc (regs : list reg) (xs : list cobs) : bool := forallb (P_one regs) xs.
