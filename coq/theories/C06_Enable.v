(* C06_Enable.v — executable model of the handler of ONE hook's EnableKubernetesBindings task
   in an environment in which creating a monitor may fail (Op_Model treats this task as always
   succeeding).  It transcribes
     bootstrapMainQueue: the task exists only for hooks that have kubernetes bindings  (operator.go)
     taskHandleEnableKubernetesBindings: error -> Status "Fail" (the queue increments the
       failure count and runs the SAME task again after the back-off delay), success ->
       one HookRun task per BindingExecutionInfo, returned as HeadTasks               (operator.go)
     HookController.HandleEnableKubernetesBindings: createTasksFn is called only when the
       controller returned no error                                       (hook_controller.go)
     kubernetesBindingsController.EnableKubernetesBindings: for each binding in config order
       AddMonitor (may fail: the error is returned at once, nothing is undone),
       setBindingMonitorLinks, StartMonitor, HandleEvent(Synchronization)
                                                        (kubernetes_bindings_controller.go)
     kubeEventsManager.AddMonitor: a NEW monitor object is created and stored under the
       monitor id (a monitor already stored under this id is overwritten in the map: it is
       never stopped - its informers keep running, its events stay locked for ever)
                                                                    (kube_events_manager.go)
   The environment is an input: a finite failure pattern, a list of pairs (attempt, position
   of the binding in the hook's configuration) = "AddMonitor of that binding fails during
   that attempt" (e.g. the initial LIST of its kind returns an error).
   No proofs here. *)
From Verif Require Import Common Op_Model.
Open Scope N_scope.

Definition fpattern := list (N * N).

Definition fails (F : fpattern) (a i : N) : bool :=
  existsb (fun p => N.eqb (fst p) a && N.eqb (snd p) i) F.

(* kubeEventsManager + kubernetesBindingsController state of one hook *)
Record kstate := mkK {
  k_mons : list N;                 (* keys of kubeEventsManager.Monitors (latest first) *)
  k_links : list (N * kbinding);   (* BindingMonitorLinks: monitor id -> binding config (latest first) *)
  k_made : list N                  (* every monitor object created and started so far, in order: the
                                      ones replaced in the map are orphaned, not stopped *)
}.
Definition k_init : kstate := mkK [] [] [].

Definition has_monitor (st : kstate) (m : N) : bool := mem_N m (k_mons st).
Definition get_link (l : list (N * kbinding)) (m : N) : option kbinding :=
  match find (fun p => N.eqb (fst p) m) l with Some p => Some (snd p) | None => None end.
Definition can_handle (st : kstate) (m : N) : bool :=
  match get_link (k_links st) m with Some _ => true | None => false end.

(* AddMonitor succeeded, setBindingMonitorLinks, StartMonitor *)
Definition add_monitor (st : kstate) (b : kbinding) : kstate :=
  mkK (kb_mon b :: k_mons st) ((kb_mon b, b) :: k_links st) (k_made st ++ [kb_mon b]).

(* what the environment sees of one attempt: the AddMonitor calls in order *)
Inductive call := AddOk (mon : N) | AddFail (mon : N).

(* EnableKubernetesBindings, attempt [a], bindings from position [i] on.  The result is the
   list of BindingExecutionInfo (here: the binding config HandleEvent found under the monitor
   id, None = "Possible bug!!! Unknown kube event") or None = an error was returned *)
Fixpoint enable_bindings (F : fpattern) (a i : N) (bs : list kbinding) (st : kstate)
  : kstate * list call * option (list (option kbinding)) :=
  match bs with
  | [] => (st, [], Some [])
  | b :: r =>
      if fails F a i then (st, [AddFail (kb_mon b)], None)
      else
        let st1 := add_monitor st b in
        let info := get_link (k_links st1) (kb_mon b) in
        match enable_bindings F a (N.succ i) r st1 with
        | (st2, cs, res) => (st2, AddOk (kb_mon b) :: cs, option_map (cons info) res)
        end
  end.

(* the HookRun task taskHandleEnableKubernetesBindings makes of one BindingExecutionInfo *)
Definition info_task (h : hook) (info : option kbinding) : task :=
  match info with
  | Some b => mkTask HookRun (h_id h) BKube [mkCtx (kb_name b) KSync (kb_group b) 0]
                     (kb_allow b) (kb_group b) [kb_mon b] (kb_execsync b) 0 0
  | None => mkTask HookRun (h_id h) BKube [] false 0 [0] false 0 0
  end.

(* what is observed of one run of the task handler *)
Record attempt := mkAtt {
  at_calls : list call;
  at_ok : bool;              (* Status "Success" (true) / "Fail" *)
  at_head : list task;       (* TaskResult.HeadTasks *)
  at_has : list bool;        (* afterwards, per binding in config order: HasMonitor(monitor id) *)
  at_link : list bool        (* afterwards, per binding: CanHandleKubeEvent(monitor id) *)
}.

Definition handle_enable (h : hook) (F : fpattern) (a : N) (st : kstate) : kstate * attempt :=
  match enable_bindings F a 0 (h_kube h) st with
  | (st', cs, res) =>
      (st', mkAtt cs (match res with Some _ => true | None => false end)
                  (match res with Some infos => map (info_task h) infos | None => [] end)
                  (map (fun b => has_monitor st' (kb_mon b)) (h_kube h))
                  (map (fun b => can_handle st' (kb_mon b)) (h_kube h)))
  end.

(* the queue: run the head task; "Fail" -> failure count + 1, the same task again *)
Fixpoint run_enable (fuel : nat) (h : hook) (F : fpattern) (a : N) (st : kstate) : list attempt * kstate :=
  match fuel with
  | O => ([], st)
  | S f =>
      match handle_enable h F a st with
      | (st', att) =>
          if at_ok att then ([att], st')
          else match run_enable f h F (N.succ a) st' with
               | (rest, st'') => (att :: rest, st'')
               end
      end
  end.

(* bootstrapMainQueue creates the task only if the hook has kubernetes bindings; the harness
   lets the task fail at most [length F] times and run once more *)
Definition enable_task (h : hook) (F : fpattern) : list attempt * kstate :=
  match h_kube h with
  | [] => ([], k_init)
  | _ => run_enable (S (length F)) h F 0 k_init
  end.

(* ---- after the task: the Synchronization tasks run (Op_Model); a successful one unlocks the
   monitors of its MonitorIDs (UnlockKubernetesEventsFor: GetMonitor(id), nil -> nothing).
   The harness probes each binding in config order: an object the binding watches is created
   while the binding is still locked (the monitor buffers, nothing is emitted - see C01), then
   the monitors of the head tasks that name this binding's monitor are unlocked.  Observed per
   binding: the monitors whose KubeEvents were emitted before / after the unlock *)
Definition probe_binding (st : kstate) (heads : list task) (b : kbinding) : list N * list N :=
  ([], if existsb (fun t => mem_N (kb_mon b) (t_mids t)) heads && has_monitor st (kb_mon b)
       then [kb_mon b] else []).

Definition heads_of (atts : list attempt) : list task :=
  flat_map (fun x => if at_ok x then at_head x else []) atts.

Definition enable_probe (h : hook) (F : fpattern) : list (list N * list N) :=
  match enable_task h F with
  | (atts, st) => map (probe_binding st (heads_of atts)) (h_kube h)
  end.
