(* C12_PlaceSpec.v — "A hook is started IN ITS OWN DIRECTORY", as a decidable predicate over what the hook
   process reports.  Written from the property text and the file-system vocabulary of C12_PlaceModel part 1
   (entries, [resolve_from] = what the operating system does with a path); it does not mention [launch].

   The hook's own directory is the directory in which the hook was FOUND: the hook manager walks the hooks
   root through real directories (filepath.Walk does not follow links) and a hook is an entry of one of them.
   So for a hook named rel = d1/../dk/name the own directory is the directory reached from the hooks root
   through the entries d1 .. dk, each a real directory ([descend]) - whatever the entry "name" is: a regular
   file, a symbolic link into another directory of the tree, out of the tree, to a script shared by several
   hooks, a chain of links, a ConfigMap-style double link.  Two observables: the working directory the
   process reports, and what it finds under ./settings (a file read relative to its directory): that must be
   the settings file of the own directory.  And, as for every execution: no temp file stays behind, and a hook
   that could not be started is a failed execution. *)
From Verif Require Import Common C12_PlaceModel.
Open Scope N_scope.

Fixpoint descend (s : tfs) (d : N) (ns : list N) : option N :=
  match ns with
  | [] => Some d
  | n :: r => match entry s d n with Some (TDir d') => descend s d' r | _ => None end
  end.

(* the directory the hooks root is *)
Definition hooks_root_dir (i : pinput) : option N :=
  match resolve (pi_fs i) (pi_root i) with Some (RDir r) => Some r | _ => None end.

Definition own_dir (i : pinput) (rel : list N) : option N :=
  match hooks_root_dir i with
  | Some r => descend (pi_fs i) r (removelast rel)
  | None => None
  end.

Definition optN_eqb (a b : option N) : bool :=
  match a, b with Some x, Some y => x =? y | None, None => true | _, _ => false end.

Definition P_place1 (i : pinput) (o : pobs1) : bool :=
  match own_dir i (po_rel o) with
  | None => false                                     (* not a hook of this tree: the case is malformed *)
  | Some d =>
      (if po_started o
       then (po_cwd o =? d) && optN_eqb (po_settings o) (rel_read (pi_fs i) d (pi_settings i))
       else po_failed o)
      && (po_tmp_after o =? 0)
  end.

Definition P_place (i : pinput) (os : list pobs1) : bool := forallb (P_place1 i) os.

(* every entry a walk from directory d through real directories can report (filepath.Walk does not follow
   links; the filters of the discovery - hidden names, extensions, the x bit - only take entries away) *)
Fixpoint found (fuel : nat) (s : tfs) (d : N) : list (list N) :=
  match fuel with
  | O => []
  | S k =>
      flat_map (fun e =>
        if fst (fst e) =? d
        then match entry s d (snd (fst e)) with
             | Some (TDir sub) => map (cons (snd (fst e))) (found k s sub)
             | Some _ => [[snd (fst e)]]
             | None => []
             end
        else []) (t_entries s)
  end.
