(* C06_Spec.v — C06 over the operator harness' observations.
   (1) the successful onStartup executions follow (ORDER, path) order, each hook once;
   (2) nothing else is executed before every onStartup hook has succeeded;
   (3) no Synchronization context of a binding with executeHookOnSynchronization=false or
       of a v0 hook is ever shown to a hook;
   (4) a monitor gets unlocked (Events may flow) only by a SUCCESSFUL execution (exit 0, or a
       failure the task allows) in the main queue whose task covers it, or because the binding is exempt from
       Synchronization;
   (5) schedule tasks of a hook exist only once all its kubernetes bindings are unlocked;
   (6) Synchronization executions run in the main queue. *)
From Verif Require Import Common Op_Model Op_Corr Op_Spec.
Open Scope N_scope.

(* expected order: stable sort by ORDER of the path-ordered hooks; written here directly as
   "insert into a list sorted by (order, position)" — an ordinary stable insertion sort *)
Fixpoint ins (x : N * Z) (l : list (N * Z)) : list (N * Z) :=
  match l with
  | [] => [x]
  | y :: r => if Z.leb (snd x) (snd y) then x :: l else y :: ins x r
  end.
Definition expected_startup (cfg : config) : list N :=
  map fst (fold_right ins [] (flat_map (fun h => match h_startup h with Some o => [(h_id h, o)] | None => [] end) cfg)).

Definition is_startup_exec (e : eobs) : bool :=
  match eo_ctxs e with
  | (b, k, _, _) :: _ => N.eqb b 0
  | [] => false
  end.

Fixpoint prefix_N (a b : list N) : bool :=
  match a, b with
  | [], _ => true
  | x :: a', y :: b' => N.eqb x y && prefix_N a' b'
  | _ :: _, [] => false
  end.

Definition exec_shows_exempt_sync (cfg : config) (e : eobs) : bool :=
  existsb (fun hc => match hc with (b, k, _, _) => N.eqb k K_Sync && sync_exempt cfg b end) (eo_ctxs e).

Definition hook_kube_unlocked (cfg : config) (h : N) (unl : list N) : bool :=
  match find_hook cfg h with
  | Some x => forallb (fun b => mem_N (kb_mon b) unl) (h_kube x)
  | None => true
  end.

(* [done] = hooks whose onStartup execution has succeeded so far, in order *)
Fixpoint steps_ok (cfg : config) (done : list N) (prev : sobs) (acts : list action) (obs : list sobs) : bool :=
  match acts, obs with
  | [], [] => true
  | a :: acts', cur :: obs' =>
      (* a successful end of a startup execution *)
      let done' :=
        match a with
        | Finish q true =>
            match find_e q (so_execs prev) with
            | Some e => if is_startup_exec e then done ++ [eo_hook e] else done
            | None => done
            end
        | _ => done
        end in
      let news := new_execs a prev cur in
      negb (so_bad cur)
      && prefix_N done' (expected_startup cfg)                                         (* 1 *)
      && forallb (fun e => is_startup_exec e
                           || N.eqb (N.of_nat (length done')) (N.of_nat (length (expected_startup cfg)))) news   (* 2 *)
      && forallb (fun e => negb (exec_shows_exempt_sync cfg e)) (so_execs cur)           (* 3 *)
      && forallb (fun b => mem_N b (so_unlocked prev)
                           || sync_exempt cfg b
                           || match a with
                              | Finish q ok =>
                                  N.eqb q 0 && match find_q 0 (so_queues prev) with
                                               | Some m => match qo_items m with
                                                           | t :: _ => (ok || t_allow t) && mem_N b (t_mids t)
                                                           | [] => false
                                                           end
                                               | None => false
                                               end
                              | FinishWait q =>
                                  N.eqb q 0 && match find_q 0 (so_queues prev) with
                                               | Some m => match qo_items m with
                                                           | t :: _ => t_allow t && mem_N b (t_mids t)
                                                           | [] => false
                                                           end
                                               | None => false
                                               end
                              | _ => false
                              end) (so_unlocked cur)                                     (* 4 *)
      && forallb (fun q => forallb (fun t => match t_type t, t_btype t with
                                             | HookRun, BSchedule => hook_kube_unlocked cfg (t_hook t) (so_unlocked cur)
                                             | _, _ => true
                                             end) (qo_items q)) (so_queues cur)          (* 5 *)
      && forallb (fun e => if existsb (fun hc => match hc with (_, k, _, _) => N.eqb k K_Sync end) (eo_ctxs e)
                           then N.eqb (eo_queue e) 0 else true) (so_execs cur)           (* 6 *)
      && steps_ok cfg done' cur acts' obs'
  | _, _ => false
  end.

Definition P (c : case) : bool := steps_ok (c_cfg c) [] empty_obs (c_acts c) (c_obs c).
