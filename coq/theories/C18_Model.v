(* C18_Model.v — executable model of the execution rate limit of a hook.  NO proofs here.

   Go anchors (read side by side):
     pkg/hook/config/config_v1.go  CheckAndConvertSettings      -> [check_and_convert_settings]
     pkg/hook/hook.go              CreateRateLimiter            -> [create_rate_limiter]
     pkg/hook/hook.go              RateLimitWait = RateLimiter.Wait(ctx)
     golang.org/x/time@v0.11.0/rate/rate.go
                                   Every, NewLimiter            -> [every], [new_limiter]
                                   advance, reserveN (n = 1)    -> [advance], [reserve_n]
                                   ReserveN(t,1)                -> [reserve]
                                   WaitN(ctx,1) with a deadline -> [reserve_n] with [Some budget]

   Units.  All instants and durations are integers in nanoseconds (time.Duration / the
   harness' synthetic clock).  The Go limiter keeps [tokens : float64] and converts with
   tokens = seconds * limit, limit = 1 / interval.Seconds().  Here tokens are kept
   SCALED BY THE INTERVAL: [b_tokens] = tokens * I  (so one token = I units and
   tokensFromDuration(d) = d units, durationFromTokens(x) = x ns): no floats.  The Go
   arithmetic differs from this exact arithmetic by float rounding and by the truncation
   in [time.Duration(duration)]; the correspondence allows 1 ns per act time.

   Model assumptions (stated, not hidden): durations stay below 2^63 ns (no saturation in
   time.Time.Add / durationFromTokens: about 292 years), and the limiter's zero [last]
   (Go's zero time.Time, year 1) lies more than 2^63 ns before every instant used, so
   that the first [t.Sub(last)] saturates to maxDuration, as it does for every real clock. *)
From Verif Require Import Common.
Open Scope Z_scope.

Definition max_duration : Z := 9223372036854775807.   (* math.MaxInt64, = rate.InfDuration *)
Definition min_int32 : Z := -2147483648.
Definition max_int32 : Z := 2147483647.

(* ---- settings: config_v1.go ---- *)

(* the two keys of `settings:` as they arrive in SettingsV1 (strings; a key that is absent
   is the empty string).  The harness knows the value it wrote: the duration in ns and the
   integer.  [None] = key absent. *)
Record raw_settings := mkRaw { r_interval : option Z; r_burst : option Z }.

(* htypes.Settings *)
Record settings := mkSettings { s_interval : Z; s_burst : Z }.

(* CheckAndConvertSettings: nil -> (nil, nil); time.ParseDuration("") and
   strconv.ParseInt("", 10, 32) fail, ParseInt also fails outside int32.
   Result: None = error (the hook configuration is rejected),
           Some None = no settings, Some (Some s) = settings. *)
Definition check_and_convert_settings (rs : option raw_settings) : option (option settings) :=
  match rs with
  | None => Some None
  | Some r =>
      match r_interval r, r_burst r with
      | Some i, Some b =>
          if (min_int32 <=? b) && (b <=? max_int32) then Some (Some (mkSettings i b)) else None
      | _, _ => None
      end
  end.

(* ---- the limiter: rate.go ---- *)

(* rate.Limit: [None] = rate.Inf, [Some I] = one event every I ns (I > 0) *)
Definition limit := option Z.

(* rate.Every *)
Definition every (interval : Z) : limit :=
  if interval <=? 0 then None else Some interval.

Record bucket := mkBucket {
  b_limit : limit;
  b_burst : Z;
  b_tokens : Z;            (* tokens * I  (meaningless when the limit is Inf) *)
  b_last : option Z        (* None = zero time.Time *)
}.

Definition interval_of (l : limit) : Z := match l with Some i => i | None => 1 end.

(* rate.NewLimiter(r, b): tokens = float64(b) *)
Definition new_limiter (r : limit) (b : Z) : bucket :=
  mkBucket r b (b * interval_of r) None.

(* hook.go CreateRateLimiter:
     limit := rate.Inf; burst := 1
     if cfg.Settings != nil {
       if ExecutionMinInterval != 0 { limit = rate.Every(ExecutionMinInterval) }
       if ExecutionBurst != 0       { burst = ExecutionBurst } }
     return rate.NewLimiter(limit, burst) *)
Definition create_rate_limiter (cfg : option settings) : bucket :=
  match cfg with
  | None => new_limiter None 1
  | Some s =>
      new_limiter (if s_interval s =? 0 then None else every (s_interval s))
                  (if s_burst s =? 0 then 1 else s_burst s)
  end.

(* Limiter.advance(t) for a finite limit with interval I:
     last := lim.last; if t.Before(last) { last = t }
     elapsed := t.Sub(last)                       (saturates for the zero time)
     tokens := lim.tokens + tokensFromDuration(elapsed)
     if tokens > burst { tokens = burst } *)
Definition advance (I : Z) (b : bucket) (t : Z) : Z :=
  let elapsed := match b_last b with
                 | None => max_duration
                 | Some l => t - Z.min l t
                 end in
  Z.min (b_tokens b + elapsed) (b_burst b * I).

(* Limiter.reserveN(t, 1, maxFutureReserve); [max_future = None] is InfDuration.
     if lim.limit == Inf { return ok, timeToAct = t }        (state untouched)
     tokens := lim.advance(t) - 1
     if tokens < 0 { waitDuration = durationFromTokens(-tokens) }
     ok := 1 <= lim.burst && waitDuration <= maxFutureReserve
     if ok { timeToAct = t + waitDuration; lim.last = t; lim.tokens = tokens }
   Result: new state and [Some timeToAct] / [None] (not ok). *)
Definition reserve_n (b : bucket) (t : Z) (max_future : option Z) : bucket * option Z :=
  match b_limit b with
  | None => (b, Some t)
  | Some iv =>
      let tokens := advance iv b t - iv in
      let wait := Z.max 0 (- tokens) in
      let ok := (1 <=? b_burst b) &&
                match max_future with None => true | Some m => wait <=? m end in
      if ok then (mkBucket (b_limit b) (b_burst b) tokens (Some t), Some (t + wait))
      else (b, None)
  end.

(* ReserveN(t, 1) *)
Definition reserve (b : bucket) (t : Z) : bucket * option Z := reserve_n b t None.

(* act times for a list of request instants.  Requests are serialised by the limiter's
   mutex; Wait(ctx) = reserveN(now) and then sleep until timeToAct (the sleep is the
   runtime's timer: not modelled), after which the operator starts the hook. *)
Fixpoint grants (b : bucket) (arrivals : list Z) : list (option Z) :=
  match arrivals with
  | [] => []
  | t :: r => let (b', a) := reserve b t in a :: grants b' r
  end.

(* Hook.RateLimitWait(ctx) with a context whose deadline is [budget] ns away, called
   [n] times at (practically) one instant [t]: true = returned nil (the execution starts),
   false = "would exceed context deadline" / "exceeds limiter's burst" (operator: Repeat).
   wait() fails early when 1 > burst && limit != Inf; that is the same [ok] test. *)
Fixpoint wait_probe (b : bucket) (t : Z) (budget : Z) (n : nat) : list bool :=
  match n with
  | O => []
  | S n' => let (b', a) := reserve_n b t (Some budget) in
            match a with
            | Some _ => true :: wait_probe b' t budget n'
            | None => false :: wait_probe b' t budget n'
            end
  end.

(* whole path from the `settings:` block to the limiter; None = configuration rejected *)
Definition limiter_of_config (rs : option raw_settings) : option bucket :=
  match check_and_convert_settings rs with
  | None => None
  | Some cfg => Some (create_rate_limiter cfg)
  end.
