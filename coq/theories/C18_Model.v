(* C18_Model.v — executable model of the execution rate limit of a hook.  NO proofs here.
   Three parts: (1) the limiter level: settings -> CreateRateLimiter -> token bucket;
   (2) the operator's task flow (queues, handler, combining, retry of failed runs) without
   the limiter; (3) the operator level: the queue workers of (2) with the limiter call of
   taskHandleHookRun in front of every HookRun task, one limiter (1) per hook;
   (4) at the end of the file, the worker of ONE queue shared by several hooks with the instants
   of queueing explicit ([serve]): when the reservation is made relative to queueing and starting.

   Go anchors of part 1 (read side by side):
     pkg/hook/config/config_v1.go  CheckAndConvertSettings      -> [check_and_convert_settings]
     pkg/hook/hook.go              CreateRateLimiter            -> [create_rate_limiter]
     pkg/hook/hook.go              RateLimitWait = RateLimiter.Wait(ctx)
     golang.org/x/time@v0.11.0/rate/rate.go
                                   Every, NewLimiter            -> [every], [new_limiter]
                                   advance, reserveN (n = 1)    -> [advance], [reserve_n]
                                   ReserveN(t,1)                -> [reserve]
                                   WaitN(ctx,1) with a deadline -> [reserve_n] with [Some budget]

   Units.  All instants and durations are integers in nanoseconds (time.Duration / the
   harness' synthetic clock).  The Go limiter keeps [tokens : float64] and converts with
   tokens = seconds * limit, limit = 1 / interval.Seconds().  Here tokens are kept
   SCALED BY THE INTERVAL: [b_tokens] = tokens * I  (so one token = I units and
   tokensFromDuration(d) = d units, durationFromTokens(x) = x ns): no floats.  The Go
   arithmetic differs from this exact arithmetic by float rounding and by the truncation
   in [time.Duration(duration)]; the correspondence allows 1 ns per act time.

   Model assumptions (stated, not hidden): durations stay below 2^63 ns (no saturation in
   time.Time.Add / durationFromTokens: about 292 years), and the limiter's zero [last]
   (Go's zero time.Time, year 1) lies more than 2^63 ns before every instant used, so
   that the first [t.Sub(last)] saturates to maxDuration, as it does for every real clock. *)
From Verif Require Import Common.
Open Scope Z_scope.

Definition max_duration : Z := 9223372036854775807.   (* math.MaxInt64, = rate.InfDuration *)
Definition min_int32 : Z := -2147483648.
Definition max_int32 : Z := 2147483647.

(* ---- settings: config_v1.go ---- *)

(* the two keys of `settings:` as they arrive in SettingsV1 (strings; a key that is absent
   is the empty string).  The harness knows the value it wrote: the duration in ns and the
   integer.  [None] = key absent. *)
Record raw_settings := mkRaw { r_interval : option Z; r_burst : option Z }.

(* htypes.Settings *)
Record settings := mkSettings { s_interval : Z; s_burst : Z }.

(* CheckAndConvertSettings: nil -> (nil, nil); time.ParseDuration("") and
   strconv.ParseInt("", 10, 32) fail, ParseInt also fails outside int32.
   Result: None = error (the hook configuration is rejected),
           Some None = no settings, Some (Some s) = settings. *)
Definition check_and_convert_settings (rs : option raw_settings) : option (option settings) :=
  match rs with
  | None => Some None
  | Some r =>
      match r_interval r, r_burst r with
      | Some i, Some b =>
          if (min_int32 <=? b) && (b <=? max_int32) then Some (Some (mkSettings i b)) else None
      | _, _ => None
      end
  end.

(* ---- the limiter: rate.go ---- *)

(* rate.Limit: [None] = rate.Inf, [Some I] = one event every I ns (I > 0) *)
Definition limit := option Z.

(* rate.Every *)
Definition every (interval : Z) : limit :=
  if interval <=? 0 then None else Some interval.

Record bucket := mkBucket {
  b_limit : limit;
  b_burst : Z;
  b_tokens : Z;            (* tokens * I  (meaningless when the limit is Inf) *)
  b_last : option Z        (* None = zero time.Time *)
}.

Definition interval_of (l : limit) : Z := match l with Some i => i | None => 1 end.

(* rate.NewLimiter(r, b): tokens = float64(b) *)
Definition new_limiter (r : limit) (b : Z) : bucket :=
  mkBucket r b (b * interval_of r) None.

(* hook.go CreateRateLimiter:
     limit := rate.Inf; burst := 1
     if cfg.Settings != nil {
       if ExecutionMinInterval != 0 { limit = rate.Every(ExecutionMinInterval) }
       if ExecutionBurst != 0       { burst = ExecutionBurst } }
     return rate.NewLimiter(limit, burst) *)
Definition create_rate_limiter (cfg : option settings) : bucket :=
  match cfg with
  | None => new_limiter None 1
  | Some s =>
      new_limiter (if s_interval s =? 0 then None else every (s_interval s))
                  (if s_burst s =? 0 then 1 else s_burst s)
  end.

(* Limiter.advance(t) for a finite limit with interval I:
     last := lim.last; if t.Before(last) { last = t }
     elapsed := t.Sub(last)                       (saturates for the zero time)
     tokens := lim.tokens + tokensFromDuration(elapsed)
     if tokens > burst { tokens = burst } *)
Definition advance (I : Z) (b : bucket) (t : Z) : Z :=
  let elapsed := match b_last b with
                 | None => max_duration
                 | Some l => t - Z.min l t
                 end in
  Z.min (b_tokens b + elapsed) (b_burst b * I).

(* Limiter.reserveN(t, 1, maxFutureReserve); [max_future = None] is InfDuration.
     if lim.limit == Inf { return ok, timeToAct = t }        (state untouched)
     tokens := lim.advance(t) - 1
     if tokens < 0 { waitDuration = durationFromTokens(-tokens) }
     ok := 1 <= lim.burst && waitDuration <= maxFutureReserve
     if ok { timeToAct = t + waitDuration; lim.last = t; lim.tokens = tokens }
   Result: new state and [Some timeToAct] / [None] (not ok). *)
Definition reserve_n (b : bucket) (t : Z) (max_future : option Z) : bucket * option Z :=
  match b_limit b with
  | None => (b, Some t)
  | Some iv =>
      let tokens := advance iv b t - iv in
      let wait := Z.max 0 (- tokens) in
      let ok := (1 <=? b_burst b) &&
                match max_future with None => true | Some m => wait <=? m end in
      if ok then (mkBucket (b_limit b) (b_burst b) tokens (Some t), Some (t + wait))
      else (b, None)
  end.

(* ReserveN(t, 1) *)
Definition reserve (b : bucket) (t : Z) : bucket * option Z := reserve_n b t None.

(* act times for a list of request instants.  Requests are serialised by the limiter's
   mutex; Wait(ctx) = reserveN(now) and then sleep until timeToAct (the sleep is the
   runtime's timer: not modelled), after which the operator starts the hook. *)
Fixpoint grants (b : bucket) (arrivals : list Z) : list (option Z) :=
  match arrivals with
  | [] => []
  | t :: r => let (b', a) := reserve b t in a :: grants b' r
  end.

(* Hook.RateLimitWait(ctx) with a context whose deadline is [budget] ns away, called
   [n] times at (practically) one instant [t]: true = returned nil (the execution starts),
   false = "would exceed context deadline" / "exceeds limiter's burst" (operator: Repeat).
   wait() fails early when 1 > burst && limit != Inf; that is the same [ok] test. *)
Fixpoint wait_probe (b : bucket) (t : Z) (budget : Z) (n : nat) : list bool :=
  match n with
  | O => []
  | S n' => let (b', a) := reserve_n b t (Some budget) in
            match a with
            | Some _ => true :: wait_probe b' t budget n'
            | None => false :: wait_probe b' t budget n'
            end
  end.

(* whole path from the `settings:` block to the limiter; None = configuration rejected *)
Definition limiter_of_config (rs : option raw_settings) : option bucket :=
  match check_and_convert_settings rs with
  | None => None
  | Some cfg => Some (create_rate_limiter cfg)
  end.

(* ======================================================================================
   The operator's task flow.  Transcribed, at task granularity, from
     bootstrapMainQueue / initAndStartHookQueues        (operator.go)
     ManagerEventsHandler.Start                         (manager_events_handler.go)
     TaskQueue.Start worker loop                        (task_queue.go)
     taskHandler / taskHandleEnableKubernetesBindings / taskHandleHookRun incl. the
       Synchronization skip rules, combining, allowFailure, unlock   (operator.go)
     combineBindingContextForHook                       (combine_binding_context.go)
     GetHooksInOrder(OnStartup)                         (hook_manager.go)
   This part is the task-flow model shared by C03/C04/C06/C17 (Op_Model.v as of commit
   a93bce0), kept as a local copy so that C18 does not move when the shared file does;
   [op_advance] is Op_Model.advance.  It has NO limiter: the workers with the limiter call
   follow below ([advance_q_lim] ...), and C18_op_unlimited_is_plain_operator ties the two. *)
Close Scope Z_scope.
Inductive btype := BOnStartup | BKube | BSchedule.
Inductive ckind := KStartup | KSync | KEvent | KSchedule.
Inductive ttype := HookRun | EnableKube | EnableSched.

(* a binding context, reduced to what decides the flow and what the hook can tell apart *)
Record ctx := mkCtx {
  c_binding : N;        (* binding name (dense number; 0 = "onStartup") *)
  c_kind : ckind;
  c_group : N;          (* 0 = no group *)
  c_obj : N             (* payload: object/event number for Event contexts, else 0 *)
}.

Record task := mkTask {
  t_type : ttype;
  t_hook : N;
  t_btype : btype;
  t_ctxs : list ctx;
  t_allow : bool;       (* HookMetadata.AllowFailure *)
  t_group : N;          (* HookMetadata.Group *)
  t_mids : list N;      (* HookMetadata.MonitorIDs *)
  t_execsync : bool;    (* HookMetadata.ExecuteOnSynchronization *)
  t_queue : N;          (* queue name; 0 = "main" *)
  t_fail : N            (* failure count *)
}.

(* ---- static configuration: hooks in path order ---- *)
Record kbinding := mkKb {
  kb_name : N; kb_queue : N; kb_group : N; kb_allow : bool; kb_execsync : bool;
  kb_mon : N            (* monitor id *)
}.
Record sbinding := mkSb {
  sb_name : N; sb_queue : N; sb_group : N; sb_allow : bool; sb_cron : N
}.
Record hook := mkHook {
  h_id : N; h_v0 : bool; h_startup : option Z;
  h_kube : list kbinding; h_sched : list sbinding
}.
Definition config := list hook.

Definition find_hook (cfg : config) (h : N) : option hook :=
  find (fun x => N.eqb (h_id x) h) cfg.

(* ---- dynamic state ---- *)
Record qstate := mkQ {
  q_name : N;
  q_items : list task;
  q_running : option bool
    (* Some isSync: the worker is inside the handler of the head task (a hook execution is
       open); isSync is hookMeta.IsSynchronization() as computed when the task was picked,
       i.e. BEFORE combining *)
}.

Definition is_running (q : qstate) : bool := match q_running q with Some _ => true | None => false end.

Record state := mkSt {
  queues : list qstate;
  sched_on : list N;    (* hooks whose schedule bindings are enabled *)
  unlocked : list N;    (* monitors whose events are unlocked *)
  mon_started : list N; (* monitors created and started *)
  stopped : bool        (* Shutdown() was called: queue contexts are cancelled *)
}.

Inductive action :=
| Boot
| Tick (c : N)                         (* a crontab fires: ScheduleManager.Ch() *)
| KubeEv (mon : N) (obj : N)           (* an unlocked monitor emits an event: KubeEventsManager.Ch();
                                          obj numbers the event (object and watch-event type) *)
| Finish (q : N) (ok : bool)           (* the hook execution open in queue q ends *)
| Stop                                 (* Shutdown() *)
| Idle.                                (* nothing happens (time passes: used by timed scripts) *)

(* ---- bootstrap ---- *)

(* stable insertion sort by ORDER (GetHooksInOrder(OnStartup) after the F2 repair:
   sort.SliceStable on the path-ordered list) *)
Fixpoint insert_by_order (x : hook * Z) (l : list (hook * Z)) : list (hook * Z) :=
  match l with
  | [] => [x]
  | y :: r => if Z.leb (snd x) (snd y) then x :: y :: r else y :: insert_by_order x r
  end.
Definition sort_by_order (l : list (hook * Z)) : list (hook * Z) :=
  fold_right insert_by_order [] l.

Definition startup_hooks (cfg : config) : list hook :=
  map fst (sort_by_order
             (flat_map (fun h => match h_startup h with Some o => [(h, o)] | None => [] end) cfg)).

Definition startup_ctx : ctx := mkCtx 0 KStartup 0 0.

(* onStartup and Enable* tasks are created without a queue name (""): the harness maps
   the empty name to this number, which never names a queue *)
Definition no_queue : N := 1000.

Definition startup_task (h : hook) : task :=
  mkTask HookRun (h_id h) BOnStartup [startup_ctx] false 0 [] false no_queue 0.

Definition enable_tasks (h : hook) : list task :=
  (match h_kube h with [] => [] | _ => [mkTask EnableKube (h_id h) BKube [] false 0 [] false no_queue 0] end)
  ++ (match h_sched h with [] => [] | _ => [mkTask EnableSched (h_id h) BSchedule [] false 0 [] false no_queue 0] end).

Definition boot_main (cfg : config) : list task :=
  map startup_task (startup_hooks cfg) ++ flat_map enable_tasks cfg.

Definition has_queue (qs : list qstate) (n : N) : bool := existsb (fun q => N.eqb (q_name q) n) qs.

Definition add_queue (qs : list qstate) (n : N) : list qstate :=
  if has_queue qs n then qs else qs ++ [mkQ n [] None].

(* initAndStartHookQueues: queues of schedule bindings first, then of kubernetes bindings *)
Definition boot_queues (cfg : config) : list qstate :=
  let qs0 := [mkQ 0 (boot_main cfg) None] in
  let qs1 := fold_left add_queue (flat_map (fun h => map sb_queue (h_sched h)) cfg) qs0 in
  fold_left add_queue (flat_map (fun h => map kb_queue (h_kube h)) cfg) qs1.

(* ---- events handler ---- *)

Definition sched_tasks (cfg : config) (on : list N) (c : N) : list task :=
  flat_map (fun h =>
    if mem_N (h_id h) on then
      flat_map (fun b =>
        if N.eqb (sb_cron b) c then
          [mkTask HookRun (h_id h) BSchedule [mkCtx (sb_name b) KSchedule (sb_group b) 0]
                  (sb_allow b) (sb_group b) [] false (sb_queue b) 0]
        else []) (h_sched h)
    else []) cfg.

Definition kube_tasks (cfg : config) (unl : list N) (mon obj : N) : list task :=
  if mem_N mon unl then
    flat_map (fun h =>
      flat_map (fun b =>
        if N.eqb (kb_mon b) mon then
          [mkTask HookRun (h_id h) BKube [mkCtx (kb_name b) KEvent (kb_group b) obj]
                  (kb_allow b) (kb_group b) [] false (kb_queue b) 0]
        else []) (h_kube h)) cfg
  else [].

(* AddLast to the queue named in the task; a task for a missing queue is logged and dropped *)
Fixpoint append_task (qs : list qstate) (t : task) : list qstate :=
  match qs with
  | [] => []
  | q :: r => if N.eqb (q_name q) (t_queue t)
              then mkQ (q_name q) (q_items q ++ [t]) (q_running q) :: r
              else q :: append_task r t
  end.
Definition append_tasks (qs : list qstate) (ts : list task) : list qstate :=
  fold_left append_task ts qs.

(* ---- handler pieces ---- *)

(* compaction: a grouped context is dropped iff the next one has the same group *)
Fixpoint compact (l : list ctx) : list ctx :=
  match l with
  | [] => []
  | c :: r =>
      match r with
      | n :: _ => if negb (N.eqb (c_group c) 0) && N.eqb (c_group n) (c_group c)
                  then compact r else c :: compact r
      | [] => [c]
      end
  end.

(* tasks immediately following the head for the same hook and of the same task type;
   when the head is a Synchronization, combining stops at a Synchronization whose
   ExecuteOnSynchronization is false (stopCombineFn, repair F9) *)
Definition is_sync (t : task) : bool :=
  match t_btype t, t_ctxs t with
  | BKube, c :: _ => match c_kind c with KSync => true | _ => false end
  | _, _ => false
  end.

Definition same_ttype (a b : ttype) : bool :=
  match a, b with
  | HookRun, HookRun | EnableKube, EnableKube | EnableSched, EnableSched => true
  | _, _ => false
  end.

Fixpoint take_block (t : task) (l : list task) : list task * list task :=
  match l with
  | [] => ([], [])
  | x :: r =>
      if N.eqb (t_hook x) (t_hook t) && same_ttype (t_type x) (t_type t)
         && negb (is_sync t && is_sync x && negb (t_execsync x))
      then let (b, rest) := take_block t r in (x :: b, rest)
      else ([], l)
  end.

Definition set_combined (t : task) (cs : list ctx) (ms : list N) (allow : bool) : task :=
  mkTask (t_type t) (t_hook t) (t_btype t) cs allow (t_group t) ms
         (t_execsync t) (t_queue t) (t_fail t).

(* combineBindingContextForHook on head [t] of queue [t :: rest]: new head, remaining queue.
   The combined task allows failure only if every merged task does (repair F6). *)
Definition combine (t : task) (rest : list task) : task * list task :=
  let (block, rest') := take_block t rest in
  match block with
  | [] => (t, rest)
  | _ =>
      let cs := compact (t_ctxs t ++ flat_map t_ctxs block) in
      let ms := t_mids t ++ flat_map t_mids block in
      (set_combined t cs ms (t_allow t && forallb t_allow block), rest')
  end.

Definition should_run (v0 : bool) (t : task) : bool :=
  negb (is_sync t && (v0 || negb (t_execsync t))).

Definition should_combine (t : task) : bool :=
  negb (is_sync t && N.eqb (t_group t) 0).

Definition sync_task (h : hook) (b : kbinding) : task :=
  mkTask HookRun (h_id h) BKube [mkCtx (kb_name b) KSync (kb_group b) 0]
         (kb_allow b) (kb_group b) [kb_mon b] (kb_execsync b) 0 0.

(* the part of the state a queue worker touches besides its own queue *)
Record shared := mkSh { s_sched_on : list N; s_unlocked : list N; s_mon_started : list N }.

(* The worker of one queue, run until it blocks in a hook execution or finds the
   queue empty.  Returns the items, whether an execution is open, the shared state. *)
Fixpoint advance_q (fuel : nat) (cfg : config) (qok : N -> bool) (items : list task) (sh : shared)
  : list task * option bool * shared :=
  match fuel with
  | O => (items, None, sh)
  | S fuel' =>
      match items with
      | [] => ([], None, sh)
      | t :: rest =>
          match t_type t with
          | EnableKube =>
              match find_hook cfg (t_hook t) with
              | Some h =>
                  advance_q fuel' cfg qok (map (sync_task h) (h_kube h) ++ rest)
                            (mkSh (s_sched_on sh) (s_unlocked sh)
                                  (s_mon_started sh ++ map kb_mon (h_kube h)))
              | None => advance_q fuel' cfg qok rest sh
              end
          | EnableSched =>
              advance_q fuel' cfg qok rest (mkSh (s_sched_on sh ++ [t_hook t]) (s_unlocked sh) (s_mon_started sh))
          | HookRun =>
              let v0 := match find_hook cfg (t_hook t) with Some h => h_v0 h | None => false end in
              if should_run v0 t then
                if negb v0 && should_combine t && qok (t_queue t) then
                  (* combine looks the queue up by the task's queue name; no such queue: no combining *)
                  let (t', rest') := combine t rest in (t' :: rest', Some (is_sync t), sh)
                else (t :: rest, Some (is_sync t), sh)
              else
                (* skipped Synchronization: Success at once, unlock its monitors *)
                advance_q fuel' cfg qok rest
                          (mkSh (s_sched_on sh) (s_unlocked sh ++ t_mids t) (s_mon_started sh))
          end
      end
  end.

Definition task_weight (cfg : config) (t : task) : nat :=
  match t_type t with
  | EnableKube => match find_hook cfg (t_hook t) with Some h => S (length (h_kube h)) | None => 1 end
  | _ => 1
  end.
Definition fuel_for (cfg : config) (items : list task) : nat :=
  S (fold_right (fun t n => task_weight cfg t + n) 0 items).

Fixpoint advance_all (cfg : config) (qok : N -> bool) (qs : list qstate) (sh : shared) : list qstate * shared :=
  match qs with
  | [] => ([], sh)
  | q :: r =>
      if is_running q then
        let (r', sh') := advance_all cfg qok r sh in (q :: r', sh')
      else
        let '(items, run, sh1) := advance_q (fuel_for cfg (q_items q)) cfg qok (q_items q) sh in
        let (r', sh') := advance_all cfg qok r sh1 in
        (mkQ (q_name q) items run :: r', sh')
  end.

Definition op_advance (cfg : config) (s : state) : state :=
  if stopped s then s else
  let (qs, sh) := advance_all cfg (has_queue (queues s)) (queues s) (mkSh (sched_on s) (unlocked s) (mon_started s)) in
  mkSt qs (s_sched_on sh) (s_unlocked sh) (s_mon_started sh) false.

(* ---- the end of a hook execution ---- *)

Definition incr_fail (t : task) : task :=
  mkTask (t_type t) (t_hook t) (t_btype t) (t_ctxs t) (t_allow t) (t_group t) (t_mids t)
         (t_execsync t) (t_queue t) (N.succ (t_fail t)).

(* Finish in queue [q]: the handler computes the status (allowFailure of the task, which
   after combining is the head's), unlocks after a successful Synchronization, returns;
   the worker then checks ctx.Done: when stopped the result is NOT applied. *)
Fixpoint finish_in (qs : list qstate) (qn : N) (ok stp : bool) (unl : list N) : list qstate * list N :=
  match qs with
  | [] => ([], unl)
  | q :: r =>
      if N.eqb (q_name q) qn then
        match q_running q, q_items q with
        | Some sync, t :: rest =>
            let success := ok || t_allow t in
            let unl' := if success then unl ++ t_mids t else unl in
            if stp then (mkQ (q_name q) (q_items q) None :: r, unl')
            else if success then (mkQ (q_name q) rest None :: r, unl')
            else (mkQ (q_name q) (incr_fail t :: rest) None :: r, unl')
        | _, _ => (q :: r, unl)
        end
      else let (r', unl') := finish_in r qn ok stp unl in (q :: r', unl')
  end.

Definition step (cfg : config) (s : state) (a : action) : state :=
  let s1 :=
    match a with
    | Boot => match queues s with
              | [] => mkSt (boot_queues cfg) (sched_on s) (unlocked s) (mon_started s) (stopped s)
              | _ => s
              end
    | Tick c => mkSt (append_tasks (queues s) (sched_tasks cfg (sched_on s) c))
                     (sched_on s) (unlocked s) (mon_started s) (stopped s)
    | KubeEv m o => mkSt (append_tasks (queues s) (kube_tasks cfg (unlocked s) m o))
                           (sched_on s) (unlocked s) (mon_started s) (stopped s)
    | Finish qn ok =>
        let (qs, unl) := finish_in (queues s) qn ok (stopped s) (unlocked s) in
        mkSt qs (sched_on s) unl (mon_started s) (stopped s)
    | Stop => mkSt (queues s) (sched_on s) (unlocked s) (mon_started s) true
    | Idle => s
    end in
  op_advance cfg s1.

Definition init : state := mkSt [] [] [] [] false.

Definition exec (cfg : config) (acts : list action) (s : state) : state :=
  fold_left (step cfg) acts s.

Fixpoint trace_from (cfg : config) (s : state) (acts : list action) : list state :=
  match acts with
  | [] => []
  | a :: r => let s' := step cfg s a in s' :: trace_from cfg s' r
  end.
Definition trace (cfg : config) (acts : list action) : list state := trace_from cfg init acts.
Open Scope Z_scope.

(* ======================================================================================
   Operator level: the queue workers in front of the limiters.

   Go anchors:
     pkg/shell-operator/operator.go  taskHandleHookRun: the FIRST statement is
         err := taskHook.RateLimitWait(context.Background()); if err != nil { return Repeat }
       for every HookRun task whatever its binding type (onStartup, schedule, kubernetes
       Synchronization or Event), its failure count (first attempt or retry after Fail),
       allowFailure, and whether the hook is going to be executed at all (a skipped
       Synchronization still takes a token)                       -> [advance_q_lim]
     pkg/task/queue/task_queue.go    worker loop: Fail keeps the task at the head and
       handles it again after the back-off; Repeat handles it again after DelayOnRepeat
     pkg/hook/hook.go                one *rate.Limiter per hook (Hook.RateLimiter), shared
       by all queues that carry tasks of the hook                 -> [limiters]

   Everything else of the task flow (bootstrap, events handler, skip rules, combining,
   allowFailure, unlock, Finish) is the task-flow model above.

   Time.  Every action of a script carries the instant (ns, one clock) at which it happens;
   the workers it sets in motion enter their handlers at that instant.  A worker whose
   reservation lies in the future sleeps in Limiter.Wait (a timer for the delay of ITS OWN
   reservation): its queue is recorded in [l_waiting] with the wake-up instant and the hook,
   and is not advanced any more until it wakes up.

   Waking up.  Before an action at instant [now] happens, every sleeper whose wake-up
   instant u <= now has come wakes up AT u, the earliest first ([wake_due]): RateLimitWait
   returns nil and taskHandleHookRun goes on with the task it was handling - skip rules,
   combining with whatever has been queued behind it in the meantime, execution start
   ([resume_q]).  Several workers may sleep for ONE hook at the same time (its bindings sit
   in different queues, one tick or several ticks fed them): the limiter is the hook's, so
   their reservations stack - the k-th sleeper wakes up k intervals after the bucket ran
   empty (C18_stacked_reservations) - and each of them sleeps until its own instant.
   [l_overrun] (kept from the time when waking up was not modelled) is raised as soon as an
   action happens at or after a pending wake-up instant: scenarios with intervals far longer
   than the scenario never raise it, timed scenarios do.  The theorems hold with or without it.

   Ghost log: every limiter call and every execution start is appended to [l_log]. *)

Inductive levent :=
| LReq (h : N) (t : Z) (a : option Z)   (* RateLimitWait of hook h entered at t; timeToAct / refused *)
| LStart (h : N) (q : N) (t : Z).       (* an execution of hook h starts in queue q at t *)

(* Hook.RateLimiter of every hook *)
Definition limiters := N -> bucket.
Definition set_lim (ls : limiters) (h : N) (b : bucket) : limiters :=
  fun x => if N.eqb x h then b else ls x.

(* the settings each hook was loaded with (hook id, htypes.Settings or nil) *)
Definition hook_settings := list (N * option settings).
Definition settings_of (hs : hook_settings) (h : N) : option settings :=
  match find (fun p => N.eqb (fst p) h) hs with Some p => snd p | None => None end.
Definition init_limiters (hs : hook_settings) : limiters :=
  fun h => create_rate_limiter (settings_of hs h).

(* where a worker is after [advance_q_lim] *)
Inductive wstatus :=
| WFree                  (* queue empty *)
| WRun (sync : bool)     (* inside the handler, hook execution open (as [q_running]) *)
| WWait (until : Z) (h : N)  (* inside the handler, sleeping in RateLimitWait of hook h until [until] *)
| WRepeat (h : N).       (* RateLimitWait of hook h failed: Repeat, the same task again and again *)

Record wctx := mkW { w_sh : shared; w_lims : limiters; w_log : list levent }.

(* [advance_q] with the limiter call in front of every HookRun task; [qn] is the
   name of the queue the worker belongs to, [now] the instant it enters its handlers *)
Fixpoint advance_q_lim (fuel : nat) (cfg : config) (qok : N -> bool) (now : Z) (qn : N)
                       (items : list task) (w : wctx) : list task * wstatus * wctx :=
  match fuel with
  | O => (items, WFree, w)
  | S fuel' =>
      match items with
      | [] => ([], WFree, w)
      | t :: rest =>
          match t_type t with
          | EnableKube =>
              match find_hook cfg (t_hook t) with
              | Some h =>
                  advance_q_lim fuel' cfg qok now qn (map (sync_task h) (h_kube h) ++ rest)
                    (mkW (mkSh (s_sched_on (w_sh w)) (s_unlocked (w_sh w))
                               (s_mon_started (w_sh w) ++ map kb_mon (h_kube h)))
                         (w_lims w) (w_log w))
              | None => advance_q_lim fuel' cfg qok now qn rest w
              end
          | EnableSched =>
              advance_q_lim fuel' cfg qok now qn rest
                (mkW (mkSh (s_sched_on (w_sh w) ++ [t_hook t]) (s_unlocked (w_sh w)) (s_mon_started (w_sh w)))
                     (w_lims w) (w_log w))
          | HookRun =>
              (* err := taskHook.RateLimitWait(context.Background()) *)
              let (b', a) := reserve (w_lims w (t_hook t)) now in
              let w1 := mkW (w_sh w) (set_lim (w_lims w) (t_hook t) b') (w_log w ++ [LReq (t_hook t) now a]) in
              match a with
              | None => (items, WRepeat (t_hook t), w1)
              | Some act =>
                  if now <? act then (items, WWait act (t_hook t), w1)
                  else
                    let v0 := match find_hook cfg (t_hook t) with Some h => h_v0 h | None => false end in
                    if should_run v0 t then
                      let w2 := mkW (w_sh w1) (w_lims w1) (w_log w1 ++ [LStart (t_hook t) qn now]) in
                      if negb v0 && should_combine t && qok (t_queue t) then
                        let (t', rest') := combine t rest in (t' :: rest', WRun (is_sync t), w2)
                      else (t :: rest, WRun (is_sync t), w2)
                    else
                      advance_q_lim fuel' cfg qok now qn rest
                        (mkW (mkSh (s_sched_on (w_sh w1)) (s_unlocked (w_sh w1) ++ t_mids t) (s_mon_started (w_sh w1)))
                             (w_lims w1) (w_log w1))
              end
          end
      end
  end.

(* queues whose worker sleeps in RateLimitWait: queue name, wake-up instant (None: Repeat
   loop), hook whose limiter it waits for *)
Definition wentry := (N * option Z * N)%type.
Definition we_queue (e : wentry) : N := fst (fst e).
Definition we_until (e : wentry) : option Z := snd (fst e).
Definition we_hook (e : wentry) : N := snd e.
Definition waiting := list wentry.
Definition is_waiting (wt : waiting) (q : N) : bool := existsb (fun e => N.eqb (we_queue e) q) wt.

Definition run_of (st : wstatus) : option bool := match st with WRun s => Some s | _ => None end.
Definition wait_of (q : N) (st : wstatus) : waiting :=
  match st with WWait u h => [(q, Some u, h)] | WRepeat h => [(q, None, h)] | _ => [] end.

Fixpoint advance_all_lim (cfg : config) (qok : N -> bool) (now : Z) (wt : waiting)
                         (qs : list qstate) (w : wctx) : list qstate * waiting * wctx :=
  match qs with
  | [] => ([], wt, w)
  | q :: r =>
      if is_running q || is_waiting wt (q_name q) then
        let '(r', wt', w') := advance_all_lim cfg qok now wt r w in (q :: r', wt', w')
      else
        let '(items, st, w1) := advance_q_lim (fuel_for cfg (q_items q)) cfg qok now (q_name q) (q_items q) w in
        let '(r', wt', w') := advance_all_lim cfg qok now (wt ++ wait_of (q_name q) st) r w1 in
        (mkQ (q_name q) items (run_of st) :: r', wt', w')
  end.

Record lstate := mkL {
  l_op : state;            (* the operator state of the task-flow model *)
  l_waiting : waiting;
  l_lims : limiters;
  l_log : list levent;
  l_overrun : bool
}.

(* the workers move at instant [now] *)
Definition advance_lim (cfg : config) (now : Z) (ls : lstate) : lstate :=
  let s := l_op ls in
  if stopped s then ls else
  let '(qs, wt, w) := advance_all_lim cfg (has_queue (queues s)) now (l_waiting ls) (queues s)
                        (mkW (mkSh (sched_on s) (unlocked s) (mon_started s)) (l_lims ls) (l_log ls)) in
  mkL (mkSt qs (s_sched_on (w_sh w)) (s_unlocked (w_sh w)) (s_mon_started (w_sh w)) false)
      wt (w_lims w) (w_log w) (l_overrun ls).

(* the effect of an action before the workers move: the first half of [step] *)
Definition pre_step (cfg : config) (s : state) (a : action) : state :=
  match a with
  | Boot => match queues s with
            | [] => mkSt (boot_queues cfg) (sched_on s) (unlocked s) (mon_started s) (stopped s)
            | _ => s
            end
  | Tick c => mkSt (append_tasks (queues s) (sched_tasks cfg (sched_on s) c))
                   (sched_on s) (unlocked s) (mon_started s) (stopped s)
  | KubeEv m o => mkSt (append_tasks (queues s) (kube_tasks cfg (unlocked s) m o))
                       (sched_on s) (unlocked s) (mon_started s) (stopped s)
  | Finish qn ok =>
      let (qs, unl) := finish_in (queues s) qn ok (stopped s) (unlocked s) in
      mkSt qs (sched_on s) unl (mon_started s) (stopped s)
  | Stop => mkSt (queues s) (sched_on s) (unlocked s) (mon_started s) true
  | Idle => s
  end.

Definition due (now : Z) (wt : waiting) : bool :=
  existsb (fun e => match we_until e with Some u => u <=? now | None => false end) wt.

(* ---- waking up ---- *)

(* taskHandleHookRun after RateLimitWait has returned nil, at instant [at_], for the head
   task of queue [qn] (the task the worker was handling when it fell asleep: the head of a
   queue does not change while its worker is inside the handler).  Same statements as in
   [advance_q_lim] after the limiter call.  [stp]: Shutdown() came while the worker slept:
   RateLimitWait(context.Background()) is not interrupted, the handler runs to its end (the
   hook is executed), but the worker leaves its loop afterwards without applying the result. *)
Definition resume_q (cfg : config) (qok : N -> bool) (stp : bool) (at_ : Z) (qn : N)
                    (items : list task) (w : wctx) : list task * wstatus * wctx :=
  match items with
  | [] => ([], WFree, w)
  | t :: rest =>
      let v0 := match find_hook cfg (t_hook t) with Some h => h_v0 h | None => false end in
      if should_run v0 t then
        let w2 := mkW (w_sh w) (w_lims w) (w_log w ++ [LStart (t_hook t) qn at_]) in
        if negb v0 && should_combine t && qok (t_queue t) then
          let (t', rest') := combine t rest in (t' :: rest', WRun (is_sync t), w2)
        else (t :: rest, WRun (is_sync t), w2)
      else
        let w1 := mkW (mkSh (s_sched_on (w_sh w)) (s_unlocked (w_sh w) ++ t_mids t) (s_mon_started (w_sh w)))
                      (w_lims w) (w_log w) in
        if stp then (t :: rest, WFree, w1)
        else advance_q_lim (fuel_for cfg rest) cfg qok at_ qn rest w1
  end.

Definition is_hookrun (t : task) : bool := match t_type t with HookRun => true | _ => false end.

(* the worker of queue [qn], asleep for hook [h], wakes up at [at_] *)
Fixpoint wake_in (cfg : config) (qok : N -> bool) (stp : bool) (at_ : Z) (qn h : N)
                 (qs : list qstate) (w : wctx) : list qstate * waiting * wctx :=
  match qs with
  | [] => ([], [], w)
  | q :: r =>
      if N.eqb (q_name q) qn then
        match q_items q with
        | t :: _ =>
            if N.eqb (t_hook t) h && is_hookrun t then
              let '(items, st, w') := resume_q cfg qok stp at_ qn (q_items q) w in
              (mkQ (q_name q) items (run_of st) :: r, wait_of qn st, w')
            else (q :: r, [], w)        (* never: see [resume_q] *)
        | [] => (q :: r, [], w)         (* never *)
        end
      else let '(r', wt, w') := wake_in cfg qok stp at_ qn h r w in (q :: r', wt, w')
  end.

Definition remove_entry (q : N) (wt : waiting) : waiting :=
  filter (fun e => negb (N.eqb (we_queue e) q)) wt.

Definition wake_one (cfg : config) (e : wentry) (at_ : Z) (ls : lstate) : lstate :=
  let s := l_op ls in
  let '(qs, wt, w) := wake_in cfg (has_queue (queues s)) (stopped s) at_ (we_queue e) (we_hook e) (queues s)
                        (mkW (mkSh (sched_on s) (unlocked s) (mon_started s)) (l_lims ls) (l_log ls)) in
  mkL (mkSt qs (s_sched_on (w_sh w)) (s_unlocked (w_sh w)) (s_mon_started (w_sh w)) (stopped s))
      (remove_entry (we_queue e) (l_waiting ls) ++ wt) (w_lims w) (w_log w) (l_overrun ls).

(* the sleeper that wakes up first among those whose instant has come *)
Fixpoint earliest_due (now : Z) (wt : waiting) : option (wentry * Z) :=
  match wt with
  | [] => None
  | e :: r =>
      match we_until e with
      | Some u =>
          if u <=? now then
            match earliest_due now r with
            | Some (e', u') => if u' <? u then Some (e', u') else Some (e, u)
            | None => Some (e, u)
            end
          else earliest_due now r
      | None => earliest_due now r
      end
  end.

(* all wake-ups up to [now], in the order of their instants; a wake-up can make the worker
   ask the limiter again (a Synchronization that is not executed is followed by the next
   task) and so produce another wake-up that is due *)
Fixpoint wake_due (fuel : nat) (cfg : config) (now : Z) (ls : lstate) : lstate :=
  match fuel with
  | O => ls
  | S fuel' =>
      match earliest_due now (l_waiting ls) with
      | Some (e, u) => wake_due fuel' cfg now (wake_one cfg e u ls)
      | None => ls
      end
  end.

(* every wake-up takes a task from a queue or opens an execution *)
Definition wake_fuel (cfg : config) (ls : lstate) : nat :=
  S (length (l_waiting ls) + fold_right (fun q n => fuel_for cfg (q_items q) + n)%nat 0%nat (queues (l_op ls))).

Definition step_lim (cfg : config) (ls : lstate) (ta : Z * action) : lstate :=
  let now := fst ta in
  let over := l_overrun ls || due now (l_waiting ls) in
  let ls1 := wake_due (wake_fuel cfg ls) cfg now ls in
  if due now (l_waiting ls1) then ls1     (* never: [wake_fuel] bounds the number of wake-ups *)
  else
    advance_lim cfg now
      (mkL (pre_step cfg (l_op ls1) (snd ta)) (l_waiting ls1) (l_lims ls1) (l_log ls1) over).

Definition init_lim (hs : hook_settings) : lstate := mkL init [] (init_limiters hs) [] false.

Definition run_lim (cfg : config) (ls : lstate) (script : list (Z * action)) : lstate :=
  fold_left (step_lim cfg) script ls.

Fixpoint trace_lim_from (cfg : config) (ls : lstate) (script : list (Z * action)) : list lstate :=
  match script with
  | [] => []
  | ta :: r => let ls' := step_lim cfg ls ta in ls' :: trace_lim_from cfg ls' r
  end.
Definition trace_lim (cfg : config) (hs : hook_settings) (script : list (Z * action)) : list lstate :=
  trace_lim_from cfg (init_lim hs) script.

(* projections of the ghost log *)
Fixpoint reqs_of (h : N) (log : list levent) : list Z :=
  match log with
  | [] => []
  | LReq h' t _ :: r => if N.eqb h' h then t :: reqs_of h r else reqs_of h r
  | _ :: r => reqs_of h r
  end.
Fixpoint acts_of (h : N) (log : list levent) : list (option Z) :=
  match log with
  | [] => []
  | LReq h' _ a :: r => if N.eqb h' h then a :: acts_of h r else acts_of h r
  | _ :: r => acts_of h r
  end.
Fixpoint starts_in (h : N) (log : list levent) : list Z :=
  match log with
  | [] => []
  | LStart h' _ t :: r => if N.eqb h' h then t :: starts_in h r else starts_in h r
  | _ :: r => starts_in h r
  end.
(* hooks that were throttled: a RateLimitWait that did not return at once *)
Fixpoint throttled_in (log : list levent) : list N :=
  match log with
  | [] => []
  | LReq h t a :: r => match a with
                       | Some x => if x =? t then throttled_in r else h :: throttled_in r
                       | None => h :: throttled_in r
                       end
  | _ :: r => throttled_in r
  end.
(* every execution start in the log: (hook, instant) *)
Fixpoint starts_all (log : list levent) : list (N * Z) :=
  match log with
  | [] => []
  | LStart h _ t :: r => (h, t) :: starts_all r
  | _ :: r => starts_all r
  end.

(* ======================================================================================
   One queue shared by several hooks: queueing, handler entry, reservation, start.

   Go anchors:
     pkg/shell-operator/operator.go  the events handlers create every HookRun task with
         WithQueuedAt(time.Now())  (lines 155, 184; Synchronization tasks: 511; a task whose
         run failed gets a new QueuedAt: 620)                        -> [qt_queued]
     pkg/task/queue/task_queue.go    ONE worker per queue: the handler of the next task is
         entered only after the handler of the task before it has returned (and after the
         back-off delay when that run failed)                        -> [free], [qt_end]
     pkg/shell-operator/operator.go  taskHandleHookRun: the FIRST statement is
         taskHook.RateLimitWait(context.Background()) = RateLimiter.Wait = reserveN(time.Now(), 1)
         and a sleep until timeToAct: the limiter is asked with the instant at which the
         HANDLER IS ENTERED (time.Now() inside Wait), not with task.GetQueuedAt() - the latter
         is only read afterwards, for the task_wait_in_queue metric  -> [sr_entered], [reserve]
     pkg/hook/hook.go                one limiter per hook, whatever other hooks' tasks sit in
         the same queue                                              -> [limiters]

   [serve lims free ts]: the worker of one queue is free from instant [free] on and handles
   the HookRun invocations [ts] in queue order (tasks of several hooks interleaved; a combined
   task is one invocation; the retry of a failed run is another invocation).  For each of
   them: the instant its task was queued, and the instant at which the handler gives the queue
   back ([qt_end]: the hook's execution ended - a slow hook -, plus the back-off delay when it
   failed; an instant before the start means "at once").  Between queueing and handler entry
   the task just sits in the queue: nothing is reserved for it.  This is the task-flow model's
   worker ([advance_q_lim], [resume_q]) for one queue with the instants of queueing made
   explicit; what is combined, skipped or retried is decided there, not here. *)
Record qtask := mkQT {
  qt_hook : N;
  qt_queued : Z;       (* task.GetQueuedAt() *)
  qt_end : Z           (* the handler returns (and the back-off, if any, is over) *)
}.

Record srun := mkSR {
  sr_hook : N;
  sr_queued : Z;
  sr_entered : Z;          (* taskHandleHookRun entered: the instant the limiter is asked with *)
  sr_start : option Z      (* RateLimitWait returned nil at this instant: the execution starts;
                              None: refused (Repeat for ever: the queue is stuck behind the task) *)
}.

Fixpoint serve (lims : limiters) (free : Z) (ts : list qtask) : list srun :=
  match ts with
  | [] => []
  | t :: r =>
      (* the worker takes the task when it is free and the task is there *)
      let entered := Z.max free (qt_queued t) in
      (* err := taskHook.RateLimitWait(context.Background()) *)
      let (b', a) := reserve (lims (qt_hook t)) entered in
      match a with
      | Some act =>
          mkSR (qt_hook t) (qt_queued t) entered (Some act)
          :: serve (set_lim lims (qt_hook t) b') (Z.max act (qt_end t)) r
      | None => [mkSR (qt_hook t) (qt_queued t) entered None]
      end
  end.

(* projections *)
Definition runs_of (h : N) (rs : list srun) : list srun := filter (fun r => N.eqb (sr_hook r) h) rs.
Definition sr_reqs (h : N) (rs : list srun) : list Z := map sr_entered (runs_of h rs).
Definition sr_acts (h : N) (rs : list srun) : list (option Z) := map sr_start (runs_of h rs).
Fixpoint sr_all (rs : list srun) : list (N * Z) :=
  match rs with
  | [] => []
  | r :: rest => match sr_start r with
                 | Some s => (sr_hook r, s) :: sr_all rest
                 | None => sr_all rest
                 end
  end.
(* hooks that were throttled: a RateLimitWait that did not return at once *)
Fixpoint sr_throttled (rs : list srun) : list N :=
  match rs with
  | [] => []
  | r :: rest => match sr_start r with
                 | Some s => if s =? sr_entered r then sr_throttled rest else sr_hook r :: sr_throttled rest
                 | None => sr_hook r :: sr_throttled rest
                 end
  end.

(* ======================================================================================
   (5) The SHAPE of a hook's configuration and the limiter the hook is loaded with.

   Go anchors:
     pkg/hook/hook.go          Hook.LoadConfig:  h.Config, err = config.LoadAndValidate(...)
                                                 h.RateLimiter = CreateRateLimiter(h.Config)
     pkg/hook/hook.go          CreateRateLimiter(cfg *config.HookConfig) is handed the WHOLE
         configuration of the hook - OnStartup, Schedules, OnKubernetesEvents (each with its
         group, queue, executeHookOnSynchronization ...), admission / conversion bindings,
         Settings - and reads cfg.Settings and nothing else                -> [create_rate_limiter_hc]
     pkg/hook/hook_manager.go  one Hook (hence one limiter) per hook file, found by name
                                                                           -> [load_limiters]
     pkg/shell-operator/operator.go  the start-up of the operator is the Boot action of the
         task-flow model above: EnableKubernetesBindings puts one Synchronization task per
         kubernetes binding at the head of "main", each of them - executed, combined with its
         group mates or skipped (executeHookOnSynchronization: false) - passes the limiter
         call of taskHandleHookRun first                                   -> [run_shape]

   A hook configuration here is the hook of the task-flow model (its kubernetes and schedule
   bindings with queues, groups, allowFailure, executeHookOnSynchronization, its onStartup
   order) together with the settings it carries. *)
Record hook_config := mkHC { hc_shape : hook; hc_settings : option settings }.

Definition hc_id (hc : hook_config) : N := h_id (hc_shape hc).

(* CreateRateLimiter on the whole configuration *)
Definition create_rate_limiter_hc (hc : hook_config) : bucket :=
  create_rate_limiter (hc_settings hc).

(* Hook.RateLimiter of every loaded hook (a hook that is not loaded has no tasks: its limiter
   is never asked) *)
Definition load_limiters (hcs : list hook_config) : limiters :=
  fun h => match find (fun hc => N.eqb (hc_id hc) h) hcs with
           | Some hc => create_rate_limiter_hc hc
           | None => create_rate_limiter None
           end.

Definition shape_config (hcs : list hook_config) : config := map hc_shape hcs.

(* the (I, B) each hook was configured with, as the property text reads them *)
Definition configured_settings (hcs : list hook_config) : hook_settings :=
  map (fun hc => (hc_id hc, hc_settings hc)) hcs.

Definition init_shape (hcs : list hook_config) : lstate := mkL init [] (load_limiters hcs) [] false.

(* the operator with hooks of these shapes, run on a script of timed actions (Boot - the
   start-up with its Synchronization runs -, ticks, kubernetes events, ends of executions,
   time passing) *)
Definition run_shape (hcs : list hook_config) (script : list (Z * action)) : lstate :=
  run_lim (shape_config hcs) (init_shape hcs) script.

(* what a hook's shape asks of the start-up: the number of Synchronization EXECUTIONS when
   nothing else is in the queue - one per kubernetes binding with executeHookOnSynchronization,
   a grouped one takes everything of the hook that follows it along (up to a binding that is
   exempt from Synchronization).  Used for tags and examples; the limiter does not know it. *)
Fixpoint sync_runs_from (ts : list task) (fuel : nat) : nat :=
  match fuel with
  | O => O
  | S fuel' =>
      match ts with
      | [] => O
      | t :: rest =>
          if should_run false t then
            if should_combine t then S (sync_runs_from (snd (combine t rest)) fuel')
            else S (sync_runs_from rest fuel')
          else sync_runs_from rest fuel'
      end
  end.
Definition sync_runs (h : hook) : nat :=
  if h_v0 h then O else sync_runs_from (map (sync_task h) (h_kube h)) (length (h_kube h)).
