(* C01_RelistProofs.v — for EVERY configuration, every initial cluster and every history of
   healthy steps and watch outages:
     relist_events_exact   per object, the Events the monitor hands over are exactly the ones the
                           cluster-only reference demands (one per change on a healthy watch, one
                           per object whose state differs across an outage), in that order;
     relist_replay         applying them per object on top of the Synchronization view ends at
                           the final matching state (all event types listed, no namespace step
                           moving existing objects);
     relist_P_partial      the predicate RP holds of the model outside the trigger of F24;
     relist_run_static     the relist of one informer walked call by call, the cache changing
                           underneath, fires what [inf_relist] says and leaves the listed objects. *)
From Verif Require Import Common C01_Model C02_Model C02_Spec C02_Proofs C02_DynProofs
  C01_Hist C01_HistSpec C01_HistProofs C01_Relist C01_RelistSpec.
Open Scope N_scope.

(* ================================================================== keys *)

Lemma key_kobj k : key (kobj k) = k.
Proof. destruct k; reflexivity. Qed.

Lemma same_key_false a b : same_key a b = false <-> key a <> key b.
Proof.
  split.
  - intros H E. apply same_key_iff in E. congruence.
  - intros H. destruct (same_key a b) eqn:E; [|reflexivity]. apply same_key_iff in E. contradiction.
Qed.

Ltac sk :=
  repeat match goal with
  | H : same_key _ _ = true |- _ => apply same_key_iff in H
  | H : same_key _ _ = false |- _ => apply same_key_false in H
  | |- same_key _ _ = true => apply same_key_iff
  | |- same_key _ _ = false => apply same_key_false
  end.

Lemma hkey_eqb_eq a b : hkey_eqb a b = true <-> a = b.
Proof.
  destruct a as [a1 a2], b as [b1 b2]. unfold hkey_eqb. cbn [fst snd].
  rewrite andb_true_iff, !N.eqb_eq. split; [intros [-> ->]; reflexivity | intros E; inversion E; auto].
Qed.

Lemma hkey_hev kd o : hkey (hev kd o) = key o.
Proof. reflexivity. Qed.

Lemma by_key_app k a b : by_key k (a ++ b) = by_key k a ++ by_key k b.
Proof. apply filter_app. Qed.

Lemma by_key_flat_map {A} k (f : A -> list hevent) l : by_key k (flat_map f l) = flat_map (fun x => by_key k (f x)) l.
Proof. induction l as [|x r IH]; [reflexivity|]. cbn [flat_map]. now rewrite by_key_app, IH. Qed.

Lemma by_key_all k l : (forall e, In e l -> hkey e = k) -> by_key k l = l.
Proof.
  induction l as [|e r IH]; intros H; [reflexivity|]. cbn [by_key filter].
  assert (E : hkey_eqb (hkey e) k = true) by (apply hkey_eqb_eq, H; now left).
  rewrite E. f_equal. apply IH. intros x Hx. apply H. now right.
Qed.

Lemma by_key_none k l : (forall e, In e l -> hkey e <> k) -> by_key k l = [].
Proof.
  induction l as [|e r IH]; intros H; [reflexivity|]. cbn [by_key filter].
  destruct (hkey_eqb (hkey e) k) eqn:E.
  - apply hkey_eqb_eq in E. exfalso. apply (H e); [now left | exact E].
  - apply IH. intros x Hx. apply H. now right.
Qed.

(* a family of events indexed by objects, each about its own object *)
Definition keyed (g : obj -> list hevent) : Prop := forall x e, In e (g x) -> hkey e = key x.

Lemma lookup_cons x y r : lookup x (y :: r) = if same_key y x then Some y else lookup x r.
Proof. reflexivity. Qed.

(* per object, a sum over a duplicate-free list of objects is the summand of that object *)
Lemma collapse g k : keyed g -> forall l, keys_distinct l ->
  by_key k (flat_map g l) = match lookup (kobj k) l with Some x => g x | None => [] end.
Proof.
  intros Hg. induction l as [|x r IH]; intros Hd; [reflexivity|].
  unfold keys_distinct in Hd. cbn [map] in Hd. inversion Hd as [|? ? Hx Hr]; subst.
  cbn [flat_map]. rewrite by_key_app, lookup_cons. destruct (same_key x (kobj k)) eqn:E; sk; rewrite key_kobj in E.
  - rewrite (by_key_all k (g x)) by (intros e He; now rewrite (Hg x e He)).
    rewrite (by_key_none k (flat_map g r)); [apply app_nil_r|].
    intros e He. apply in_flat_map in He as (y & Hy & He). rewrite (Hg y e He). intros Q.
    apply Hx. rewrite E, <- Q. now apply in_map.
  - rewrite (by_key_none k (g x)) by (intros e He; now rewrite (Hg x e He)).
    cbn [app]. now apply IH.
Qed.

Lemma listed_key types kd o e : In e (listed types kd o) -> hkey e = key o.
Proof. unfold listed. destruct (fires types kd); [intros [<-|[]]; reflexivity | intros []]. Qed.

Lemma inf_fire_key types flt kd o c e : In e (inf_fire types flt kd o c) -> hkey e = key o.
Proof.
  unfold inf_fire. destruct kd.
  - destruct (match lookup o c with Some old => _ | None => false end); [intros [] | apply listed_key].
  - destruct (match lookup o c with Some old => _ | None => false end); [intros [] | apply listed_key].
  - apply listed_key.
Qed.

(* ================================================================== lookups *)

Lemma lookup_in x l y : lookup x l = Some y -> same_key y x = true /\ In y l.
Proof. unfold lookup. intros H. apply find_some in H. tauto. Qed.

Lemma lookup_none x l : (forall z, In z l -> key z <> key x) -> lookup x l = None.
Proof.
  induction l as [|y r IH]; intros H; [reflexivity|]. rewrite lookup_cons.
  assert (E : same_key y x = false) by (sk; apply H; now left). rewrite E. apply IH. intros z Hz. apply H. now right.
Qed.

Lemma lookup_same_key x x' l : same_key x x' = true -> lookup x l = lookup x' l.
Proof.
  intros E. sk. induction l as [|y r IH]; [reflexivity|]. rewrite !lookup_cons.
  destruct (same_key y x) eqn:A, (same_key y x') eqn:B; sk; congruence.
Qed.

Lemma lookup_filter_gen s o : forall objs,
  lookup o (filter (in_scope s) objs) = if in_scope s o then lookup o objs else None.
Proof.
  destruct (in_scope s o) eqn:S; [intros; now apply lookup_filter|].
  induction objs as [|x r IH]; [reflexivity|]. cbn [filter]. destruct (in_scope s x) eqn:Sx; [|exact IH].
  rewrite lookup_cons. destruct (same_key x o) eqn:K; [|exact IH].
  rewrite (in_scope_same_key s x o K) in Sx. congruence.
Qed.

Lemma lookup_cl_set x o : forall c, lookup x (cl_set o c) = if same_key o x then Some o else lookup x c.
Proof.
  induction c as [|y r IH]; [reflexivity|]. cbn [cl_set]. destruct (same_key y o) eqn:Yo.
  - rewrite !lookup_cons. destruct (same_key o x) eqn:Ox; [reflexivity|].
    assert (E : same_key y x = false) by (sk; congruence). now rewrite E.
  - rewrite !lookup_cons, IH. destruct (same_key y x) eqn:Yx; [|reflexivity].
    assert (E : same_key o x = false) by (sk; congruence). now rewrite E.
Qed.

Lemma lookup_cl_del x o : forall c, keys_distinct c ->
  lookup x (cl_del o c) = if same_key o x then None else lookup x c.
Proof.
  induction c as [|y r IH]; intros Hd; [cbn; now destruct (same_key o x)|].
  unfold keys_distinct in Hd. cbn [map] in Hd. inversion Hd as [|? ? Hy Hr]; subst.
  cbn [cl_del]. destruct (same_key y o) eqn:Yo.
  - rewrite lookup_cons. destruct (same_key o x) eqn:Ox.
    + apply lookup_none. intros z Hz Q. sk. apply Hy. rewrite Yo, Ox, <- Q. now apply in_map.
    + assert (E : same_key y x = false) by (sk; congruence). now rewrite E.
  - rewrite !lookup_cons, (IH Hr). destruct (same_key y x) eqn:Yx; [|reflexivity].
    assert (E : same_key o x = false) by (sk; congruence). now rewrite E.
Qed.

Lemma dmatching_same_key names c a b : same_key a b = true -> dmatching names c a = dmatching names c b.
Proof.
  intros E. unfold same_key in E. apply andb_true_iff in E as [E1 E2]. apply N.eqb_eq in E1, E2.
  unfold dmatching. now rewrite E1, E2.
Qed.

Lemma in_scope_kobj s o k : same_key o (kobj k) = true -> in_scope s o = in_scope s (kobj k).
Proof. apply in_scope_same_key. Qed.

(* ================================================================== one informer *)

Lemma flat_map_flat_map {A B C} (g : B -> list C) (h : A -> list B) l :
  flat_map g (flat_map h l) = flat_map (fun x => flat_map g (h x)) l.
Proof. induction l as [|x r IH]; [reflexivity|]. cbn [flat_map]. now rewrite flat_map_app, IH. Qed.

Lemma flat_map_filter {A B} (p : A -> bool) (f : A -> list B) l :
  flat_map f (filter p l) = flat_map (fun x => if p x then f x else []) l.
Proof.
  induction l as [|x r IH]; [reflexivity|]. cbn [filter flat_map]. destruct (p x); [cbn [flat_map]; now rewrite IH | exact IH].
Qed.

(* the relist of one informer: the listed objects, then the vanished ones *)
Lemma inf_relist_parts types flt cache listed_objs :
  inf_relist types flt cache listed_objs
  = flat_map (fun o => inf_fire types flt (relist_kind o cache) o cache) listed_objs
    ++ flat_map (fun old => match lookup old listed_objs with
                            | Some _ => []
                            | None => listed types Deleted old
                            end) cache.
Proof.
  unfold inf_relist, relist_calls. rewrite flat_map_app. f_equal.
  - rewrite C01_HistProofs.flat_map_map. reflexivity.
  - rewrite flat_map_flat_map. apply flat_map_ext. intros old.
    destruct (lookup old listed_objs); [reflexivity|]. cbn [flat_map call_kind call_obj fst snd inf_fire]. apply app_nil_r.
Qed.

(* what the relist owes one object, from the cluster's objects before and after *)
Definition owed (types : list wkind) (flt : bool) (objs objs' : list obj) (k : N * N) : list hevent :=
  match lookup (kobj k) objs' with
  | Some o => inf_fire types flt (relist_kind o objs) o objs
  | None => []
  end
  ++ match lookup (kobj k) objs with
     | Some old => match lookup old objs' with Some _ => [] | None => listed types Deleted old end
     | None => []
     end.

Lemma inf_relist_key types flt s objs objs' k : keys_distinct objs -> keys_distinct objs' ->
  by_key k (inf_relist types flt (filter (in_scope s) objs) (filter (in_scope s) objs'))
  = if in_scope s (kobj k) then owed types flt objs objs' k else [].
Proof.
  intros Hd Hd'. rewrite inf_relist_parts, by_key_app.
  rewrite (collapse (fun o => inf_fire types flt (relist_kind o (filter (in_scope s) objs)) o (filter (in_scope s) objs)) k)
    by (try (intros x e; apply inf_fire_key); now apply filter_keys_distinct).
  rewrite (collapse (fun old => match lookup old (filter (in_scope s) objs') with Some _ => [] | None => listed types Deleted old end) k)
    by (try (intros x e; destruct (lookup x (filter (in_scope s) objs')); [intros [] | apply listed_key]); now apply filter_keys_distinct).
  rewrite !lookup_filter_gen. destruct (in_scope s (kobj k)) eqn:S; [|reflexivity].
  unfold owed. f_equal.
  - destruct (lookup (kobj k) objs') as [o|] eqn:L; [|reflexivity].
    apply lookup_in in L as [K _]. assert (So : in_scope s o = true) by (now rewrite (in_scope_kobj s o k K)).
    unfold relist_kind. rewrite (lookup_filter s o So). now apply inf_fire_filter.
  - destruct (lookup (kobj k) objs) as [old|] eqn:L; [|reflexivity].
    apply lookup_in in L as [K _]. assert (So : in_scope s old = true) by (now rewrite (in_scope_kobj s old k K)).
    now rewrite (lookup_filter s old So).
Qed.

(* ================================================================== the whole monitor *)

Lemma mon_pick {B} (X : list B) o names objs nss m :
  NoDup (mkeys m) -> (forall x, In x (mkeys m) <-> ns_lab x nss = true) ->
  flat_map (fun e : N * list informer =>
              flat_map (fun nm : option N => if in_scope (Some (fst e), nm) o then X else []) (name_scopes names))
           (dm_vary m)
  = if dmatching names (objs, nss) o then X else [].
Proof.
  intros W2 I4.
  assert (Inner : forall e : N * list informer,
            flat_map (fun nm : option N => if in_scope (Some (fst e), nm) o then X else []) (name_scopes names)
            = if N.eqb (o_ns o) (fst e) then (if name_sel names (o_name o) then X else []) else []).
  { intros e. destruct (N.eqb (o_ns o) (fst e)) eqn:En.
    - rewrite <- (names_pick X names (o_name o)). apply flat_map_ext. intros nm.
      rewrite in_scope_split. cbn [fst snd opt_ok]. rewrite En. reflexivity.
    - transitivity (flat_map (fun _ : option N => @nil B) (name_scopes names)); [|apply flat_map_nil].
      apply flat_map_ext. intros nm. rewrite in_scope_split. cbn [fst snd opt_ok]. now rewrite En. }
  rewrite (flat_map_ext _ _ Inner).
  set (Y := if name_sel names (o_name o) then X else []).
  transitivity (flat_map (fun y => if N.eqb (o_ns o) y then Y else []) (map fst (dm_vary m)));
    [symmetry; apply (C01_HistProofs.flat_map_map fst (fun y => if N.eqb (o_ns o) y then Y else []))|].
  fold (mkeys m). rewrite (flat_map_pick Y (o_ns o) _ W2).
  unfold dmatching. cbn [snd]. fold (name_sel names (o_name o)).
  destruct (mem_N (o_ns o) (mkeys m)) eqn:M.
  - apply mem_N_In, I4 in M. rewrite M. reflexivity.
  - destruct (ns_lab (o_ns o) nss) eqn:L; [|reflexivity].
    apply I4, mem_N_In in L. congruence.
Qed.

Lemma mon_relist_key types flt names objs nss m objs' k :
  keys_distinct objs -> keys_distinct objs' -> W names objs m ->
  (forall x, In x (mkeys m) <-> ns_lab x nss = true) ->
  by_key k (mon_relist types flt m objs')
  = if dmatching names (objs, nss) (kobj k) then owed types flt objs objs' k else [].
Proof.
  intros Hd Hd' (W1 & W2 & W3) I4. unfold mon_relist. rewrite by_key_flat_map.
  rewrite <- (mon_pick (owed types flt objs objs' k) (kobj k) names objs nss m W2 I4).
  apply C01_HistProofs.flat_map_ext_in. intros e He.
  unfold caches_ok in W3. rewrite Forall_forall in W3. rewrite (W3 e He).
  unfold informers_for. rewrite C01_HistProofs.flat_map_map, by_key_flat_map.
  apply flat_map_ext. intros nm. cbn [fst snd]. now apply inf_relist_key.
Qed.

(* ================================================================== the reference, per object *)

Lemma exp_appear_keyed i c : keyed (exp_appear i c).
Proof.
  intros x e. unfold exp_appear. destruct (dmatching (h_names i) c x); [|intros []].
  destruct (lookup x (fst c)) as [old|]; [|apply listed_key].
  destruct (N.eqb _ _); [intros [] | apply listed_key].
Qed.

Lemma exp_vanish_keyed i c objs' : keyed (exp_vanish i c objs').
Proof.
  intros x e. unfold exp_vanish. destruct (dmatching (h_names i) c x); [|intros []].
  destruct (lookup x objs'); [intros [] | apply listed_key].
Qed.

Lemma exp_outage_key i c l k : keys_distinct (fst c) -> keys_distinct (fst (out_apply c l)) ->
  by_key k (exp_outage i c l)
  = if dmatching (h_names i) c (kobj k) then owed (h_types i) (h_filter i) (fst c) (fst (out_apply c l)) k else [].
Proof.
  intros Hd Hd'. unfold exp_outage. set (objs' := fst (out_apply c l)) in *.
  rewrite by_key_app, (collapse _ k (exp_appear_keyed i c) objs' Hd'),
    (collapse _ k (exp_vanish_keyed i c objs') (fst c) Hd).
  unfold owed.
  assert (A : match lookup (kobj k) objs' with Some x => exp_appear i c x | None => [] end
              = if dmatching (h_names i) c (kobj k)
                then match lookup (kobj k) objs' with
                     | Some o => inf_fire (h_types i) (h_filter i) (relist_kind o (fst c)) o (fst c)
                     | None => []
                     end
                else []).
  { destruct (lookup (kobj k) objs') as [o|] eqn:L; [|now destruct (dmatching (h_names i) c (kobj k))].
    apply lookup_in in L as [K _]. unfold exp_appear. rewrite (dmatching_same_key (h_names i) c o (kobj k) K).
    destruct (dmatching (h_names i) c (kobj k)); [|reflexivity].
    unfold inf_fire, relist_kind. destruct (lookup o (fst c)) as [old|]; [|reflexivity].
    destruct (N.eqb _ _); reflexivity. }
  assert (B : match lookup (kobj k) (fst c) with Some x => exp_vanish i c objs' x | None => [] end
              = if dmatching (h_names i) c (kobj k)
                then match lookup (kobj k) (fst c) with
                     | Some old => match lookup old objs' with Some _ => [] | None => listed (h_types i) Deleted old end
                     | None => []
                     end
                else []).
  { destruct (lookup (kobj k) (fst c)) as [old|] eqn:L; [|now destruct (dmatching (h_names i) c (kobj k))].
    apply lookup_in in L as [K _]. unfold exp_vanish. rewrite (dmatching_same_key (h_names i) c old (kobj k) K).
    reflexivity. }
  rewrite A, B. destruct (dmatching (h_names i) c (kobj k)); reflexivity.
Qed.

(* ================================================================== steps and histories *)

Lemma out_apply_snd : forall l c, snd (out_apply c l) = snd c.
Proof.
  unfold out_apply. induction l as [|x r IH]; intros c; [reflexivity|]. cbn [fold_left]. rewrite IH.
  destruct x; reflexivity.
Qed.

Lemma out_apply_keys : forall l c, keys_distinct (fst c) -> keys_distinct (fst (out_apply c l)).
Proof.
  unfold out_apply. induction l as [|x r IH]; intros c H; [exact H|]. cbn [fold_left]. apply IH.
  destruct x; cbn [hop_of dop_of dcl_apply fst]; now apply cl_apply_keys.
Qed.

Lemma relist_mon_W names objs objs' m : W names objs m ->
  W names objs' (relist_mon m objs') /\ mkeys (relist_mon m objs') = mkeys m.
Proof.
  intros (W1 & W2 & W3).
  assert (K : mkeys (relist_mon m objs') = mkeys m).
  { unfold mkeys, relist_mon. cbn [dm_vary]. rewrite map_map. cbn [fst]. reflexivity. }
  split; [|exact K]. split; [unfold relist_mon at 1; cbn [dm_cancel]; now rewrite K|]. split; [now rewrite K|].
  unfold relist_mon. cbn [dm_vary]. unfold caches_ok in *. rewrite Forall_forall in *. intros e' He'.
  apply in_map_iff in He' as [e [<- He]]. cbn [fst snd]. rewrite (W3 e He).
  unfold informers_for. rewrite map_map. apply map_ext. intros nm. reflexivity.
Qed.

Lemma rstep_fst names st op : fst (rstep names st op) = rcl_apply (fst st) op.
Proof. destruct op; [apply dstep_fst | reflexivity]. Qed.

Lemma rstep_inv names st op : DInv names st -> DInv names (rstep names st op).
Proof.
  destruct op as [h|l]; [apply dstep_inv|].
  destruct st as [[objs nss] m]. intros (I1 & I2 & I3 & I4). cbn [fst snd] in *.
  unfold DInv, rstep. cbn [fst snd].
  destruct (relist_mon_W names objs (fst (out_apply (objs, nss) l)) m I3) as [R1 R2].
  split; [now apply (out_apply_keys l (objs, nss))|]. rewrite out_apply_snd. cbn [snd].
  split; [exact I2|]. split; [exact R1|]. intros x. rewrite R2. apply I4.
Qed.

Lemma rfire_key i st op k : DInv (h_names i) st -> by_key k (rfire i st op) = by_key k (rchg_step i (fst st) op).
Proof.
  intros Hinv. destruct op as [h|l]; cbn [rfire rchg_step]; [now rewrite (hfire_spec i st h Hinv)|].
  destruct st as [[objs nss] m]. destruct Hinv as (I1 & I2 & I3 & I4). cbn [fst snd] in *.
  assert (Hd' : keys_distinct (fst (out_apply (objs, nss) l))) by (now apply (out_apply_keys l (objs, nss))).
  rewrite (mon_relist_key _ _ (h_names i) objs nss m _ k I1 Hd' I3 I4).
  now rewrite (exp_outage_key i (objs, nss) l k I1 Hd').
Qed.

Lemma rrun_spec i k : forall ops st, DInv (h_names i) st ->
  by_key k (rrun i st ops) = by_key k (rchanges_from i (fst st) ops).
Proof.
  induction ops as [|op r IH]; intros st Hinv; [reflexivity|].
  cbn [rrun rchanges_from]. rewrite !by_key_app, (rfire_key i st op k Hinv). f_equal.
  rewrite (IH _ (rstep_inv (h_names i) st op Hinv)). now rewrite rstep_fst.
Qed.

(* THE statement about the code path: no hypothesis, every input, every object *)
Theorem relist_events_exact i ops k : by_key k (relist_out i ops) = by_key k (rchanges_only i ops).
Proof. unfold relist_out, rchanges_only. now rewrite (rrun_spec i k ops _ (hist_init_inv i)). Qed.

(* without outages the class is the one of C01_Hist *)
Lemma rrun_steps i : forall ops st, rrun i st (map RStep ops) = hrun i st ops.
Proof. induction ops as [|op r IH]; intros st; [reflexivity|]. cbn [map rrun hrun rfire rstep]. now rewrite IH. Qed.

Theorem relist_without_outage i : relist_out i (map RStep (h_ops i)) = hist_out i.
Proof. apply rrun_steps. Qed.

(* ================================================================== replaying the Events *)

Lemma same_entry_refl flt a : same_entry flt a a = true.
Proof. destruct a; [apply N.eqb_refl | reflexivity]. Qed.

Lemma all_listed_fires types kd : all_listed types = true -> fires types kd = true.
Proof.
  unfold all_listed. intros H. apply andb_true_iff in H as [H H3]. apply andb_true_iff in H as [H1 H2].
  now destruct kd.
Qed.

Lemma hcluster0_keys i : keys_distinct (fst (hcluster0 i)).
Proof. apply fold_cl_set_keys. constructor. Qed.

Lemma rcl_apply_keys c op : keys_distinct (fst c) -> keys_distinct (fst (rcl_apply c op)).
Proof.
  destruct op as [h|l]; [|apply out_apply_keys].
  destruct h; cbn [rcl_apply dop_of dcl_apply fst]; try (intros H; exact H); apply cl_apply_keys.
Qed.

(* an object operation of a healthy watch, seen from object k *)
Lemma set_replay i c o k v : all_listed (h_types i) = true ->
  same_entry (h_filter i) v (entry (h_names i) c k) = true ->
  same_entry (h_filter i) (fold_left upd (by_key k (exp_change i c (HSet o))) v)
             (entry (h_names i) (dcl_apply c (DObj OModify o)) k) = true.
Proof.
  intros Hall Hv. destruct c as [objs nss]. unfold entry in *. cbn [dcl_apply cl_apply fst snd] in *.
  rewrite lookup_cl_set. destruct (same_key o (kobj k)) eqn:K.
  - (* the object itself *)
    assert (Q : forall l, (forall e, In e l -> hkey e = key o) -> by_key k l = l).
    { intros l H. apply by_key_all. intros e He. rewrite (H e He). sk. now rewrite K, key_kobj. }
    cbn [exp_change fst]. change (dmatching (h_names i) (cl_set o objs, nss) o) with (dmatching (h_names i) (objs, nss) o).
    rewrite (lookup_same_key o (kobj k) objs K).
    destruct (dmatching (h_names i) (objs, nss) o) eqn:M.
    + destruct (lookup (kobj k) objs) as [old|] eqn:L.
      * apply lookup_in in L as [Ko _]. assert (Mo : dmatching (h_names i) (objs, nss) old = true).
        { rewrite (dmatching_same_key _ _ old (kobj k) Ko), <- (dmatching_same_key _ _ o (kobj k) K). exact M. }
        rewrite Mo in Hv. destruct (N.eqb (csum (h_filter i) (snd old)) (csum (h_filter i) (snd o))) eqn:C.
        -- cbn [by_key filter fold_left]. destruct v as [x|]; [|discriminate]. cbn [same_entry] in *.
           apply N.eqb_eq in Hv, C. apply N.eqb_eq. congruence.
        -- unfold listed. rewrite (all_listed_fires _ Modified Hall), Q by (intros e [<-|[]]; reflexivity).
           cbn [fold_left upd hev]. apply N.eqb_refl.
      * unfold listed. rewrite (all_listed_fires _ Added Hall), Q by (intros e [<-|[]]; reflexivity).
        cbn [fold_left upd hev]. apply N.eqb_refl.
    + cbn [by_key filter fold_left]. destruct (lookup (kobj k) objs) as [old|] eqn:L; [|exact Hv].
      apply lookup_in in L as [Ko _].
      rewrite (dmatching_same_key _ _ old (kobj k) Ko), <- (dmatching_same_key _ _ o (kobj k) K), M in Hv. exact Hv.
  - (* another object *)
    rewrite (by_key_none k (exp_change i (objs, nss) (HSet o))).
    + cbn [fold_left]. destruct (lookup (kobj k) objs) as [x|]; [|exact Hv].
      change (dmatching (h_names i) (cl_set o objs, nss) x) with (dmatching (h_names i) (objs, nss) x). exact Hv.
    + intros e He Q. sk. apply K. rewrite key_kobj, <- Q. symmetry. revert He. cbn [exp_change fst].
      destruct (dmatching (h_names i) (objs, nss) o); [|intros []].
      destruct (lookup o objs) as [old|]; [destruct (N.eqb (csum (h_filter i) (snd old)) (csum (h_filter i) (snd o))); [intros [] | apply listed_key] | apply listed_key].
Qed.

Lemma del_replay i c ns name k v : all_listed (h_types i) = true -> keys_distinct (fst c) ->
  same_entry (h_filter i) v (entry (h_names i) c k) = true ->
  same_entry (h_filter i) (fold_left upd (by_key k (exp_change i c (HDel ns name))) v)
             (entry (h_names i) (dcl_apply c (DObj ODelete (ns, name, 0))) k) = true.
Proof.
  intros Hall Hd Hv. destruct c as [objs nss]. unfold entry in *. cbn [dcl_apply cl_apply fst snd] in *.
  rewrite (lookup_cl_del _ _ objs Hd). cbn [exp_change fst].
  destruct (same_key (ns, name, 0) (kobj k)) eqn:K.
  - rewrite (lookup_same_key (ns, name, 0) (kobj k) objs K).
    destruct (lookup (kobj k) objs) as [old|] eqn:L; [|cbn [by_key filter fold_left]; exact Hv].
    apply lookup_in in L as [Ko _].
    destruct (dmatching (h_names i) (objs, nss) old) eqn:M.
    + unfold listed. rewrite (all_listed_fires _ Deleted Hall).
      rewrite by_key_all by (intros e [<-|[]]; rewrite hkey_hev; sk; now rewrite Ko, key_kobj).
      reflexivity.
    + cbn [by_key filter fold_left]. exact Hv.
  - rewrite (by_key_none k).
    + cbn [fold_left]. destruct (lookup (kobj k) objs) as [x|]; [|exact Hv].
      change (dmatching (h_names i) (cl_del (ns, name, 0) objs, nss) x) with (dmatching (h_names i) (objs, nss) x). exact Hv.
    + intros e He Q. destruct (lookup (ns, name, 0) objs) as [old|] eqn:L; [|destruct He].
      apply lookup_in in L as [Ko _]. destruct (dmatching (h_names i) (objs, nss) old); [|destruct He].
      apply listed_key in He. sk. apply K. rewrite key_kobj, <- Q, He. symmetry. exact Ko.
Qed.

(* a namespace step that moves no existing object *)
Lemma ns_replay names c c' k : fst c' = fst c ->
  existsb (fun o => xorb (dmatching names c o) (dmatching names c' o)) (fst c) = false ->
  entry names c' k = entry names c k.
Proof.
  intros F H. unfold entry. rewrite F. destruct (lookup (kobj k) (fst c)) as [o|] eqn:L; [|reflexivity].
  apply lookup_in in L as [_ Ho].
  assert (Q : xorb (dmatching names c o) (dmatching names c' o) = false).
  { destruct (xorb (dmatching names c o) (dmatching names c' o)) eqn:X; [|reflexivity].
    assert (T : existsb (fun o => xorb (dmatching names c o) (dmatching names c' o)) (fst c) = true)
      by (apply existsb_exists; exists o; split; assumption). congruence. }
  apply xorb_eq in Q. now rewrite Q.
Qed.

(* an outage, seen from object k *)
Lemma out_replay i c l k v : all_listed (h_types i) = true -> keys_distinct (fst c) ->
  same_entry (h_filter i) v (entry (h_names i) c k) = true ->
  same_entry (h_filter i) (fold_left upd (by_key k (exp_outage i c l)) v)
             (entry (h_names i) (out_apply c l) k) = true.
Proof.
  intros Hall Hd Hv.
  assert (Hd' : keys_distinct (fst (out_apply c l))) by (now apply out_apply_keys).
  rewrite (exp_outage_key i c l k Hd Hd'). unfold entry in *.
  assert (M' : forall x, dmatching (h_names i) (out_apply c l) x = dmatching (h_names i) c x)
    by (intros x; unfold dmatching; now rewrite out_apply_snd).
  set (objs' := fst (out_apply c l)) in *. unfold owed. revert Hv.
  destruct (lookup (kobj k) objs') as [o|] eqn:Lb; destruct (lookup (kobj k) (fst c)) as [old|] eqn:La; intros Hv.
  - (* present before and after *)
    pose proof (lookup_in _ _ _ Lb) as [Kb _]. pose proof (lookup_in _ _ _ La) as [Ka _].
    rewrite M', (dmatching_same_key _ _ o (kobj k) Kb). rewrite (dmatching_same_key _ _ old (kobj k) Ka) in Hv.
    rewrite (lookup_same_key old (kobj k) objs' Ka), Lb, app_nil_r.
    unfold inf_fire, relist_kind. rewrite (lookup_same_key o (kobj k) (fst c) Kb), La.
    destruct (dmatching (h_names i) c (kobj k)); [|exact Hv].
    destruct (N.eqb (csum (h_filter i) (snd old)) (csum (h_filter i) (snd o))) eqn:C.
    + cbn [fold_left]. destruct v as [x|]; [|discriminate]. cbn [same_entry] in *.
      apply N.eqb_eq in Hv, C. apply N.eqb_eq. congruence.
    + unfold listed. rewrite (all_listed_fires _ Modified Hall). cbn [fold_left upd hev same_entry]. apply N.eqb_refl.
  - (* it appeared *)
    pose proof (lookup_in _ _ _ Lb) as [Kb _].
    rewrite M', (dmatching_same_key _ _ o (kobj k) Kb), app_nil_r.
    unfold inf_fire, relist_kind. rewrite (lookup_same_key o (kobj k) (fst c) Kb), La.
    destruct (dmatching (h_names i) c (kobj k)); [|exact Hv].
    unfold listed. rewrite (all_listed_fires _ Added Hall). cbn [fold_left upd hev same_entry]. apply N.eqb_refl.
  - (* it vanished *)
    pose proof (lookup_in _ _ _ La) as [Ka _].
    rewrite (dmatching_same_key _ _ old (kobj k) Ka) in Hv.
    rewrite (lookup_same_key old (kobj k) objs' Ka), Lb. cbn [app].
    destruct (dmatching (h_names i) c (kobj k)); [|exact Hv].
    unfold listed. rewrite (all_listed_fires _ Deleted Hall). reflexivity.
  - (* absent before and after *)
    cbn [app]. destruct (dmatching (h_names i) c (kobj k)); exact Hv.
Qed.

Lemma step_replay i c op k v : all_listed (h_types i) = true -> keys_distinct (fst c) ->
  ns_moves (h_names i) c op = false ->
  same_entry (h_filter i) v (entry (h_names i) c k) = true ->
  same_entry (h_filter i) (fold_left upd (by_key k (rchg_step i c op)) v)
             (entry (h_names i) (rcl_apply c op) k) = true.
Proof.
  intros Hall Hd Hq Hv. destruct op as [[o|ns name|ns lab|ns]|l]; cbn [rchg_step rcl_apply dop_of].
  - now apply set_replay.
  - now apply del_replay.
  - cbn [exp_change by_key filter fold_left]. rewrite (ns_replay (h_names i) c (dcl_apply c (DNs ns lab)) k); [exact Hv | reflexivity | exact Hq].
  - cbn [exp_change by_key filter fold_left]. rewrite (ns_replay (h_names i) c (dcl_apply c (DNsDel ns)) k); [exact Hv | reflexivity | exact Hq].
  - now apply out_replay.
Qed.

Lemma replay_from i k : all_listed (h_types i) = true -> forall ops c v, keys_distinct (fst c) ->
  quiet_from (h_names i) c ops = true ->
  same_entry (h_filter i) v (entry (h_names i) c k) = true ->
  same_entry (h_filter i) (fold_left upd (by_key k (rchanges_from i c ops)) v)
             (entry (h_names i) (fold_left rcl_apply ops c) k) = true.
Proof.
  intros Hall. induction ops as [|op r IH]; intros c v Hd Hq Hv; [exact Hv|].
  cbn [quiet_from] in Hq. apply andb_true_iff in Hq as [Q1 Q2]. apply negb_true_iff in Q1.
  cbn [rchanges_from fold_left]. rewrite by_key_app, fold_left_app.
  apply IH; [now apply rcl_apply_keys | exact Q2 | now apply step_replay].
Qed.

(* "applying the delivered Events on top of the Synchronization view reproduces the final matching
   state of the cluster", per object, across any number of outages *)
Theorem relist_replay i ops k : all_listed (h_types i) = true -> quiet i ops = true ->
  same_entry (h_filter i) (replay k (entry (h_names i) (hcluster0 i) k) (relist_out i ops))
             (entry (h_names i) (rfinal i ops) k) = true.
Proof.
  intros Hall Hq. unfold replay, rfinal. rewrite relist_events_exact. unfold rchanges_only.
  apply replay_from; [exact Hall | apply hcluster0_keys | exact Hq | apply same_entry_refl].
Qed.

(* ================================================================== the Spec *)

Lemma same_per_object_intro a b : (forall k, by_key k a = by_key k b) -> same_per_object a b = true.
Proof.
  intros H. unfold same_per_object. apply forallb_forall. intros k _. rewrite H.
  apply list_eqb_refl. exact hevent_eqb_refl.
Qed.

Lemma hkey_erase e : hkey (erase e) = hkey e.
Proof. destruct e as [[[n m] kd] c]. destruct kd; reflexivity. Qed.

Lemma by_key_erase k : forall l, by_key k (map erase l) = map erase (by_key k l).
Proof.
  induction l as [|e r IH]; [reflexivity|]. cbn [map by_key filter]. rewrite hkey_erase.
  destruct (hkey_eqb (hkey e) k); [cbn [map]; f_equal; exact IH | exact IH].
Qed.

Lemma no_brought_rexpected i : forall ops c, rbrings_along i c ops = false -> rexpected_from i c ops = rchanges_from i c ops.
Proof.
  induction ops as [|op r IH]; intros c H; [reflexivity|]. cbn [rbrings_along] in H.
  apply orb_false_iff in H as [H1 H2]. cbn [rexpected_from rchanges_from]. rewrite (IH _ H2). f_equal.
  destruct op as [h|l]; [|reflexivity]. cbn [rexp_step rchg_step].
  destruct (exp_brought i c h); [apply app_nil_r | discriminate].
Qed.

Theorem relist_P_partial i ops : RT i ops = false -> RP i ops (mkHOb (relist_out i ops) 0 false) = true.
Proof.
  intros HTf. unfold RP. cbn [ho_bad ho_before ho_out negb andb N.eqb].
  unfold rexpected. rewrite (no_brought_rexpected i _ _ HTf). fold (rchanges_only i ops).
  rewrite same_per_object_intro by (intros k; now rewrite !by_key_erase, relist_events_exact).
  cbn [andb]. destruct (all_listed (h_types i) && quiet i ops) eqn:Q; [|reflexivity].
  apply andb_true_iff in Q as [Q1 Q2]. unfold replay_ok. apply forallb_forall. intros k _.
  now apply relist_replay.
Qed.

(* F24 on these histories (the witness of C01_HistProofs, its steps on a healthy watch) *)
Theorem relist_refuted_F24 : exists i ops, RT i ops = true /\ RP i ops (mkHOb (relist_out i ops) 0 false) = false.
Proof.
  exists (mkHistIn [] [Added; Modified; Deleted] false [] [] []).
  exists [RStep (HSet (1, 1, 1)); RStep (HSet (1, 2, 1)); RStep (HNs 1 true); ROut [OSet (1, 1, 2)]].
  split; vm_compute; reflexivity.
Qed.

(* ================================================================== the relist, call by call *)

Lemma inf_fire_lookup types flt kd o c1 c2 : lookup o c1 = lookup o c2 ->
  inf_fire types flt kd o c1 = inf_fire types flt kd o c2.
Proof. unfold inf_fire. now intros ->. Qed.

Definition ckey (c : rcall) : N * N := key (call_obj c).
Definition call_op (c : rcall) : okind * obj :=
  (match call_kind c with Deleted => ODelete | _ => OModify end, call_obj c).
Definition call_leaves (c : rcall) : option obj :=
  match call_kind c with Deleted => None | _ => Some (call_obj c) end.

Lemma lookup_call x c cache : keys_distinct cache ->
  lookup x (cl_apply cache (call_op c)) = if same_key (call_obj c) x then call_leaves c else lookup x cache.
Proof.
  intros Hd. unfold call_op, call_leaves, cl_apply. cbn [fst snd].
  destruct (call_kind c); [apply lookup_cl_set | apply lookup_cl_set | now apply lookup_cl_del].
Qed.

Lemma same_key_refl o : same_key o o = true.
Proof. now apply same_key_iff. Qed.

Lemma lookup_none_inv x : forall l, lookup x l = None -> forall z, In z l -> same_key z x = false.
Proof. intros l H z Hz. exact (find_none _ l H z Hz). Qed.

Lemma run_step types flt cur c r :
  inf_relist_run types flt cur (c :: r)
  = (inf_fire types flt (call_kind c) (call_obj c) cur ++ fst (inf_relist_run types flt (cl_apply cur (call_op c)) r),
     snd (inf_relist_run types flt (cl_apply cur (call_op c)) r)).
Proof.
  cbn [inf_relist_run]. fold (call_op c). now destruct (inf_relist_run types flt (cl_apply cur (call_op c)) r).
Qed.

(* calls about pairwise different objects, none of which the cache has been changed for: every
   decision is the one against the cache as it was; afterwards every called object is as its call
   leaves it and everything else is untouched *)
Lemma run_static types flt c0 : forall calls cur, keys_distinct cur -> NoDup (map ckey calls) ->
  (forall c, In c calls -> lookup (call_obj c) cur = lookup (call_obj c) c0) ->
  fst (inf_relist_run types flt cur calls) = flat_map (fun c => inf_fire types flt (call_kind c) (call_obj c) c0) calls
  /\ (forall c, In c calls -> lookup (call_obj c) (snd (inf_relist_run types flt cur calls)) = call_leaves c)
  /\ (forall x, (forall c, In c calls -> same_key (call_obj c) x = false) ->
                lookup x (snd (inf_relist_run types flt cur calls)) = lookup x cur).
Proof.
  induction calls as [|c r IH]; intros cur Hd Hn Hc.
  - split; [reflexivity|]. split; [intros c []|]. intros x _. reflexivity.
  - cbn [map] in Hn. inversion Hn as [|? ? Hc1 Hr]; subst.
    assert (Other : forall c', In c' r -> same_key (call_obj c) (call_obj c') = false).
    { intros c' Hc'. sk. intros Q. apply Hc1. replace (ckey c) with (ckey c') by (unfold ckey; now rewrite Q). now apply in_map. }
    assert (Hd' : keys_distinct (cl_apply cur (call_op c))) by (now apply cl_apply_keys).
    destruct (IH (cl_apply cur (call_op c)) Hd' Hr) as (A & B & C).
    { intros c' Hc'. rewrite (lookup_call _ c cur Hd), (Other c' Hc'). apply Hc. now right. }
    rewrite run_step. cbn [fst snd flat_map]. split; [|split].
    + rewrite A. f_equal. apply inf_fire_lookup, Hc. now left.
    + intros c' [<-|Hc'].
      * rewrite C by (intros c' Hc'; rewrite <- (Other c' Hc'); unfold same_key; now rewrite (N.eqb_sym (o_ns _)), (N.eqb_sym (o_name _))).
        now rewrite (lookup_call _ c cur Hd), same_key_refl.
      * now apply B.
    + intros x Hx. rewrite C by (intros c' Hc'; apply Hx; now right).
      rewrite (lookup_call _ c cur Hd), (Hx c (or_introl eq_refl)). reflexivity.
Qed.

Lemma relist_calls_nodup cache listed_objs : keys_distinct cache -> keys_distinct listed_objs ->
  NoDup (map ckey (relist_calls cache listed_objs)).
Proof.
  intros Hd Hl. unfold relist_calls. rewrite map_app, map_map.
  apply nodup_app_intro.
  - exact Hl.
  - unfold keys_distinct in Hd. induction cache as [|old r IH]; [constructor|].
    cbn [map] in Hd. inversion Hd as [|? ? Ho Hr]; subst. cbn [flat_map].
    destruct (lookup old listed_objs); [now apply IH|]. cbn [app map]. constructor; [|now apply IH].
    intros Q. apply Ho. apply in_map_iff in Q as (c & Ec & Hc). apply in_flat_map in Hc as (z & Hz & Hc).
    destruct (lookup z listed_objs); [destruct Hc|]. destruct Hc as [<-|[]]. unfold ckey in Ec. cbn in Ec.
    rewrite <- Ec. now apply in_map.
  - intros k Hk1 Hk2. apply in_map_iff in Hk1 as (o & <- & Ho).
    apply in_map_iff in Hk2 as (c & Ec & Hc). apply in_flat_map in Hc as (z & Hz & Hc).
    destruct (lookup z listed_objs) eqn:L; [destruct Hc|]. destruct Hc as [<-|[]]. unfold ckey in Ec. cbn in Ec.
    pose proof (lookup_none_inv z listed_objs L o Ho) as F. sk. congruence.
Qed.

(* the relist of one informer as the code runs it - one handler call after the other, each
   against the cache the earlier ones left - fires exactly [inf_relist] and leaves, per object,
   the listed objects in the cache *)
Theorem relist_run_static types flt cache listed_objs : keys_distinct cache -> keys_distinct listed_objs ->
  fst (inf_relist_run types flt cache (relist_calls cache listed_objs)) = inf_relist types flt cache listed_objs
  /\ forall x, lookup x (snd (inf_relist_run types flt cache (relist_calls cache listed_objs))) = lookup x listed_objs.
Proof.
  intros Hd Hl.
  destruct (run_static types flt cache (relist_calls cache listed_objs) cache Hd (relist_calls_nodup _ _ Hd Hl)) as (A & B & C);
    [reflexivity|].
  split; [exact A|]. intros x.
  destruct (lookup x listed_objs) as [o|] eqn:L.
  - (* listed: set by its call *)
    apply lookup_in in L as [K Ho].
    rewrite <- (lookup_same_key o x _ K).
    assert (Hin : In (relist_kind o cache, FObj, o) (relist_calls cache listed_objs)).
    { unfold relist_calls. apply in_or_app. left. apply in_map_iff. exists o. now split. }
    pose proof (B _ Hin) as Bo. unfold call_leaves, call_obj, call_kind in Bo. cbn [fst snd] in Bo. rewrite Bo.
    unfold relist_kind. now destruct (lookup o cache).
  - destruct (lookup x cache) as [old|] eqn:Lc.
    + (* gone: removed by its tombstone *)
      apply lookup_in in Lc as [K Ho].
      rewrite <- (lookup_same_key old x _ K).
      assert (Hin : In (Deleted, FTomb, old) (relist_calls cache listed_objs)).
      { unfold relist_calls. apply in_or_app. right. apply in_flat_map. exists old. split; [exact Ho|].
        rewrite (lookup_same_key old x listed_objs K), L. now left. }
      pose proof (B _ Hin) as Bo. unfold call_leaves, call_obj, call_kind in Bo. cbn [fst snd] in Bo. exact Bo.
    + (* never there *)
      rewrite C; [exact Lc|]. intros c Hc. unfold relist_calls in Hc. apply in_app_or in Hc as [Hc|Hc].
      * apply in_map_iff in Hc as (o & <- & Ho). exact (lookup_none_inv x listed_objs L o Ho).
      * apply in_flat_map in Hc as (z & Hz & Hc). destruct (lookup z listed_objs); [destruct Hc|].
        destruct Hc as [<-|[]]. exact (lookup_none_inv x cache Lc z Hz).
Qed.
