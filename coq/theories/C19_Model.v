(* C19_Model.v — executable model of the dispatch part of the bundled shell framework:
   /repo/frameworks/shell/hook.sh (hook::run, hook::_get_possible_handler_names,
   hook::_run_first_available_handler) under the strict mode installed by
   /repo/shell_lib.sh (set -Eeuo pipefail, inherit_errexit).

   PARTIAL BY CONSTRUCTION: bash 5.2 and jq 1.6 are the interpreter of that code and are
   not modelled.  What is modelled is (1) the table of handler names, written after the
   nested [if]/[case] of hook::_get_possible_handler_names on the raw fields that the
   jq calls extract from the current context, and (2) the loop of hook::run with the
   first-available search and the effect of errexit on a failing handler.  Names are
   byte strings of ANY content: since the repair a686454 hook.sh keeps the candidate names
   one per line (`mapfile -t names <<< "$HANDLERS"`, empty lines skipped) and quotes every
   expansion (echo "__on_...::${BINDING}", type "$handler", ("$handler")), so bash applies
   neither word splitting nor pathname expansion to a name: a name with blanks, tabs, glob
   characters, quotes, backslashes or $ is one candidate, compared as it is.  Only a newline
   inside a name would still separate two lines (and a NUL does not pass a command
   substitution): strings with those bytes are outside the correspondence (C19_Corr.outside).
   (C19_WModel.v is a record of the word-splitting behaviour before the repair.)

   HANDLER BODIES (second half of this file).  A handler is a bash function; what makes
   it "fail" under the strict mode of shell_lib.sh is not only an explicit `return N`:
   any command of its body that fails outside a tested position ends the handler
   (errexit, inherited by the `($handler)` subshell, by functions called from it and -
   inherit_errexit - by command substitutions), a pipeline fails when any component
   fails (pipefail), an unset variable is fatal (nounset), and a body that runs to its
   end returns the status of its last command.  [cmd] is the class of body commands the
   correspondence generates, [exec_body] is what bash does with a body (which commands
   start, which status the function leaves) and [dispatchB]/[runB] are hook::run over
   handlers given by their bodies.  [dispatch]/[run] above are the same loop over
   handlers abstracted to their status (C19_Proofs.dispatchB_dispatch).

   No proofs in this file. *)
From Coq Require Import String Ascii.
From Verif Require Import Common.

(* byte-string literals *)
Definition B (s : string) : bytes := map N_of_ascii (list_ascii_of_string s).

Definition name := bytes.

(* One binding context, reduced to the fields the framework reads with jq.
   [None] = the member is absent, null or false (jq's `//` and `-e` do not tell these
   apart); [Some s] = a JSON string. *)
Record ctx := mkCtx {
  c_binding : option bytes;   (* .binding      *)
  c_type    : option bytes;   (* .type         *)
  c_event   : option bytes;   (* .watchEvent   *)
  c_group   : option bytes;   (* .groupName    *)
  c_from    : option bytes;   (* .fromVersion  *)
  c_to      : option bytes    (* .toVersion    *)
}.

(* hook.sh:12   BINDING_CONTEXT_CURRENT_BINDING=$(context::jq -r '.binding // "unknown"') *)
Definition cur_binding (c : ctx) : bytes :=
  match c_binding c with Some b => b | None => B "unknown" end.

(* jq's sub("/";"."): the first '/' (47) becomes '.' (46) *)
Fixpoint sub_slash (s : bytes) : bytes :=
  match s with
  | [] => []
  | x :: r => if N.eqb x 47 then 46%N :: r else x :: sub_slash r
  end.

(* hook.sh:62   $(context::jq -er '[.fromVersion,.toVersion]| map(sub("/";".")) | join("::")')
   inside the argument of echo: when jq fails (a version is null) the substitution is
   empty and echo still succeeds. *)
Definition conv_suffix (c : ctx) : bytes :=
  match c_from c, c_to c with
  | Some f, Some t => sub_slash f ++ B "::" ++ sub_slash t
  | _, _ => []
  end.

Definition is (s : string) (b : bytes) : bool := bytes_eqb b (B s).

(* hook::_get_possible_handler_names (hook.sh:21-67).  [None] = the function itself
   fails: `BINDING_CONTEXT_GROUP_NAME=$(context::jq -er '.groupName')` is a plain
   command of the then-branch, so under errexit/inherit_errexit a missing groupName
   kills the command substitution, `HANDLERS=$(...)` fails and the script exits 1. *)
Definition table (c : ctx) : option (list name) :=
  let b := cur_binding c in
  if is "onStartup" b then Some [B "__on_startup"]
  else match c_type c with
  | None => Some []                                   (* `elif TYPE=$(jq -er .type)` is false *)
  | Some t =>
    if is "Synchronization" t then
      Some [B "__on_kubernetes::" ++ b ++ B "::synchronization"; B "__on_kubernetes::" ++ b]
    else if is "Event" t then
      match c_event c with
      | None => Some []                               (* jq -r prints "null": no arm *)
      | Some e =>
        if is "Added" e then
          Some [B "__on_kubernetes::" ++ b ++ B "::added";
                B "__on_kubernetes::" ++ b ++ B "::added_or_modified";
                B "__on_kubernetes::" ++ b]
        else if is "Modified" e then
          Some [B "__on_kubernetes::" ++ b ++ B "::modified";
                B "__on_kubernetes::" ++ b ++ B "::added_or_modified";
                B "__on_kubernetes::" ++ b]
        else if is "Deleted" e then
          Some [B "__on_kubernetes::" ++ b ++ B "::deleted";
                B "__on_kubernetes::" ++ b]
        else Some []
      end
    else if is "Group" t then
      match c_group c with
      | Some g => Some [B "__on_group::" ++ g]
      | None => None
      end
    else if is "Schedule" t then Some [B "__on_schedule::" ++ b]
    else if is "Validating" t then Some [B "__on_validating::" ++ b]
    else if is "Mutating" t then Some [B "__on_mutating::" ++ b]
    else if is "Conversion" t then
      Some [B "__on_conversion::" ++ b ++ B "::" ++ conv_suffix c;
            B "__on_conversion::" ++ b]
    else Some []
  end.

Definition main_name : name := B "__main__".
Definition config_name : name := B "__config__".

(* hook.sh:14-15   HANDLERS=$(...); HANDLERS="${HANDLERS} __main__" *)
Definition candidates (c : ctx) : list name :=
  match table c with Some l => l ++ [main_name] | None => [] end.

Definition mem (x : name) (l : list name) : bool := existsb (bytes_eqb x) l.

(* hook::_run_first_available_handler: `for handler in ${HANDLERS}; do if type $handler ...` *)
Fixpoint first_defined (defined : list name) (hs : list name) : option name :=
  match hs with
  | [] => None
  | h :: r => if mem h defined then Some h else first_defined defined r
  end.

(* one invocation: the handler's name and what it sees as the current context *)
Definition entry := (name * N * bytes)%type.       (* name, BINDING_CONTEXT_CURRENT_INDEX, .._BINDING *)
Definition trace := list entry.

(* the loop of hook::run from context index [i] on.  A handler runs in a subshell
   `($handler)`; a non-zero status trips errexit (the ERR trap prints a traceback) and
   the script exits with that status; no candidate defined => `return 1` => exit 1. *)
Fixpoint dispatch_from (defined : list name) (results : name -> N -> N) (i : N) (cs : list ctx)
  : trace * N :=
  match cs with
  | [] => ([], 0%N)
  | c :: r =>
    match table c with
    | None => ([], 1%N)
    | Some l =>
      match first_defined defined (l ++ [main_name]) with
      | None => ([], 1%N)
      | Some h =>
        let st := results h i in
        if N.eqb st 0 then
          let (t, s) := dispatch_from defined results (N.succ i) r in
          ((h, i, cur_binding c) :: t, s)
        else ([(h, i, cur_binding c)], st)
      end
    end
  end.

Definition dispatch (defined : list name) (results : name -> N -> N) (cs : list ctx) : trace * N :=
  dispatch_from defined results 0%N cs.

(* what a run of the generated hook script shows *)
Record obs := mkObs {
  o_trace   : trace;
  o_status  : N;        (* exit status of the script *)
  o_printed : bool      (* the configuration text appeared on stdout *)
}.

(* hook.sh:4   [[ "${1:-}" == "--config" ]] *)
Definition is_config (args : list bytes) : bool :=
  match args with a :: _ => is "--config" a | [] => false end.

(* In --config mode no context is selected: the handler sees index and binding unset;
   the harness records them as 0 and the empty string. *)
Definition config_entry : entry := (config_name, 0%N, []).

(* hook.sh:4-7   __config__ ; exit 0     (an undefined __config__ is "command not found",
   status 127, fatal under errexit; a failing __config__ is fatal with its status) *)
Definition run (args : list bytes) (defined : list name) (results : name -> N -> N) (cs : list ctx) : obs :=
  if is_config args then
    if mem config_name defined
    then mkObs [config_entry] (results config_name 0%N) true
    else mkObs [] 127%N false
  else let (t, s) := dispatch defined results cs in mkObs t s false.

(* ====================================================================================
   Handler bodies under strict mode (shell_lib.sh:3-4  set -Eeuo pipefail;
   shopt -s inherit_errexit).

   A body is the list of commands of the function after the framework selected it; the
   statuses [st] are what the individual simple commands exit with (scripted by the
   harness: a function doing `return st`, `(exit st)`, an external `sh -c 'exit st'`,
   `false`, `[[ -f /missing ]]`, `grep -q` ...).  Statuses are 0..255. *)
Inductive cmd :=
| Plain (st : N)                (* a simple/compound command in an ordinary position          *)
| Pipe (sts : list N)           (* c1 | c2 | ... | cn                                         *)
| OrTrue (st : N)               (* c || true                                                  *)
| AndTrue (st : N)              (* c && true        (c is not the last command of the list)   *)
| IfCond (st : N)               (* if c; then :; fi                                           *)
| Not (st : N)                  (* ! c                                                        *)
| Return (st : N)               (* return st                                                  *)
| Exit (st : N)                 (* exit st                                                    *)
| Unset                         (* : "${never_set}"  - expansion of an unset variable          *)
| Group (sts : list N)          (* ( c1; c2; ...; cn )                                        *)
| Call (sts : list N)           (* helper; where  helper() { c1; c2; ...; cn; }               *)
| Subst (sts : list N)          (* v=$( c1; c2; ...; cn )                                     *)
| LocalSubst (sts : list N).    (* local v=$( c1; ...; cn )   - `local` masks the status      *)

Definition body := list cmd.

(* a mark in the trace: (position of the command in the body, 0) when the command starts,
   (position, j) when the j-th command (from 1) of its inner block starts *)
Definition step := (N * N)%type.

(* A block `c1; c2; ...; cn` of simple commands run where errexit is in force (subshell,
   called function, command substitution with inherit_errexit): every command starts
   until one fails; that status ends the block.  All succeed: status 0. *)
Fixpoint run_block (k j : N) (sts : list N) : list step * N :=
  match sts with
  | [] => ([], 0%N)
  | s :: r =>
    if N.eqb s 0 then let (t, st) := run_block k (N.succ j) r in ((k, j) :: t, st)
    else ([(k, j)], s)
  end.

(* pipefail: "the return value of a pipeline is the value of the last (rightmost) command
   to exit with a non-zero status, or zero if all commands exit successfully" - scanned
   left to right, remembering the last failure *)
Fixpoint pipe_status (sts : list N) (acc : N) : N :=
  match sts with
  | [] => acc
  | s :: r => pipe_status r (if N.eqb s 0 then acc else s)
  end.

(* one command at position [k]: marks of its inner block, the status it leaves in $?,
   and whether the function ends here (errexit / nounset kill the subshell the handler
   runs in; return and exit leave it) *)
Definition run_cmd (k : N) (c : cmd) : list step * N * bool :=
  match c with
  | Plain st => ([], st, negb (N.eqb st 0))
  | Pipe sts => let s := pipe_status sts 0%N in ([], s, negb (N.eqb s 0))
  | OrTrue _ => ([], 0%N, false)
  | AndTrue st => ([], st, false)                  (* errexit ignores all but the last of && *)
  | IfCond _ => ([], 0%N, false)                   (* no branch taken: status 0              *)
  | Not st => ([], if N.eqb st 0 then 1%N else 0%N, false)   (* errexit ignores inverted status *)
  | Return st => ([], st, true)
  | Exit st => ([], st, true)
  | Unset => ([], 1%N, true)                       (* "unbound variable": the shell exits 1  *)
  | Group sts | Call sts | Subst sts =>
      let (t, s) := run_block k 1%N sts in (t, s, negb (N.eqb s 0))
  | LocalSubst sts => let (t, _) := run_block k 1%N sts in (t, 0%N, false)
  end.

(* the body from position [k] on; [last] is $? so far: a function that runs to its end
   returns the status of the last command executed *)
Fixpoint exec_from (k : N) (b : body) (last : N) : list step * N :=
  match b with
  | [] => ([], last)
  | c :: r =>
    match run_cmd k c with
    | (inner, st, true) => ((k, 0%N) :: inner, st)
    | (inner, st, false) =>
      let (t, f) := exec_from (N.succ k) r st in ((k, 0%N) :: inner ++ t, f)
    end
  end.

(* the harness's `__verif_h` line (status 0) precedes the body *)
Definition exec_body (b : body) : list step * N := exec_from 0%N b 0%N.

(* hook::run over handlers given by their bodies: [bodies h i] is what handler [h]
   executes when the current context index is [i]. *)
Fixpoint dispatchB_from (defined : list name) (bodies : name -> N -> body) (i : N) (cs : list ctx)
  : trace * list (list step) * N :=
  match cs with
  | [] => ([], [], 0%N)
  | c :: r =>
    match table c with
    | None => ([], [], 1%N)
    | Some l =>
      match first_defined defined (l ++ [main_name]) with
      | None => ([], [], 1%N)
      | Some h =>
        let (ss, st) := exec_body (bodies h i) in
        if N.eqb st 0 then
          match dispatchB_from defined bodies (N.succ i) r with
          | (t, s, f) => ((h, i, cur_binding c) :: t, ss :: s, f)
          end
        else ([(h, i, cur_binding c)], [ss], st)
      end
    end
  end.

Definition dispatchB (defined : list name) (bodies : name -> N -> body) (cs : list ctx) :=
  dispatchB_from defined bodies 0%N cs.

(* the observation with, per invocation, the marks of the commands that started *)
Record obsB := mkObsB {
  ob_obs   : obs;
  ob_steps : list (list step)
}.

(* hook.sh:4-7: `__config__` is called in the main shell (no subshell): errexit, nounset,
   exit and a non-zero return all end the script with that status *)
Definition runB (args : list bytes) (defined : list name) (bodies : name -> N -> body) (cs : list ctx) : obsB :=
  if is_config args then
    if mem config_name defined
    then let (ss, st) := exec_body (bodies config_name 0%N) in mkObsB (mkObs [config_entry] st true) [ss]
    else mkObsB (mkObs [] 127%N false) []
  else match dispatchB defined bodies cs with
       | (t, s, f) => mkObsB (mkObs t f false) s
       end.

(* ====================================================================================
   What the script writes to its standard output.

   hook.sh:4-7   if [[ "${1:-}" == "--config" ]] ; then __config__ ; exit 0 ; fi
   `__config__` is called as a plain command of the main shell, with the script's own
   file descriptor 1: the bytes it writes are the bytes on the script's stdout - no
   capture, no expansion, no re-printing in between.  [text] is everything the function
   wrote to fd 1 by the time it ended (ANY byte string: a leading `---`, `%`, backslash
   sequences, quotes, NUL, no final newline, several final newlines, nothing at all, more
   than an argument of a command could hold).  An undefined __config__ ("command not
   found", on stderr) writes nothing; without --config the framework itself writes
   nothing to stdout (context::jq is only ever called inside command substitutions). *)
Record obsC := mkObsC {
  oc_run    : obsB;
  oc_stdout : bytes      (* the script's stdout, byte for byte *)
}.

Definition stdout_of (args : list bytes) (defined : list name) (text : bytes) : bytes :=
  if is_config args then (if mem config_name defined then text else []) else [].

Definition runC (args : list bytes) (defined : list name) (bodies : name -> N -> body) (cs : list ctx)
                (text : bytes) : obsC :=
  mkObsC (runB args defined bodies cs) (stdout_of args defined text).
