(* C01_FormsSpec.v — what a handler call MEANS as a change of the cluster, whatever its form,
   and C01 for one informer over such calls.  Written from client-go's contract for
   ResourceEventHandler and from the property text ("informer callbacks delivering
   add/update/delete ... every later change to a matching object ... reaches the hook as an
   Event"), not from handleWatchEvent:

     OnAdd(obj) / OnUpdate(_, obj)     the object exists now with this state
     OnDelete(obj)                     the object is gone (the watch saw it go)
     OnDelete(tombstone{Key, Obj})     the object stored under Key is gone (a relist found it
                                       missing); Obj is the last state the informer knew

   A deletion is a deletion in either form: the predicate is C01_Spec.P over the MEANT changes. *)
From Verif Require Import Common C01_Model C01_Spec C01_Forms.
Open Scope N_scope.

Definition meant (d : delivery) : change :=
  match dl_arg d with
  | AObj o p => mkCh o (dl_kind d) p
  | ATomb k _ p => mkCh k Deleted p
  end.

(* what client-go produces: tombstones only in OnDelete, the Key is the carried object's key *)
Definition clientgo_wf (d : delivery) : bool :=
  match dl_arg d with
  | AObj _ _ => true
  | ATomb k o _ => N.eqb k o && wkind_eqb (dl_kind d) Deleted
  end.

Definition spec_input (fi : finput) : input := mkIn (f_types fi) (map meant (f_dels fi)) (f_ops fi).

Definition PF (fi : finput) (k : N) (o : observation) : bool := P (spec_input fi) k o.
Definition PF_free (fi : finput) (o : observation) : bool := P_free (spec_input fi) o.
