(* C10_SessionProofs.v — several loads in one process: the loader is a function of the document. *)
From Coq Require Import String.
From Verif Require Import Common Json C10_Model C10_Spec C10_Proofs C10_Session.

Lemma vers_eqb_eq a b : vers_eqb a b = true <-> a = b.
Proof. destruct a, b; simpl; split; intros H; try reflexivity; discriminate. Qed.

(* the invariant of the process state: every cached schema is the schema of its version *)
Definition cache_ok (c : cache) : Prop :=
  forall v s, cache_find v c = Some s -> schema_of v = Some s.

Lemma cache_ok_nil : cache_ok [].
Proof. intros v s H. discriminate. Qed.

Lemma cache_ok_cons v s c : schema_of v = Some s -> cache_ok c -> cache_ok ((v, s) :: c).
Proof.
  intros Hs Hc v' s' H. simpl in H. destruct (vers_eqb v' v) eqn:E.
  - apply vers_eqb_eq in E. subst v'. now inversion H; subst.
  - now apply Hc.
Qed.

(* GetSchema answers with the schema of the version whatever is cached, and keeps the invariant *)
Lemma get_schema_ok c v :
  cache_ok c -> fst (get_schema c v) = schema_of v /\ cache_ok (snd (get_schema c v)).
Proof.
  intros Hc. unfold get_schema. destruct (cache_find v c) as [s|] eqn:F.
  - simpl. split; [symmetry; now apply Hc|exact Hc].
  - destruct (schema_of v) as [s|] eqn:S; simpl; split; try reflexivity; try exact Hc.
    now apply cache_ok_cons.
Qed.

Section Session.
  Variable cron_ok : bytes -> bool.
  Variable label_selector_ok : json -> bool.
  Variable duration_ns : bytes -> option Z.
  Variable webhook_ok : json -> bool.

  Notation load' := (load cron_ok label_selector_ok duration_ns webhook_ok).
  Notation load_st' := (load_st cron_ok label_selector_ok duration_ns webhook_ok).
  Notation session_from' := (session_from cron_ok label_selector_ok duration_ns webhook_ok).
  Notation state_after' := (state_after cron_ok label_selector_ok duration_ns webhook_ok).
  Notation session' := (session cron_ok label_selector_ok duration_ns webhook_ok).

  (* one load on any well-formed process state: the result is that of the document alone *)
  Lemma load_st_ok c d :
    cache_ok c -> fst (load_st' c d) = load' d /\ cache_ok (snd (load_st' c d)).
  Proof.
    intros Hc. unfold load_st, load. destruct (detect_version d) eqn:Hd.
    - destruct (get_schema_ok c VerV0 Hc) as [E1 E2].
      destruct (get_schema c VerV0) as [os c']. simpl in E1, E2. subst os. simpl. now split.
    - destruct (get_schema_ok c VerV1 Hc) as [E1 E2].
      destruct (get_schema c VerV1) as [os c']. simpl in E1, E2. subst os. simpl. now split.
    - simpl. now split.
  Qed.

  Lemma state_after_ok docs : forall c, cache_ok c -> cache_ok (state_after' c docs).
  Proof.
    induction docs as [|d r IH]; intros c Hc; simpl; [exact Hc|].
    apply IH. now apply load_st_ok.
  Qed.

  (* a session from any well-formed state: the list of the documents' own results *)
  Lemma session_from_is_map_load docs : forall c, cache_ok c -> session_from' c docs = map load' docs.
  Proof.
    induction docs as [|d r IH]; intros c Hc; simpl; [reflexivity|].
    destruct (load_st_ok c d Hc) as [E1 E2]. destruct (load_st' c d) as [x c']. simpl in E1, E2.
    subst x. f_equal. now apply IH.
  Qed.

  Lemma session_is_map_load docs : session' docs = map load' docs.
  Proof. apply session_from_is_map_load, cache_ok_nil. Qed.

  (* whatever the process loaded earlier *)
  Lemma session_after_any_history earlier docs :
    session_from' (state_after' [] earlier) docs = map load' docs.
  Proof. apply session_from_is_map_load, state_after_ok, cache_ok_nil. Qed.

  (* history independence: the k-th load of a session = the document loaded alone *)
  Lemma history_independence docs k d :
    nth_error docs k = Some d -> nth_error (session' docs) k = Some (load' d).
  Proof. intros H. rewrite session_is_map_load, nth_error_map, H. reflexivity. Qed.

  Lemma history_independence_split pre d post :
    nth_error (session' (pre ++ d :: post)) (length pre) = Some (load' d).
  Proof.
    apply history_independence. rewrite nth_error_app2, Nat.sub_diag; [reflexivity|apply le_n].
  Qed.

  (* a hook loaded again gets what it got the first time *)
  Lemma loaded_again_same pre d mid post :
    nth_error (session' (pre ++ d :: mid ++ d :: post)) (length pre)
    = nth_error (session' (pre ++ d :: mid ++ d :: post)) (length pre + S (length mid)).
  Proof.
    rewrite history_independence_split.
    replace (pre ++ d :: mid ++ d :: post) with ((pre ++ d :: mid) ++ d :: post)
      by (rewrite <- app_assoc; reflexivity).
    replace (length pre + S (length mid)) with (length (pre ++ d :: mid))
      by (rewrite app_length; reflexivity).
    now rewrite history_independence_split.
  Qed.

  (* ---- the Spec's session predicate holds of the model's session ---- *)

  Lemma combine_map_self A B (f : A -> B) l : combine l (map f l) = map (fun x => (x, f x)) l.
  Proof. induction l as [|x l IH]; simpl; [reflexivity|now rewrite IH]. Qed.

  Definition own_sobs (d : json) : sobs := model_sobs d (load' d) (load' d).

  Lemma model_session_eq docs :
    model_session cron_ok label_selector_ok duration_ns webhook_ok docs = map own_sobs docs.
  Proof.
    unfold model_session. rewrite session_is_map_load, combine_map_self, map_map. reflexivity.
  Qed.

  Lemma robs_obs_of r : robs r = obs_of r.
  Proof. reflexivity. Qed.

  Lemma own_step_ok d : step_ok (own_sobs d) = true.
  Proof.
    unfold step_ok, own_sobs, model_sobs, history_independent. cbn [so_doc so_fault so_json so_yaml so_alone_json so_alone_yaml].
    rewrite !robs_obs_of, (contract cron_ok label_selector_ok duration_ns webhook_ok d), !obs_eqb_refl.
    reflexivity.
  Qed.

  Lemma own_repeat_ok docs : repeat_ok (map own_sobs docs) = true.
  Proof.
    induction docs as [|d r IH]; simpl; [reflexivity|]. rewrite IH, andb_true_r.
    rewrite forallb_forall. intros t Ht. apply in_map_iff in Ht as [d' [<- _]].
    unfold same_doc, own_sobs, model_sobs. cbn [so_doc so_json so_yaml].
    destruct (json_eqb d d') eqn:E; [|reflexivity].
    apply json_eqb_eq in E. subst d'. now rewrite obs_eqb_refl.
  Qed.

  Lemma session_contract docs :
    P_session (model_session cron_ok label_selector_ok duration_ns webhook_ok docs) = true.
  Proof.
    rewrite model_session_eq. unfold P_session. rewrite own_repeat_ok, andb_true_r.
    rewrite forallb_forall. intros s Hs. apply in_map_iff in Hs as [d [<- _]]. apply own_step_ok.
  Qed.
End Session.

(* ---- example: a session that uses the process state ---- *)

Definition example_session : list json := [doc_group; doc_v0; doc_group; doc_v2; doc_v0].

Lemma example_session_runs :
  map (fun r => match r with Loaded _ => true | Rejected => false end)
      (session all_ok_cron all_ok_sel dur_3s all_ok_sel example_session) = [true; true; true; false; true]
  /\ map fst (state_after all_ok_cron all_ok_sel dur_3s all_ok_sel [] example_session) = [VerV0; VerV1]
  /\ nth_error example_session 2 = Some doc_group.
Proof. vm_compute. repeat split. Qed.
