(* C04_Properties.v — the property theorems of C04 and nothing else.
   [finish_one ok stopped] is the worker's treatment of a finished execution and
   [adv_one] the worker's next round (Op_Model / Op_Proofs); [retained] is C04_Spec's
   "every context reappears, in order (a grouped one may be subsumed by a later context of
   its group)"; [delay] is the integer transcription of CalculateDelayWithMax. *)
From Verif Require Import Common Op_Model Op_Corr Op_Spec Op_Proofs C04_Spec C04_Delay C04_Proofs C04_PProofs.

(* failed, failure not allowed: same task again (failure count + 1), all its contexts
   retained, later tasks of the queue only merged into it (same hook) or left waiting —
   none is started in between; repeated application gives "until it succeeds" *)
Theorem C04_fail_retries_same_task : forall cfg qok q sy t rest,
  q_running q = Some sy -> q_items q = t :: rest -> q_delay q = false ->
  t_type t = HookRun -> t_allow t = false ->
  should_run (hook_v0 cfg (t_hook t)) (incr_fail t) = true ->
  let q' := adv_one cfg qok (finish_one false false false q) in
  in_handler q' = true /\
  exists t' rest' block,
    q_items q' = t' :: rest' /\ rest = block ++ rest'
    /\ t_hook t' = t_hook t /\ t_fail t' = (t_fail t + 1)%N /\ t_allow t' = false
    /\ retained (t_ctxs t) (t_ctxs t') = true
    /\ Forall (fun x => t_hook x = t_hook t) block.
Proof. exact fail_retries_same_task. Qed.
Print Assumptions C04_fail_retries_same_task.

(* the same when the queue's back-off delay is positive: during the delay the failed task
   stays the head and nothing of the queue runs, whatever is queued meanwhile; when it is
   over the very same task runs again *)
Theorem C04_fail_waits_then_retries : forall cfg qok q sy t rest extra,
  q_running q = Some sy -> q_items q = t :: rest -> q_delay q = false ->
  t_type t = HookRun -> t_allow t = false ->
  should_run (hook_v0 cfg (t_hook t)) (incr_fail t) = true ->
  let q1 := finish_one false false true q in
  q1 = mkQ (q_name q) (incr_fail t :: rest) (Some false) true
  /\ in_handler q1 = false /\ adv_one cfg qok q1 = q1
  /\ let q2 := mkQ (q_name q) (q_items q1 ++ extra) (q_running q1) true in
     adv_one cfg qok q2 = q2
     /\ let q' := adv_one cfg qok (elapse_one q2) in
        in_handler q' = true /\
        exists t' rest' block,
          q_items q' = t' :: rest' /\ rest ++ extra = block ++ rest'
          /\ t_hook t' = t_hook t /\ t_fail t' = (t_fail t + 1)%N /\ t_allow t' = false
          /\ retained (t_ctxs t) (t_ctxs t') = true
          /\ Forall (fun x => t_hook x = t_hook t) block.
Proof. exact fail_waits_then_retries. Qed.
Print Assumptions C04_fail_waits_then_retries.

(* between the failure and the end of the delay EVERY action of the operator (ticks, events,
   ends of other executions, a second Finish for this queue) leaves the queue blocked on the
   same head and only appends to it *)
Theorem C04_delayed_queue_only_grows : forall cfg s a q,
  Inv s -> In q (queues s) -> q_delay q = true ->
  match a with Elapse qn => q_name q <> qn | _ => True end ->
  exists extra,
    step_q cfg a (sched_on s) (unlocked s) (stopped s) (has_queue (queues s)) q
    = mkQ (q_name q) (q_items q ++ extra) (q_running q) true.
Proof. exact delayed_queue_only_grows. Qed.
Print Assumptions C04_delayed_queue_only_grows.

(* combining never loses a context of the head task *)
Theorem C04_combine_retains_contexts : forall l m, retained l (compact (l ++ m)) = true.
Proof. exact retained_compact_app. Qed.
Print Assumptions C04_combine_retains_contexts.

(* failure allowed: the execution is dropped, the queue proceeds *)
Theorem C04_allow_failure_drops : forall q sy t rest ok wait,
  q_running q = Some sy -> q_items q = t :: rest -> q_delay q = false -> t_allow t = true ->
  finish_one ok false wait q = mkQ (q_name q) rest None false.
Proof. exact allow_failure_drops. Qed.
Print Assumptions C04_allow_failure_drops.

(* contexts of a binding that does not allow failure are never discarded after a failed
   run: a combined task allows failure iff the head and every merged task do *)
Theorem C04_combined_allow_iff_all : forall t rest,
  t_allow (fst (combine t rest)) = true <->
  t_allow t = true /\ Forall (fun x => t_allow x = true) (fst (take_block t rest)).
Proof. exact combined_allow_iff_all. Qed.
Print Assumptions C04_combined_allow_iff_all.

(* the back-off delay is never shorter than the initial delay (the queue uses max = 32 s) *)
Theorem C04_delay_ge_initial : forall initial max retry rnd,
  (0 <= initial <= max)%Z -> (100 * ms <= max)%Z -> (0 <= retry)%Z -> (0 <= rnd < 1000)%Z ->
  (initial <= delay initial max retry rnd)%Z.
Proof. exact delay_ge_initial. Qed.
Print Assumptions C04_delay_ge_initial.

Theorem C04_queue_delay_ge_initial : forall initial retry rnd,
  (0 <= initial <= max_backoff)%Z -> (0 <= retry)%Z -> (0 <= rnd < 1000)%Z ->
  (initial <= delay initial max_backoff retry rnd)%Z.
Proof. exact queue_delay_ge_initial. Qed.
Print Assumptions C04_queue_delay_ge_initial.

(* non-vacuity: a reachable state meeting the hypotheses of C04_fail_retries_same_task
   (two schedule tasks queued behind a running one, the head fails) *)
Example C04_hyp_met :
  let cfg := [mkHook 1 false None [] [mkSb 1 1 0 false 1; mkSb 2 1 0 true 2]] in
  let s := exec cfg [Boot; Tick 1; Tick 2; Tick 1]%N init in
  exists q sy t rest, In q (queues s) /\ q_running q = Some sy /\ q_items q = t :: rest /\ q_delay q = false
    /\ t_type t = HookRun /\ t_allow t = false /\ length rest = 2%nat
    /\ should_run (hook_v0 cfg (t_hook t)) (incr_fail t) = true.
Proof.
  vm_compute. eexists; eexists; eexists; eexists.
  split; [right; left; reflexivity|]. repeat split; reflexivity.
Qed.

(* The property's decidable predicate C04_Spec.P - at every failed execution the same task is
   retried with all its contexts and failure count + 1 (at once, or after the back-off delay
   during which the queue stays blocked on it), with allowFailure it is dropped and only
   contexts of bindings that allow failure are discarded - holds of the model's own
   observations for EVERY well-formed configuration and EVERY action sequence. *)
Theorem C04_P_holds : forall cfg acts,
  wf_config cfg = true -> C04_Spec.P (cfg, acts, Op_Corr.model_obs (cfg, acts, [])) = true.
Proof. exact C04_PProofs.P_holds. Qed.
Print Assumptions C04_P_holds.

(* the invariant that makes the retry clauses true: in every reachable state before Shutdown,
   the head of a queue that is in a handler or in a back-off delay is a hook task that is
   not skipped when the worker picks it again (combining never turns it into a skipped
   Synchronization) *)
Theorem C04_blocked_head_runs_again : forall cfg acts q,
  names_ok cfg -> stopped (exec cfg acts init) = false -> In q (queues (exec cfg acts init)) ->
  is_running q = true ->
  exists t r, q_items q = t :: r /\ t_type t = HookRun /\ should_run (hook_v0 cfg (t_hook t)) t = true.
Proof. exact C04_PProofs.blocked_head_runs_again. Qed.
Print Assumptions C04_blocked_head_runs_again.

(* non-vacuity of C04_P_holds: a well-formed configuration (three hooks, one of them v0, grouped
   and ungrouped bindings, three queues) and a run with failures, back-off delays, events
   arriving during a delay, and Shutdown; some queue waits in a delay, some head has failed twice *)
Example C04_P_hyp_met :
  let cfg := [mkHook 1 false (Some 1%Z) [mkKb 1 0 7 true false 1; mkKb 2 0 7 true true 2] [mkSb 3 0 7 true 1; mkSb 4 1 0 false 2];
              mkHook 2 true None [mkKb 5 0 0 false false 5] [mkSb 6 0 0 true 1];
              mkHook 3 false (Some 0%Z) [mkKb 7 2 3 false true 7; mkKb 8 2 3 true true 8] [mkSb 9 2 3 false 1]]%N in
  let acts := [Boot; Finish 0 true; Finish 0 false; Finish 0 true; KubeEv 1 5; KubeEv 1 6; Tick 1; Finish 0 false;
               Finish 0 false; FinishWait 0; KubeEv 1 9; KubeEv 7 1; KubeEv 8 1; Tick 1; Elapse 0; Finish 0 true;
               Finish 2 false; FinishWait 2; KubeEv 7 3; Elapse 2; Finish 2 false; Finish 0 false; Finish 0 false;
               Finish 0 true; Tick 2; FinishWait 1; Tick 2; Elapse 1; Finish 1 false; Stop; Finish 1 false]%N in
  wf_config cfg = true
  /\ existsb (fun s => existsb q_delay (queues s)) (trace cfg acts) = true
  /\ existsb (fun s => existsb (fun q => match q_items q with t :: _ => N.leb 2 (t_fail t) | [] => false end) (queues s))
             (trace cfg acts) = true.
Proof. vm_compute. repeat split. Qed.
