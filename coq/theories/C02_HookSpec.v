(* C02_HookSpec.v — the key sentence of C02 for a hook whose bindings of different types may share
   names, written from the property text: "Whenever a hook is executed ... the keys of `snapshots`
   are exactly the bindings named in includeSnapshotsFrom plus the kubernetes bindings sharing the
   binding's group" - the binding of a context is the one of the context's binding TYPE with the
   context's binding name; the sentence holds for every execution of a process, whatever was
   executed before.  Every list under `snapshots` shows the objects of the kubernetes binding it is
   filed under, `objects` of a kubernetes Synchronization those of the binding itself. *)
From Verif Require Import Common C02_Model C02_Spec C02_Hook.
Open Scope N_scope.

(* the bindings a context (type, name) refers to (one, when names are unique within a type) *)
Definition the_bindings (bs : list hb) (t : btype) (n : N) : list hb := filter (hb_is t n) bs.

(* the kubernetes bindings sharing group g *)
Definition kube_of_group (bs : list hb) (g : N) : list N :=
  map hb_name (filter (fun k => btype_eqb (hb_type k) TKube && N.eqb (hb_group k) g) bs).

Definition expected_keys (bs : list hb) (t : btype) (n : N) : list N :=
  flat_map (fun b => hb_incl b ++ (if N.eqb (hb_group b) 0 then [] else kube_of_group bs (hb_group b)))
           (the_bindings bs t n).

Definition P_hk_ctx (bs : list hb) (c : hctx) (o : list (N * N) * N) : bool :=
  let '(t, n, sync) := c in
  same_set (map fst (fst o)) (expected_keys bs t n)
  && nodup_N (map fst (fst o))
  && forallb (fun kv => N.eqb (snd kv) (fst kv)) (fst o)
  && N.eqb (snd o) (if btype_eqb t TKube && sync then n else 0).

(* every execution of the process, every context of it: the execution is one of the binding the
   event is for (ts: the binding types of the contexts the hook is executed with) *)
Definition P_hk (i : hk_in) (os : list (list (list (N * N) * N))) (ts : list (list btype)) (bad : bool) : bool :=
  negb bad && all2 (fun r o => all2 (P_hk_ctx (hk_bindings i)) r o) (hk_rounds i) os
  && all2 (fun r t => all2 (fun (c : hctx) ty => btype_eqb (fst (fst c)) ty) r t) (hk_rounds i) ts.

(* a legal hook and executions of its bindings: names unique within each binding type (and not
   empty), includeSnapshotsFrom names kubernetes bindings (config.go CheckIncludeSnapshots),
   every context is one of a binding of the hook *)
Fixpoint nodup_hb (bs : list hb) : bool :=
  match bs with
  | [] => true
  | b :: r => negb (existsb (hb_is (hb_type b) (hb_name b)) r) && nodup_hb r
  end.

Definition hk_wf (i : hk_in) : bool :=
  let bs := hk_bindings i in
  nodup_hb bs
  && forallb (fun b => negb (N.eqb (hb_name b) 0) && forallb (fun k => existsb (hb_is TKube k) bs) (hb_incl b)) bs
  && forallb (forallb (fun c : hctx => let '(t, n, _) := c in existsb (hb_is t n) bs)) (hk_rounds i).

(* trigger of the recorded finding F31 (validating and mutating binding of one name share a webhook id):
   a review for a validating binding is executed while the hook has a mutating binding of that name *)
Definition T_vm (i : hk_in) : bool :=
  existsb (existsb (fun c : hctx => let '(t, n, _) := c in
                                    btype_eqb t TValid && existsb (hb_is TMut n) (hk_bindings i))) (hk_rounds i).
