(* C02_Proofs.v *)
From Verif Require Import Common C02_Model C02_Spec.
From Coq Require Import Permutation.
Open Scope N_scope.

(* ================================================================== UpdateSnapshots *)

Definition cache_ok (s : ust) : Prop :=
  (forall k v, assoc_N k (u_cache s) = Some v -> v <> 0 /\ In k (u_reads s))
  /\ (forall k, In k (u_reads s) -> exists v, assoc_N k (u_cache s) = Some v)
  /\ NoDup (u_reads s).

Definition extends (s s' : ust) : Prop :=
  forall k v, assoc_N k (u_cache s) = Some v -> assoc_N k (u_cache s') = Some v.

Lemma extends_refl s : extends s s. Proof. intros k v H; exact H. Qed.
Lemma extends_trans a b c : extends a b -> extends b c -> extends a c.
Proof. intros H1 H2 k v H. auto. Qed.

Lemma read_binding_spec s b :
  cache_ok s ->
  let '(s', v) := read_binding s b in
  cache_ok s' /\ extends s s' /\ assoc_N b (u_cache s') = Some v /\ v <> 0.
Proof.
  intros (C1 & C2 & C3). unfold read_binding.
  destruct (assoc_N b (u_cache s)) as [v|] eqn:E.
  - split; [exact (conj C1 (conj C2 C3))|]. split; [apply extends_refl|]. split; [exact E | apply (C1 b v E)].
  - simpl. assert (Hnot : ~ In b (u_reads s)).
    { intros Hin. destruct (C2 b Hin) as [w Hw]. congruence. }
    assert (K1 : forall k w, (if N.eqb b k then Some (u_calls s + 1) else assoc_N k (u_cache s)) = Some w ->
                 w <> 0 /\ In k (u_reads s ++ [b])).
    { intros k w H. destruct (N.eqb b k) eqn:Ek.
      - apply N.eqb_eq in Ek. subst. inversion H; subst. split; [lia|]. apply in_or_app. right. now left.
      - destruct (C1 k w H) as [A B]. split; [exact A|]. apply in_or_app. now left. }
    assert (K2 : forall k, In k (u_reads s ++ [b]) ->
                 exists w, (if N.eqb b k then Some (u_calls s + 1) else assoc_N k (u_cache s)) = Some w).
    { intros k Hin. destruct (N.eqb b k) eqn:Ek; [eexists; reflexivity|].
      apply in_app_or in Hin as [Hin|[Hin|[]]]; [apply C2, Hin|]. subst. now rewrite N.eqb_refl in Ek. }
    assert (K3 : NoDup (u_reads s ++ [b])).
    { clear -C3 Hnot. induction (u_reads s) as [|x l IH]; simpl.
      - constructor; [intros [] | constructor].
      - inversion C3; subst. constructor.
        + intros Hin. apply in_app_or in Hin as [Hin|[Hin|[]]]; [contradiction|]. subst. apply Hnot. now left.
        + apply IH; [assumption|]. intros Hin. apply Hnot. now right. }
    split; [exact (conj K1 (conj K2 K3))|]. split.
    + intros k w H. simpl. destruct (N.eqb b k) eqn:Ek; [|exact H].
      apply N.eqb_eq in Ek. subst. congruence.
    + split; [simpl; now rewrite N.eqb_refl | lia].
Qed.

(* the `snapshots` map of a context is kept strictly sorted by key *)
Fixpoint ssorted (m : list (N * N)) : Prop :=
  match m with
  | [] => True
  | (k, _) :: r => match r with [] => True | (k', _) :: _ => k < k' end /\ ssorted r
  end.

Lemma ssorted_head_lt k v r : ssorted ((k, v) :: r) -> forall k' v', In (k', v') r -> k < k'.
Proof.
  revert k v. induction r as [|[a b] r IH]; intros k v H k' v' Hin; [destruct Hin|].
  simpl in H. destruct H as [H1 H2]. destruct Hin as [Hin|Hin].
  - inversion Hin; subst. exact H1.
  - assert (a < k') by (apply (IH a b H2 k' v' Hin)). lia.
Qed.

Lemma set_kv_keys k v : forall m k', In k' (map fst (set_kv k v m)) <-> k' = k \/ In k' (map fst m).
Proof.
  induction m as [|[a b] r IH]; intros k'; simpl.
  - intuition.
  - destruct (N.eqb k a) eqn:E.
    + apply N.eqb_eq in E. subst a. simpl. intuition.
    + destruct (N.ltb k a); simpl.
      * intuition.
      * rewrite IH. intuition.
Qed.

Lemma set_kv_assoc k v : forall m, ssorted m -> forall k',
  assoc_N k' (set_kv k v m) = if N.eqb k k' then Some v else assoc_N k' m.
Proof.
  induction m as [|[a b] r IH]; intros Hs k'; simpl.
  - destruct (N.eqb k k'); reflexivity.
  - destruct (N.eqb k a) eqn:E.
    + apply N.eqb_eq in E. subst a. simpl. destruct (N.eqb k k'); reflexivity.
    + destruct (N.ltb k a) eqn:L; simpl.
      * destruct (N.eqb k k'); reflexivity.
      * assert (Hr : ssorted r) by (simpl in Hs; destruct r as [|[c d] r']; [exact I | apply Hs]).
        rewrite (IH Hr). destruct (N.eqb a k') eqn:Ea; [|reflexivity].
        apply N.eqb_eq in Ea. subst k'. now rewrite E.
Qed.

Lemma set_kv_sorted k v : forall m, ssorted m -> ssorted (set_kv k v m).
Proof.
  induction m as [|[a b] r IH]; intros Hs; simpl; [auto|].
  assert (Hr : ssorted r) by (simpl in Hs; destruct r as [|[c d] r']; [exact I | apply Hs]).
  destruct (N.eqb k a) eqn:E.
  - apply N.eqb_eq in E. subst a. exact Hs.
  - destruct (N.ltb k a) eqn:L.
    + apply N.ltb_lt in L. simpl. split; [exact L | exact Hs].
    + apply N.ltb_ge in L. apply N.eqb_neq in E. specialize (IH Hr).
      simpl. split; [|exact IH].
      destruct (set_kv k v r) as [|[c d] r'] eqn:Es; [exact I|].
      assert (Hc : In c (map fst (set_kv k v r))) by (rewrite Es; now left).
      apply set_kv_keys in Hc. destruct Hc as [->|Hc]; [lia|].
      apply in_map_iff in Hc as [[c' d'] [Ec Hin]]. simpl in Ec. subst c'.
      apply (ssorted_head_lt a b r Hs c d' Hin).
Qed.

Lemma ssorted_nodup m : ssorted m -> NoDup (map fst m).
Proof.
  induction m as [|[k v] r IH]; intros H; [constructor|]. simpl. constructor.
  - intros Hin. apply in_map_iff in Hin as [[k' v'] [E Hin]]. simpl in E. subst k'.
    pose proof (ssorted_head_lt k v r H k v' Hin). lia.
  - apply IH. simpl in H. destruct r as [|[a b] r']; [exact I | apply H].
Qed.

Lemma ssorted_in_assoc m : ssorted m -> forall k v, In (k, v) m -> assoc_N k m = Some v.
Proof.
  induction m as [|[a b] r IH]; intros H k v Hin; [destruct Hin|]. simpl.
  destruct Hin as [Hin|Hin].
  - inversion Hin; subst. now rewrite N.eqb_refl.
  - pose proof (ssorted_head_lt a b r H k v Hin) as L.
    destruct (N.eqb a k) eqn:E; [apply N.eqb_eq in E; lia|].
    apply IH; [|exact Hin]. simpl in H. destruct r as [|[c d] r']; [exact I | apply H].
Qed.

(* invariant of filling one context's map from the per-execution cache *)
Definition snaps_ok (s : ust) (m : list (N * N)) (inc : list N) : Prop :=
  ssorted m
  /\ (forall k v, assoc_N k m = Some v -> assoc_N k (u_cache s) = Some v)
  /\ (forall k, In k (map fst m) <-> In k inc).

Lemma fill_snaps_spec inc : forall s m done,
  cache_ok s -> snaps_ok s m done ->
  let '(s', m') := fold_left (fun acc name => let '(st, mm) := acc in
                                              let '(st', v) := read_binding st name in (st', set_kv name v mm))
                             inc (s, m) in
  cache_ok s' /\ extends s s' /\ snaps_ok s' m' (done ++ inc).
Proof.
  induction inc as [|n inc IH]; intros s m done C SO0; simpl.
  - rewrite app_nil_r. split; [exact C|]. split; [apply extends_refl | exact SO0].
  - destruct SO0 as (S1 & S2 & S3).
    pose proof (read_binding_spec s n C) as R. destruct (read_binding s n) as [s1 v].
    destruct R as (C1 & E1 & A1 & V1).
    pose proof (set_kv_sorted n v m S1) as K1. pose proof (set_kv_assoc n v m S1) as K2.
    pose proof (set_kv_keys n v m) as K3.
    specialize (IH s1 (set_kv n v m) (done ++ [n]) C1).
    assert (SO : snaps_ok s1 (set_kv n v m) (done ++ [n])).
    { split; [exact K1|]. split.
      - intros k w H. rewrite K2 in H. destruct (N.eqb n k) eqn:Ek.
        + apply N.eqb_eq in Ek. subst k. inversion H; subst. exact A1.
        + apply E1, S2, H.
      - intros k. rewrite K3. rewrite in_app_iff. simpl. rewrite S3. intuition. }
    specialize (IH SO).
    destruct (fold_left _ inc (s1, set_kv n v m)) as [s' m'].
    destruct IH as (C' & E' & S'). split; [exact C'|]. split; [eapply extends_trans; eauto|].
    rewrite <- app_assoc in S'. exact S'.
Qed.

(* one context *)
Definition ctx_ok (bs : list ub) (s : ust) (c : N * bool) (o : list (N * N) * N) : Prop :=
  ssorted (fst o)
  /\ (forall k v, assoc_N k (fst o) = Some v -> assoc_N k (u_cache s) = Some v)
  /\ (forall k, In k (map fst (fst o)) <-> In k (includes_of bs (fst c)))
  /\ (if is_kube bs (fst c) && snd c then assoc_N (fst c) (u_cache s) = Some (snd o) /\ snd o <> 0 else snd o = 0).

Lemma ctx_ok_extends bs s s' c o : extends s s' -> ctx_ok bs s c o -> ctx_ok bs s' c o.
Proof.
  intros E (A & B & D & G). split; [exact A|]. split; [intros k v H; apply E, B, H|]. split; [exact D|].
  destruct (is_kube bs (fst c) && snd c); [destruct G as [G1 G2]; split; [apply E, G1 | exact G2] | exact G].
Qed.

Lemma upd_ctx_spec bs s c :
  cache_ok s ->
  let '(s', o) := upd_ctx bs s c in
  cache_ok s' /\ extends s s' /\ ctx_ok bs s' c o.
Proof.
  intros C. unfold upd_ctx, fill_snaps.
  pose proof (fill_snaps_spec (includes_of bs (fst c)) s [] [] C) as F.
  assert (S0 : snaps_ok s [] []).
  { split; [exact I|]. split; [intros k v H; discriminate | intros k; simpl; tauto]. }
  specialize (F S0).
  destruct (fold_left _ (includes_of bs (fst c)) (s, [])) as [s1 snaps].
  destruct F as (C1 & E1 & (A & B & D)). simpl in D.
  destruct (is_kube bs (fst c) && snd c) eqn:K.
  - pose proof (read_binding_spec s1 (fst c) C1) as R. destruct (read_binding s1 (fst c)) as [s2 v].
    destruct R as (C2 & E2 & A2 & V2).
    split; [exact C2|]. split; [eapply extends_trans; eauto|].
    split; [exact A|]. split; [intros k w H; apply E2, B, H|]. split; [exact D|].
    simpl. rewrite K. split; assumption.
  - split; [exact C1|]. split; [exact E1|].
    split; [exact A|]. split; [exact B|]. split; [exact D|]. simpl. now rewrite K.
Qed.

(* every value handed out for binding k is THE read of k of this execution *)
Lemma upd_all_spec bs : forall cs s,
  cache_ok s ->
  let '(s', os) := upd_all bs s cs in
  cache_ok s' /\ extends s s' /\ Forall2 (ctx_ok bs s') cs os.
Proof.
  induction cs as [|c r IH]; intros s C; simpl.
  - split; [exact C|]. split; [apply extends_refl | constructor].
  - pose proof (upd_ctx_spec bs s c C) as U. destruct (upd_ctx bs s c) as [s1 o]. destruct U as (C1 & E1 & K1).
    specialize (IH s1 C1). destruct (upd_all bs s1 r) as [s2 os]. destruct IH as (C2 & E2 & F2).
    split; [exact C2|]. split; [eapply extends_trans; eauto|].
    constructor; [eapply ctx_ok_extends; eauto | exact F2].
Qed.

Lemma init_cache_ok : cache_ok (mkU [] 0 []).
Proof.
  split; [intros k v H; discriminate|]. split; [intros k H; contradiction | constructor].
Qed.

(* For every include topology and every array of contexts: each binding is read at most
   once in an execution; whatever is handed out for binding k — under `snapshots` of any
   context or as `objects` of its Synchronization — is that one read; the keys of a
   context's `snapshots` are exactly the bindings its binding includes, each once. *)
Theorem update_one_read_per_binding i :
  let '(os, reads) := update i in
  NoDup reads
  /\ exists final : list (N * N),
       Forall2 (fun c o =>
                  NoDup (map fst (fst o))
                  /\ (forall k, In k (map fst (fst o)) <-> In k (includes_of (ui_bindings i) (fst c)))
                  /\ (forall k v, In (k, v) (fst o) -> assoc_N k final = Some v /\ v <> 0)
                  /\ (if is_kube (ui_bindings i) (fst c) && snd c
                      then assoc_N (fst c) final = Some (snd o) /\ snd o <> 0 else snd o = 0))
               (ui_ctxs i) os.
Proof.
  unfold update. pose proof (upd_all_spec (ui_bindings i) (ui_ctxs i) (mkU [] 0 []) init_cache_ok) as U.
  destruct (upd_all (ui_bindings i) (mkU [] 0 []) (ui_ctxs i)) as [s os].
  destruct U as ((C1 & C2 & C3) & _ & F). split; [exact C3|].
  exists (u_cache s). induction F as [|c o cs os' H F IH]; constructor; [|exact IH].
  destruct H as (A & B & D & G). repeat split.
  - now apply ssorted_nodup.
  - apply D.
  - apply D.
  - apply B. now apply ssorted_in_assoc.
  - apply (C1 k v). apply B. now apply ssorted_in_assoc.
  - exact G.
Qed.

(* ================================================================== monitor.Snapshot *)

Definition key (o : obj) : N * N := (o_ns o, o_name o).
Definition keys_distinct (l : list obj) : Prop := NoDup (map key l).

Lemma same_key_iff a b : same_key a b = true <-> key a = key b.
Proof.
  unfold same_key, key. rewrite andb_true_iff, !N.eqb_eq. split; [intros [-> ->]; reflexivity | intros H; inversion H; auto].
Qed.

Lemma obj_eqb_eq a b : obj_eqb a b = true <-> a = b.
Proof.
  destruct a as [[a1 a2] a3], b as [[b1 b2] b3]. unfold obj_eqb, same_key, o_ns, o_name. simpl.
  rewrite !andb_true_iff, !N.eqb_eq. split; [intros [[-> ->] ->]; reflexivity | intros H; inversion H; auto].
Qed.

Lemma mem_obj_in o l : mem_obj o l = true <-> In o l.
Proof.
  unfold mem_obj. rewrite existsb_exists. split.
  - intros [x [Hx E]]. apply obj_eqb_eq in E. now subst.
  - intros H. exists o. split; [exact H | now apply obj_eqb_eq].
Qed.

Lemma cl_set_keys o c : keys_distinct c -> keys_distinct (cl_set o c) /\ (forall x, In x (cl_set o c) -> x = o \/ In x c).
Proof.
  unfold keys_distinct. induction c as [|x r IH]; intros H; simpl.
  - split; [constructor; [intros [] | constructor] | intros y [Hy|[]]; auto].
  - inversion H as [|? ? Hn Hr]; subst. destruct (same_key x o) eqn:E.
    + apply same_key_iff in E. split.
      * simpl. rewrite <- E. constructor; assumption.
      * intros y [Hy|Hy]; [now left | right; now right].
    + destruct (IH Hr) as [I1 I2]. split.
      * simpl. constructor; [|exact I1]. intros Hin. apply in_map_iff in Hin as [y [Ky Hy]].
        destruct (I2 y Hy) as [->|Hy'].
        -- assert (same_key x o = true) by (apply same_key_iff; now symmetry). congruence.
        -- apply Hn. apply in_map_iff. exists y. auto.
      * intros y [Hy|Hy]; [right; now left|]. destruct (I2 y Hy) as [Q|Q]; [now left | right; now right].
Qed.

Lemma cl_del_keys o c : keys_distinct c -> keys_distinct (cl_del o c) /\ (forall x, In x (cl_del o c) -> In x c).
Proof.
  unfold keys_distinct. induction c as [|x r IH]; intros H; simpl; [split; [constructor | auto]|].
  inversion H as [|? ? Hn Hr]; subst. destruct (same_key x o).
  - split; [exact Hr | intros y Hy; now right].
  - destruct (IH Hr) as [I1 I2]. split.
    + simpl. constructor; [|exact I1]. intros Hin. apply in_map_iff in Hin as [y [Ky Hy]].
      apply Hn. apply in_map_iff. exists y. split; [exact Ky | now apply I2].
    + intros y [Hy|Hy]; [now left | right; now apply I2].
Qed.

Lemma final_cluster_keys i : keys_distinct (final_cluster i).
Proof.
  unfold final_cluster.
  assert (G : forall ops c, keys_distinct c -> keys_distinct (fold_left cl_apply ops c)).
  { induction ops as [|[k o] r IH]; intros c H; [exact H|]. simpl. apply IH. unfold cl_apply. simpl.
    destruct k; [apply cl_set_keys | apply cl_set_keys | apply cl_del_keys]; exact H. }
  apply G.
  assert (G2 : forall l c, keys_distinct c -> keys_distinct (fold_left (fun c o => cl_set o c) l c)).
  { induction l as [|o r IH]; intros c H; [exact H|]. simpl. apply IH, cl_set_keys, H. }
  apply G2. constructor.
Qed.

(* ---- the sort ---- *)
Lemma ins_obj_perm o l : Permutation (ins_obj o l) (o :: l).
Proof.
  induction l as [|x r IH]; simpl; [reflexivity|].
  destruct (key_ltb x o); [|reflexivity]. rewrite IH. apply perm_swap.
Qed.
Lemma sort_objs_perm l : Permutation (sort_objs l) l.
Proof. induction l as [|x l IH]; simpl; [reflexivity|]. rewrite ins_obj_perm. now constructor. Qed.

Lemma key_trichotomy a b : key_ltb a b = false -> key a <> key b -> key_ltb b a = true.
Proof.
  unfold key_ltb, key. intros H Hne.
  apply orb_false_iff in H as [H1 H2]. apply N.ltb_ge in H1.
  destruct (N.eqb (o_ns a) (o_ns b)) eqn:E.
  - apply N.eqb_eq in E. simpl in H2. apply N.ltb_ge in H2.
    rewrite E, N.eqb_refl, N.ltb_irrefl. simpl. apply N.ltb_lt.
    assert (o_name a <> o_name b) by (intros X; apply Hne; now rewrite E, X). lia.
  - apply N.eqb_neq in E. apply orb_true_iff. left. apply N.ltb_lt. lia.
Qed.

Lemma key_ltb_trans a b c : key_ltb a b = true -> key_ltb b c = true -> key_ltb a c = true.
Proof.
  unfold key_ltb. rewrite !orb_true_iff, !andb_true_iff, !N.ltb_lt, !N.eqb_eq. intros [H|[H1 H2]] [G|[G1 G2]].
  - left. lia.
  - left. lia.
  - left. lia.
  - right. split; lia.
Qed.

Definition all_gt (o : obj) (l : list obj) : Prop := forall x, In x l -> key_ltb o x = true.

Lemma strictly_sorted_cons o l : strictly_sorted l = true -> all_gt o l -> strictly_sorted (o :: l) = true.
Proof. intros H G. destruct l as [|y r]; [reflexivity|]. simpl. rewrite (G y (or_introl eq_refl)). exact H. Qed.

Lemma strictly_sorted_all_gt o l : strictly_sorted (o :: l) = true -> all_gt o l /\ strictly_sorted l = true.
Proof.
  revert o. induction l as [|y r IH]; intros o H; [split; [intros x [] | reflexivity]|].
  simpl in H. apply andb_true_iff in H as [H1 H2]. destruct (IH y H2) as [G S]. split; [|exact H2].
  intros x [->|Hx]; [exact H1 | eapply key_ltb_trans; eauto].
Qed.

Lemma ins_obj_sorted o l :
  strictly_sorted l = true -> (forall x, In x l -> key x <> key o) -> strictly_sorted (ins_obj o l) = true.
Proof.
  induction l as [|x r IH]; intros H Hne; [reflexivity|]. simpl.
  destruct (strictly_sorted_all_gt x r H) as [G S].
  destruct (key_ltb x o) eqn:L.
  - apply strictly_sorted_cons.
    + apply IH; [exact S | intros y Hy; apply Hne; now right].
    + intros y Hy. apply (Permutation_in _ (ins_obj_perm o r)) in Hy. destruct Hy as [<-|Hy]; [exact L | now apply G].
  - assert (Lo : key_ltb o x = true) by (apply key_trichotomy; [exact L | apply Hne; now left]).
    apply strictly_sorted_cons; [exact H|].
    intros y [<-|Hy]; [exact Lo | eapply key_ltb_trans; [exact Lo | now apply G]].
Qed.

Lemma sort_objs_sorted l : keys_distinct l -> strictly_sorted (sort_objs l) = true.
Proof.
  unfold keys_distinct. induction l as [|o l IH]; intros H; [reflexivity|]. simpl. inversion H as [|? ? Hn Hr]; subst.
  apply ins_obj_sorted; [apply IH, Hr|].
  intros x Hx Ek. apply Hn. apply in_map_iff. exists x. split; [exact Ek|].
  apply (Permutation_in _ (sort_objs_perm l)), Hx.
Qed.

(* ---- scopes ---- *)
Lemma uniq_spec l : forall seen,
  NoDup (uniq l seen) /\ (forall x, In x (uniq l seen) <-> In x l /\ ~ In x seen).
Proof.
  induction l as [|a r IH]; intros seen; simpl; [split; [constructor | intros x; tauto]|].
  destruct (mem_N a seen) eqn:M.
  - apply mem_N_In in M. destruct (IH seen) as [I1 I2]. split; [exact I1|].
    intros x. rewrite I2. split; [tauto|]. intros [[->|H] Hn]; [contradiction | tauto].
  - assert (Hna : ~ In a seen) by (intros X; apply mem_N_In in X; congruence).
    destruct (IH (a :: seen)) as [I1 I2]. split.
    + constructor; [|exact I1]. intros X. apply I2 in X. destruct X as [_ X]. apply X. now left.
    + intros x. simpl. rewrite I2. simpl. split.
      * intros [->|[H Hn]]; [tauto | tauto].
      * intros [[->|H] Hn]; [now left|]. destruct (N.eq_dec a x) as [->|Hne]; [now left | right; tauto].
Qed.

Definition ns_scopes (i : snap_in) : list (option N) :=
  match uniq (si_namespaces i) [] with [] => [None] | l => map Some l end.
Definition nm_scopes (i : snap_in) : list (option N) :=
  match uniq (si_names i) [] with [] => [None] | l => map Some l end.

Lemma scopes_in i s : In s (scopes i) <-> In (fst s) (ns_scopes i) /\ In (snd s) (nm_scopes i).
Proof.
  unfold scopes. fold (ns_scopes i) (nm_scopes i). rewrite in_flat_map. split.
  - intros [ns [H1 H2]]. apply in_map_iff in H2 as [nm [<- H2]]. simpl. auto.
  - intros [H1 H2]. exists (fst s). split; [exact H1|]. apply in_map_iff. exists (snd s). split; [destruct s; reflexivity | exact H2].
Qed.

Definition opt_ok (s : option N) (v : N) : bool := match s with Some x => N.eqb v x | None => true end.

Lemma opt_scope_unique (l : list N) (sc : list (option N)) v a b :
  sc = match uniq l [] with [] => [None] | u => map Some u end ->
  In a sc -> In b sc -> opt_ok a v = true -> opt_ok b v = true -> a = b.
Proof.
  intros -> Ha Hb Oa Ob. destruct (uniq l []) as [|x u].
  - destruct Ha as [<-|[]], Hb as [<-|[]]. reflexivity.
  - apply in_map_iff in Ha as [a' [<- _]]. apply in_map_iff in Hb as [b' [<- _]]. simpl in *.
    apply N.eqb_eq in Oa, Ob. congruence.
Qed.

Lemma opt_scope_exists (l : list N) v :
  (exists s, In s (match uniq l [] with [] => [None] | u => map Some u end) /\ opt_ok s v = true)
  <-> (match l with [] => true | x :: r => mem_N v (x :: r) end) = true.
Proof.
  destruct (uniq_spec l []) as [_ U].
  destruct (uniq l []) as [|x u] eqn:E.
  - assert (l = []).
    { destruct l as [|a r]; [reflexivity|]. assert (In a []) by (apply U; simpl; split; [now left | tauto]). contradiction. }
    subst. split; [reflexivity|]. intros _. exists None. split; [now left | reflexivity].
  - destruct l as [|a r]; [simpl in E; discriminate|]. split.
    + intros [s [Hs Os]]. apply in_map_iff in Hs as [y [<- Hy]]. simpl in Os. apply N.eqb_eq in Os. subst y.
      apply mem_N_In. apply U in Hy. tauto.
    + intros H. apply mem_N_In in H. exists (Some v). split; [|simpl; apply N.eqb_refl].
      apply in_map_iff. exists v. split; [reflexivity|]. apply U. tauto.
Qed.

Lemma in_scope_split s o : in_scope s o = opt_ok (fst s) (o_ns o) && opt_ok (snd s) (o_name o).
Proof. destruct s as [[a|] [b|]]; reflexivity. Qed.

Lemma scope_exists_iff i o : (exists s, In s (scopes i) /\ in_scope s o = true) <-> matching i o = true.
Proof.
  pose proof (opt_scope_exists (si_namespaces i) (o_ns o)) as E1.
  pose proof (opt_scope_exists (si_names i) (o_name o)) as E2.
  fold (ns_scopes i) in E1. fold (nm_scopes i) in E2.
  unfold matching. rewrite andb_true_iff. split.
  - intros [s [Hs Is]]. apply scopes_in in Hs as [H1 H2]. rewrite in_scope_split in Is. apply andb_true_iff in Is as [I1 I2].
    split; [apply E1; exists (fst s) | apply E2; exists (snd s)]; auto.
  - intros [M1 M2]. apply E1 in M1 as [a [Ha Oa]]. apply E2 in M2 as [b [Hb Ob]].
    exists (a, b). split; [apply scopes_in; auto|].
    rewrite in_scope_split. simpl. now rewrite Oa, Ob.
Qed.

Lemma scope_unique i o s s' :
  In s (scopes i) -> In s' (scopes i) -> in_scope s o = true -> in_scope s' o = true -> s = s'.
Proof.
  intros Hs Hs' I1 I2. apply scopes_in in Hs as [A1 A2]. apply scopes_in in Hs' as [B1 B2].
  rewrite in_scope_split in I1, I2. apply andb_true_iff in I1 as [I1a I1b]. apply andb_true_iff in I2 as [I2a I2b].
  destruct s as [a b], s' as [a' b']. simpl in *. f_equal.
  - eapply (opt_scope_unique (si_namespaces i)); eauto.
  - eapply (opt_scope_unique (si_names i)); eauto.
Qed.

Lemma scopes_nodup i : NoDup (scopes i).
Proof.
  unfold scopes. fold (ns_scopes i) (nm_scopes i).
  assert (N1 : NoDup (ns_scopes i)).
  { unfold ns_scopes. destruct (uniq_spec (si_namespaces i) []) as [U _]. destruct (uniq (si_namespaces i) []) eqn:E.
    - constructor; [intros [] | constructor].
    - rewrite <- E in *. apply FinFun.Injective_map_NoDup; [intros x y H; now inversion H | exact U]. }
  assert (N2 : NoDup (nm_scopes i)).
  { unfold nm_scopes. destruct (uniq_spec (si_names i) []) as [U _]. destruct (uniq (si_names i) []) eqn:E.
    - constructor; [intros [] | constructor].
    - rewrite <- E in *. apply FinFun.Injective_map_NoDup; [intros x y H; now inversion H | exact U]. }
  induction N1 as [|a r Ha Hr IH]; simpl; [constructor|].
  assert (G : forall l1 l2 : list (option N * option N), NoDup l1 -> NoDup l2 -> (forall x, In x l1 -> ~ In x l2) -> NoDup (l1 ++ l2)).
  { induction l1 as [|x l1 IHl]; intros l2 H1 H2 Hd; [exact H2|]. simpl. inversion H1; subst. constructor.
    - intros Hin. apply in_app_or in Hin as [Hin|Hin]; [contradiction | apply (Hd x); [now left | exact Hin]].
    - apply IHl; auto. intros y Hy. apply Hd. now right. }
  apply G.
  - apply FinFun.Injective_map_NoDup; [intros x y H; now inversion H | exact N2].
  - exact IH.
  - intros x Hx Hin. apply in_map_iff in Hx as [nm [<- _]]. apply in_flat_map in Hin as [ns [Hns Hin]].
    apply in_map_iff in Hin as [nm' [E _]]. inversion E; subst. contradiction.
Qed.

(* ---- the caches ---- *)
Lemma caches_none_in i o :
  In o (caches i None) <-> In o (final_cluster i) /\ matching i o = true.
Proof.
  unfold caches. rewrite in_flat_map. rewrite <- scope_exists_iff. split.
  - intros [s [Hs Ho]]. rewrite app_nil_r in Ho. apply filter_In in Ho as [H1 H2]. split; [exact H1 | exists s; auto].
  - intros [H1 [s [Hs Is]]]. exists s. split; [exact Hs|]. rewrite app_nil_r. apply filter_In. auto.
Qed.

Lemma nodup_app_intro {A} (l1 l2 : list A) :
  NoDup l1 -> NoDup l2 -> (forall x, In x l1 -> ~ In x l2) -> NoDup (l1 ++ l2).
Proof.
  induction l1 as [|x l1 IH]; intros H1 H2 Hd; [exact H2|]. simpl. inversion H1; subst. constructor.
  - intros Hin. apply in_app_or in Hin as [Hin|Hin]; [contradiction | apply (Hd x); [now left | exact Hin]].
  - apply IH; auto. intros y Hy. apply Hd. now right.
Qed.

Lemma filter_keys_distinct (p : obj -> bool) l : keys_distinct l -> keys_distinct (filter p l).
Proof.
  unfold keys_distinct. induction l as [|x r IH]; intros H; [constructor|]. inversion H; subst. simpl.
  destruct (p x); [|now apply IH]. simpl. constructor; [|now apply IH].
  intros Hin. apply in_map_iff in Hin as [y [Ky Hy]]. apply filter_In in Hy as [Hy _].
  match goal with Hn : ~ In (key x) _ |- _ => apply Hn end. apply in_map_iff. exists y. auto.
Qed.

Lemma key_inj_in l a b : keys_distinct l -> In a l -> In b l -> key a = key b -> a = b.
Proof.
  unfold keys_distinct. induction l as [|x r IH]; intros H Ha Hb E; [destruct Ha|]. inversion H as [|? ? Hn Hr]; subst.
  destruct Ha as [->|Ha], Hb as [->|Hb]; auto.
  - exfalso. apply Hn. apply in_map_iff. exists b. auto.
  - exfalso. apply Hn. apply in_map_iff. exists a. auto.
Qed.

Lemma caches_none_keys i : keys_distinct (caches i None).
Proof.
  unfold caches. pose proof (final_cluster_keys i) as K. pose proof (scopes_nodup i) as ND.
  assert (G : forall sc, NoDup sc -> (forall s, In s sc -> In s (scopes i)) ->
              keys_distinct (flat_map (fun s => filter (in_scope s) (final_cluster i) ++ []) sc)).
  { induction sc as [|s r IH]; intros Hn Hsub; [constructor|]. simpl. inversion Hn as [|? ? Hs Hr]; subst.
    unfold keys_distinct. rewrite map_app. apply nodup_app_intro.
    - rewrite app_nil_r. now apply filter_keys_distinct.
    - apply IH; [exact Hr | intros s' H'; apply Hsub; now right].
    - intros k Hk Hk'. rewrite app_nil_r in Hk.
      apply in_map_iff in Hk as [a [Ka Ha]]. apply in_map_iff in Hk' as [b [Kb Hb]].
      apply filter_In in Ha as [Ha Ia]. apply in_flat_map in Hb as [s' [Hs' Hb]]. rewrite app_nil_r in Hb.
      apply filter_In in Hb as [Hb Ib].
      assert (a = b) by (apply (key_inj_in _ a b K); congruence). subst b.
      assert (s = s') by (apply (scope_unique i a); auto; apply Hsub; [now left | now right]).
      subst s'. contradiction. }
  apply G; auto.
Qed.

(* Without a ghost (a delete delivered between an informer's initial list and its start),
   the snapshot is, for every configuration of static namespaces and names (repeated
   entries included) and every history, exactly the matching objects of the cluster, each
   once, ordered by namespace and name — also for a monitor started from scratch (restart). *)
Theorem snapshot_is_matching i : si_ghost i = None ->
  P_snap i (snapshot i) (snapshot_after_restart i) false = true.
Proof.
  intros HG. unfold P_snap, snapshot, snapshot_after_restart. rewrite HG. cbn [negb andb].
  assert (L : P_snap_list i (sort_objs (caches i None)) = true).
  { unfold P_snap_list. rewrite (sort_objs_sorted _ (caches_none_keys i)). cbn [andb].
    apply andb_true_iff. split.
    - apply forallb_forall. intros o Ho. apply (Permutation_in _ (sort_objs_perm _)) in Ho.
      apply caches_none_in in Ho as [H1 H2]. rewrite H2. cbn [andb]. now apply mem_obj_in.
    - apply forallb_forall. intros o Ho. destruct (matching i o) eqn:M; [|reflexivity].
      apply mem_obj_in. apply (Permutation_in _ (Permutation_sym (sort_objs_perm _))). apply caches_none_in. auto. }
  rewrite L. destruct (si_restart i); reflexivity.
Qed.

(* a restart always cures the ghost *)
Theorem restart_snapshot_is_matching i : P_snap_list i (snapshot_after_restart i) = true.
Proof.
  pose proof (snapshot_is_matching (mkSnapIn (si_namespaces i) (si_names i) (si_initial i) (si_ops i) None true (si_filter i) (si_keep i)) eq_refl) as H.
  unfold P_snap in H. cbn [negb andb si_restart] in H. apply andb_true_iff in H as [_ H]. exact H.
Qed.

Theorem ghost_refuted : exists i, T_ghost i = true /\ P_snap i (snapshot i) (snapshot_after_restart i) false = false.
Proof.
  exists (mkSnapIn [] [] [(1, 1, 1)] [(OCreate, (1, 2, 1))] (Some (2, 2, 7)) false false true). split; vm_compute; reflexivity.
Qed.

(* ---- what the entries show ---- *)
Lemma optN_eqb_refl a : optN_eqb a a = true.
Proof. destruct a; simpl; [apply N.eqb_refl | reflexivity]. Qed.
Lemma view_eqb_refl v : view_eqb v v = true.
Proof. destruct v as [[[a b] c] d]. simpl. now rewrite !N.eqb_refl, !optN_eqb_refl. Qed.

Lemma shown_expected i o : shown i o = expected_view i o.
Proof. reflexivity. Qed.

Lemma v_key_shown i a b : v_key_ltb (shown i a) (shown i b) = key_ltb a b.
Proof. reflexivity. Qed.

Lemma v_sorted_map i l : v_strictly_sorted (map (shown i) l) = strictly_sorted l.
Proof.
  induction l as [|x r IH]; [reflexivity|]. destruct r as [|y r']; [reflexivity|].
  change (map (shown i) (x :: y :: r')) with (shown i x :: shown i y :: map (shown i) r').
  cbn [v_strictly_sorted strictly_sorted]. rewrite v_key_shown. f_equal. exact IH.
Qed.

(* the list-level statement carries over to what the entries show, whatever the binding's
   jqFilter / keepFullObjectsInMemory: an entry shows the CURRENT object of the cluster *)
Lemma view_of_matching i l : P_snap_list i l = true -> P_view_list i (map (shown i) l) = true.
Proof.
  unfold P_snap_list, P_view_list. intros H. apply andb_true_iff in H as [H H3]. apply andb_true_iff in H as [H1 H2].
  rewrite v_sorted_map, H1. cbn [andb]. apply andb_true_iff. split.
  - apply forallb_forall. intros v Hv. apply in_map_iff in Hv as [o [<- Ho]].
    rewrite forallb_forall in H2. specialize (H2 o Ho). apply andb_true_iff in H2 as [M Hin].
    apply existsb_exists. exists o. split; [now apply mem_obj_in|]. rewrite M. cbn [andb]. apply view_eqb_refl.
  - apply forallb_forall. intros o Ho. rewrite forallb_forall in H3. specialize (H3 o Ho).
    destruct (matching i o); [|reflexivity]. apply mem_obj_in in H3.
    unfold mem_view. apply existsb_exists. exists (shown i o). split; [now apply in_map|]. apply view_eqb_refl.
Qed.

Theorem view_is_matching i : si_ghost i = None ->
  P_view i (snapshot_view i) (restart_view i) false = true.
Proof.
  intros HG. pose proof (snapshot_is_matching i HG) as H. unfold P_snap in H. cbn [negb andb] in H.
  apply andb_true_iff in H as [H1 H2]. unfold P_view, snapshot_view, restart_view. cbn [negb andb].
  rewrite (view_of_matching i _ H1). cbn [andb]. destruct (si_restart i); [|reflexivity]. now apply view_of_matching.
Qed.

(* a change that touches nothing the filter selects is shown all the same *)
Example view_outside_filter :
  snapshot_view (mkSnapIn [] [] [(1, 1, 13)] [(OModify, (1, 1, 23))] None false true true) = [(1, 1, Some 3, Some 23)].
Proof. vm_compute. reflexivity. Qed.

Theorem group_refuted : T_grp false = true /\ (let (k, o) := grp false in P_grp k o false) = false
                        /\ (let (k, o) := grp true in P_grp k o false) = true.
Proof. vm_compute. repeat split. Qed.
