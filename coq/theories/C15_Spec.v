(* C15_Spec.v — property C15 as decidable predicates over observations, written from the
   property text only:

     "For every set of declared conversion rules, a request to convert from version A to
      version B is served by a sequence of declared rules that starts at A, ends at B and in
      which every step starts where the previous one ended (a version written with or
      without its group counting as the same version) whenever such a sequence exists, and
      fails otherwise.  The hooks are invoked in chain order, each receiving the previous
      output; the answer is Success with as many objects as were requested only if every
      step succeeded, otherwise it is Failed - with the failing hook's own message when it
      gave one - and no later step is run."

   Only the data types (version, rule, obj, outcome, review, invocation) are shared with
   the model; none of its functions is used here.

   A hook's outcome OResp msg objs carries the failedMessage the hook wrote as a byte string
   ([] = it gave none); the answer is the ConversionReview's result: RSuccess objs, or
   RFailure message with the bytes of result.message.  "The failing hook's own message" is
   read literally: the same bytes, nothing added, removed or rewritten. *)
From Verif Require Import Common C15_Model.

(* ---------------------------------------------------------------- part 1: the chain *)

(* "a version written with or without its group counting as the same version":
   same short name, and the groups agree when both are written. *)
Definition same_version (a b : version) : bool :=
  N.eqb (snd a) (snd b) &&
  match fst a, fst b with
  | Some g, Some h => N.eqb g h
  | _, _ => true
  end.

Definition declared (rules : list rule) (r : rule) : bool := existsb (rule_eqb r) rules.

(* every step starts where the previous one ended; the first starts at [cur], the last ends at B *)
Fixpoint linked (cur : version) (chain : list rule) (B : version) : bool :=
  match chain with
  | [] => same_version cur B
  | r :: rest => same_version cur (fst r) && linked (snd r) rest B
  end.

Definition valid_chain (rules : list rule) (A B : version) (chain : list rule) : bool :=
  match chain with [] => false | _ => true end
  && forallb (declared rules) chain
  && linked A chain B.

(* versions reached from the set S by one declared rule *)
Definition step_from (rules : list rule) (S : list version) : list version :=
  map snd (filter (fun r => existsb (fun v => same_version v (fst r)) S) rules).

Fixpoint closure (n : nat) (rules : list rule) (S : list version) : list version :=
  match n with
  | O => S
  | S n' => closure n' rules (S ++ step_from rules S)
  end.

(* B is reached from A by at least one declared rule (C15_reachable_iff_chain: exactly
   when some valid chain exists; |rules| rounds saturate the closure) *)
Definition reachable (rules : list rule) (A B : version) : bool :=
  existsb (fun v => same_version v B) (closure (length rules) rules (step_from rules [A])).

(* Domain of the statement: one CRD has one group, so every version that is written with a
   group carries the same one (otherwise "the same version" is not an equivalence), and
   A and B are different versions (a conversion request never asks for the version the
   object already has). *)
Definition groups_of (vs : list version) : list N :=
  flat_map (fun v => match fst v with Some g => [g] | None => [] end) vs.
Definition one_group (vs : list version) : bool :=
  match groups_of vs with
  | [] => true
  | g :: gs => forallb (N.eqb g) gs
  end.
Definition versions_of (rules : list rule) : list version := flat_map (fun r => [fst r; snd r]) rules.
Definition in_domain (rules : list rule) (A B : version) : bool :=
  one_group (A :: B :: versions_of rules) && negb (N.eqb (snd A) (snd B)).

(* the answer of one search, judged *)
Definition P_search (rules : list rule) (A B : version) (ans : option (list rule)) : bool :=
  if in_domain rules A B then
    match ans with
    | Some chain => valid_chain rules A B chain
    | None => negb (reachable rules A B)
    end
  else true.

(* a sequence of searches, each judged *)
Fixpoint all_P_search (rules : list rule) (qs : list rule) (answers : list (option (list rule))) : bool :=
  match qs, answers with
  | [], [] => true
  | q :: qs', a :: as' => P_search rules (fst q) (snd q) a && all_P_search rules qs' as'
  | _, _ => false
  end.

(* ---------------------------------------------------------------- part 2: applying it *)

Definition ok_out (o : outcome) : option (list obj) :=
  match o with OResp [] objs => Some objs | _ => None end.
Definition is_ok (o : outcome) : bool := match ok_out o with Some _ => true | None => false end.

Definition obj_eqb (a b : obj) : bool := N.eqb (fst a) (fst b) && version_eqb (snd a) (snd b).
Definition objs_eqb : list obj -> list obj -> bool := list_eqb obj_eqb.

(* the objects are all at the desired version (what Kubernetes requires of the answer) *)
Definition all_at (desired : version) (objs : list obj) : bool :=
  match objs with [] => false | _ => forallb (fun o => version_eqb (snd o) desired) objs end.

(* hooks are invoked in chain order: the invoked rules are a prefix of the chain *)
Definition in_order (chain : list rule) (trace : list invocation) : bool :=
  list_eqb rule_eqb (map fst trace) (firstn (length trace) chain).

(* each receives the previous output; and a step runs only if every earlier one succeeded *)
Fixpoint feeds (cur : list obj) (outs : list outcome) (trace : list invocation) : bool :=
  match trace with
  | [] => true
  | (_, input) :: rest =>
    objs_eqb input cur &&
    match rest with
    | [] => true
    | _ => match ok_out (hd OExitFail outs) with
           | Some objs' => feeds objs' (tl outs) rest
           | None => false                              (* a later step ran after a failure *)
           end
    end
  end.

Definition last_out (outs : list outcome) (trace : list invocation) : outcome :=
  nth (length trace - 1) outs OExitFail.

(* the answer, given what the invoked steps did *)
Definition verdict_ok (desired : version) (chain : list rule) (outs : list outcome) (req : list obj)
           (trace : list invocation) (ans : review) : bool :=
  match trace with
  | [] =>
    (* nothing ran: no chain or nothing to convert; never a Success *)
    match ans with RFailure _ => match chain, req with [], _ | _, [] => true | _, _ => false end | RSuccess _ => false end
  | _ =>
    match last_out outs trace with
    | OResp [] objs =>                                   (* every invoked step succeeded *)
      match ans with
      | RSuccess res =>
        objs_eqb res objs && N.eqb (N.of_nat (length res)) (N.of_nat (length req)) && all_at desired res
      | RFailure _ =>
        (* allowed only if the conversion is not complete: wrong count, not at the desired
           version, or ... the chain is exhausted without reaching it *)
        negb (all_at desired objs && N.eqb (N.of_nat (length objs)) (N.of_nat (length req)))
      end
    | OResp m _ =>                                       (* the failing hook's own message, byte for byte *)
      match ans with RFailure message => bytes_eqb message m | RSuccess _ => false end
    | _ => match ans with RFailure _ => true | RSuccess _ => false end
    end
  end.

(* "served ... whenever such a sequence exists": the chain is not abandoned while its steps
   succeed — if the last invoked step succeeded without producing objects at the desired
   version, it was the last rule of the chain.  (Stopping early because the objects already
   are at the desired version is permitted, not demanded: the text is silent on it.) *)
Definition runs_to_end (desired : version) (chain : list rule) (outs : list outcome)
           (trace : list invocation) : bool :=
  match trace with
  | [] => true
  | _ => match last_out outs trace with
         | OResp [] objs => all_at desired objs || Nat.eqb (length trace) (length chain)
         | _ => true
         end
  end.

Definition P_handler (desired : version) (chain : list rule) (outs : list outcome) (req : list obj)
           (trace : list invocation) (ans : review) : bool :=
  in_order chain trace
  && feeds req outs trace
  && runs_to_end desired chain outs trace
  && verdict_ok desired chain outs req trace ans
  && (match chain, req with _ :: _, _ :: _ => nonempty trace | _, _ => true end).

(* ---------------------------------------------------------------- part 3: several requests, hooks with settings

   The text speaks of "a request": every request is judged on its own, whatever was asked
   before it and however the hooks are configured - a hook's execution-rate settings
   (settings.executionMinInterval / executionBurst) are not mentioned by the text, so they
   give no licence to skip a step or to fail a request: nothing is added to P_handler and
   nothing is taken away.  (How LONG a step is held back is the business of the rate
   limit, property C18, not of this one.)

   Domain: the configuration allows the hook to be executed at all.  HOOKS.md:
   "executionBurst: a number of allowed executions during a period"; a negative number
   together with a positive interval allows none - such a hook is never executed for any
   of its bindings, conversion included, and "its hook is invoked" cannot be demanded.
   Interval <= 0 means no limit; burst 0 means the default (1). *)
Definition runnable (s : option hsettings) : bool :=
  match s with
  | None => true
  | Some (interval, burst) => (interval <=? 0)%Z || (0 <=? burst)%Z
  end.
Definition settings_in_domain (hsets : list (option hsettings)) : bool := forallb runnable hsets.

(* the requests of a session (C15_Model.squery) with what was observed for each: every one judged *)
Fixpoint all_P_session (qs : list squery) (res : list (list invocation * review)) : bool :=
  match qs, res with
  | [], [] => true
  | (_, desired, chain, outs, req) :: qs', (t, a) :: res' =>
    P_handler desired chain outs req t a && all_P_session qs' res'
  | _, _ => false
  end.
