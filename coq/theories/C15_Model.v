(* C15_Model.v — executable model of the conversion-chain code of flant/shell-operator
   AS REPAIRED by the fixes F4a (copy before append), F4b (NextRules uses VersionsMatched),
   F4c (a hook's failedMessage stops the chain and is relayed), F4d (the requested object
   count is remembered before request.Objects is overwritten).  NO proofs in this file.

   Part 1: pkg/webhook/conversion/chain.go   (ChainStorage / Chain / FindConversionChain)
   Part 2: pkg/shell-operator/operator.go conversionEventHandler
           + pkg/webhook/conversion/handler.go handleReviewRequest / errored
   Part 3: the same two functions layer by layer with the TEXT of every message: what
           conversionEventHandler returns (a conversion.Response or an error), what
           handleReviewRequest / errored / serveReviewRequest make of it (result.status and
           result.message of the ConversionReview).  Messages are byte strings.

   Encoding.  A version string is "short" or "group/short" (no other '/'): it is the pair
   (option group, short) of dense numbers chosen by the harness, so that Go's string
   equality is structural equality here.  Go maps are modelled by association lists in
   insertion order; every theorem about the search is proved from order-independent
   facts (which valid chain is returned is NOT determined in Go either). *)
From Coq Require Import String Ascii.
From Verif Require Import Common.

(* ------------------------------------------------------------------ versions, rules *)

Definition version := (option N * N)%type.          (* (group, short) *)
Definition rule := (version * version)%type.        (* (FromVersion, ToVersion) *)

Definition short (v : version) : N := snd v.        (* string_helper.TrimGroup *)
Definition r_from (r : rule) : version := fst r.
Definition r_to (r : rule) : version := snd r.

Definition version_eqb (a b : version) : bool :=
  option_eqb N.eqb (fst a) (fst b) && N.eqb (snd a) (snd b).
Definition rule_eqb (a b : rule) : bool :=
  version_eqb (fst a) (fst b) && version_eqb (snd a) (snd b).

(* chain.go:239 VersionsMatched: equal strings, or one of them is short and equals the
   other's short part.  Two full versions with different groups do not match. *)
Definition vmatch (v0 v1 : version) : bool :=
  match fst v0, fst v1 with
  | Some g0, Some g1 => N.eqb g0 g1 && N.eqb (snd v0) (snd v1)
  | _, _ => N.eqb (snd v0) (snd v1)
  end.

Definition is_full (v : version) : bool :=
  match fst v with Some _ => true | None => false end.

(* ------------------------------------------------------------------ Chain: PathsCache *)

Definition cache := list (rule * list rule).        (* PathsCache map[Rule][]Rule *)

Fixpoint cache_get (c : cache) (k : rule) : option (list rule) :=
  match c with
  | [] => None
  | (k', p) :: c' => if rule_eqb k' k then Some p else cache_get c' k
  end.

(* m[k] = p : replace the value of an existing key, else a new entry *)
Fixpoint cache_put (c : cache) (k : rule) (p : list rule) : cache :=
  match c with
  | [] => [(k, p)]
  | (k', p') :: c' => if rule_eqb k' k then (k', p) :: c' else (k', p') :: cache_put c' k p
  end.

Definition cache_keys (c : cache) : list rule := map fst c.

(* c.PathsCache[k] of a key that may be absent: nil *)
Definition cache_path (c : cache) (k : rule) : list rule :=
  match cache_get c k with Some p => p | None => [] end.

(* Chain.Put for every declared rule (hook_manager.go UpdateConversionChains): the rule
   is its own base path.  BaseFromToIndex holds exactly the set of declared rules, so the
   model keeps the list [rules] itself as the index. *)
Definition base_cache (rules : list rule) : cache :=
  fold_left (fun c r => cache_put c r [r]) rules [].

(* chain.go:223 HasTargetVersion *)
Definition has_target (rules : list rule) (target : version) : bool :=
  existsb (fun r => vmatch target (r_to r)) rules.

(* chain.go:192 NextRules, REPAIRED (F4b): base rules whose FromVersion equals fromVer or
   matches it by VersionsMatched (was: strings.Index(k, TrimGroup(fromVer)) != -1).
   The Go index is a set; a rule declared twice is listed twice here, which only repeats
   an identical (key, path) candidate. *)
Definition next_rules (rules : list rule) (fromVer : version) : list rule :=
  filter (fun r => version_eqb (r_from r) fromVer || vmatch (r_from r) fromVer) rules.

(* chain.go:181 RulesWithSimilarFromVersion *)
Definition similar_from (c : cache) (q : rule) : list rule :=
  filter (fun k => vmatch (r_from k) (r_from q)) (cache_keys c).

Definition key_matches (q k : rule) : bool :=
  vmatch (r_to q) (r_to k) && vmatch (r_from q) (r_from k).

(* chain.go:146-177: which of several similar cached keys is preferred *)
Definition pick_key (q : rule) (pathKeys : list rule) (k0 : rule) : rule :=
  let fromM := fun k => is_full (r_from q) && version_eqb (r_from k) (r_from q) in
  let toM := fun k => is_full (r_to q) && version_eqb (r_to k) (r_to q) in
  match filter (fun k => fromM k && toM k) pathKeys with
  | k :: _ => k                                              (* cc == 2 *)
  | [] =>
    match filter toM pathKeys with
    | k :: _ => k                                            (* toMatches[0] *)
    | [] =>
      match filter fromM pathKeys with
      | k :: _ => k                                          (* fromMatches[0] *)
      | [] => k0                                             (* fallback pathKeys[0] *)
      end
    end
  end.

(* chain.go:117 SearchPathForRule.  [] stands for nil. *)
Definition search (c : cache) (q : rule) : list rule :=
  match cache_get c q with
  | Some p => p                                              (* exact match *)
  | None =>
    let pathKeys := filter (key_matches q) (cache_keys c) in
    match pathKeys with
    | [] => []
    | [k] => cache_path c k
    | k0 :: _ => cache_path c (pick_key q pathKeys k0)
    end
  end.

Definition nonempty {A} (l : list A) : bool := match l with [] => false | _ => true end.

(* chain.go:67-100: one round of path extension; the result is the map newPaths *)
Definition extend_one (rules : list rule) (c : cache) (q : rule) (ruleToCheck : rule) (news : cache) : cache :=
  if N.eqb (short (r_to ruleToCheck)) (short (r_from q)) then news        (* ignore loops *)
  else
    fold_left (fun news nextRule =>
      let newRule := (r_from q, r_to nextRule) in
      if N.eqb (short (r_to newRule)) (short (r_from q)) then news        (* ignore loops *)
      else
        (* REPAIRED (F4a): the cached path is copied, so the new path is a fresh list *)
        let newPath := cache_path c ruleToCheck ++ [nextRule] in
        if nonempty (search c newRule) then news                          (* already discovered *)
        else cache_put news newRule newPath)
      (next_rules rules (r_to ruleToCheck)) news.

Definition new_paths (rules : list rule) (c : cache) (q : rule) : cache :=
  fold_left (fun news ruleToCheck => extend_one rules c q ruleToCheck news) (similar_from c q) [].

Definition merge (c news : cache) : cache :=
  fold_left (fun c kp => cache_put c (fst kp) (snd kp)) news c.

(* the for{} loop of FindConversionChain with explicit fuel.  Fuel exhaustion answers
   "not found" like the natural exit does; C15_find_complete shows that the default fuel
   is enough whenever a chain exists, and by C15_find_sound no iteration, however late,
   can return anything but a valid chain — so for unreachable targets both exits agree. *)
Fixpoint find_loop (fuel : nat) (rules : list rule) (c : cache) (q : rule) : cache * option (list rule) :=
  match fuel with
  | O => (c, None)
  | S n =>
    let p := search c q in
    if nonempty p then (c, Some p)
    else
      let news := new_paths rules c q in
      match news with
      | [] => (c, None)                                     (* no new paths are discovered *)
      | _ => find_loop n rules (merge c news) q
      end
  end.

Definition default_fuel (rules : list rule) : nat := S (length rules).

(* FindConversionChain for one CRD whose declared rules are [rules]; the cache is the
   state of that CRD's Chain (initially base_cache rules).  No rule at all = the CRD is
   unknown to the ChainStorage = nil. *)
Definition find (rules : list rule) (c : cache) (q : rule) : cache * option (list rule) :=
  if has_target rules (r_to q) then find_loop (default_fuel rules) rules c q else (c, None).

(* a sequence of queries on one shared ChainStorage / on a fresh one per query *)
Fixpoint find_shared (rules : list rule) (c : cache) (qs : list rule) : list (option (list rule)) :=
  match qs with
  | [] => []
  | q :: qs' => let '(c', a) := find rules c q in a :: find_shared rules c' qs'
  end.

Definition find_fresh (rules : list rule) (qs : list rule) : list (option (list rule)) :=
  map (fun q => snd (find rules (base_cache rules) q)) qs.

(* ------------------------------------------------------------------ the handler *)

Definition obj := (N * version)%type.               (* (identity, apiVersion) *)

(* what one hook execution produced *)
Inductive outcome :=
| OExitFail                                         (* non-zero exit: taskHandler answers Fail *)
| OBadResponse                                      (* unparsable response file: Run fails: Fail *)
| ONoResponse                                       (* exit 0, empty response file: no task prop *)
| OResp (msg : bytes) (objs : list obj).            (* Response.FailedMessage as decoded from the response
                                                       file ([] = "", i.e. none given) and ConvertedObjects *)

Inductive fmsg :=
| MHook (m : bytes)                                 (* the hook's own failedMessage, its bytes *)
| MHookFailed                                       (* "Hook failed to convert to ..." *)
| MPropError                                        (* "hook task prop error" *)
| MNotSuccessful                                    (* "Conversion to ... was not successuful" *)
| MCount (got want : N)                             (* "hook returned %d objects instead of %d" *)
| MOther.                                           (* any other text; never produced by the model *)

Inductive answer := Success (objs : list obj) | Failed (m : fmsg).

Definition invocation := (rule * list obj)%type.    (* which rule's hook ran, on which objects *)

(* handler.go:124 ExtractAPIVersions: distinct apiVersions in order of first appearance *)
Fixpoint extract_from (seen : list version) (objs : list obj) : list version :=
  match objs with
  | [] => []
  | o :: r => if existsb (version_eqb (snd o)) seen then extract_from seen r
              else snd o :: extract_from (snd o :: seen) r
  end.
Definition extract (objs : list obj) : list version := extract_from [] objs.

(* operator.go:392 *)
Definition is_done (desired : version) (objs : list obj) : bool :=
  match extract objs with
  | [v] => version_eqb v desired
  | _ => false
  end.

Inductive stop := StFailed (m : fmsg) | StDone (objs : list obj) | StNotDone.

(* operator.go:348-397, the loop over the rules of the chain; outs = outcome of the 1st,
   2nd, ... hook execution of this request (a missing one counts as a failed run) *)
Fixpoint steps (desired : version) (chain : list rule) (outs : list outcome) (objs : list obj)
  : list invocation * stop :=
  match chain with
  | [] => ([], StNotDone)
  | r :: rest =>
    match hd OExitFail outs with
    | OExitFail | OBadResponse => ([(r, objs)], StFailed MHookFailed)
    | ONoResponse => ([(r, objs)], StFailed MPropError)
    | OResp (c :: m) _ => ([(r, objs)], StFailed (MHook (c :: m)))   (* REPAIRED (F4c): FailedMessage != "" *)
    | OResp [] objs' =>
      if is_done desired objs' then ([(r, objs)], StDone objs')
      else let '(t, s) := steps desired rest (tl outs) objs' in ((r, objs) :: t, s)
    end
  end.

(* conversionEventHandler + handleReviewRequest + errored, for a request whose objects
   share one source version (the property's domain).  [chain] is what FindConversionChain
   returned for (source version, desired), [] if nothing.  REPAIRED (F4d): the count is
   compared with the number of objects requested. *)
Definition convert (desired : version) (chain : list rule) (outs : list outcome) (req : list obj)
  : list invocation * answer :=
  match extract req with
  | [] => ([], Failed MNotSuccessful)
  | _ =>
    match steps desired chain outs req with
    | (t, StFailed m) => (t, Failed m)
    | (t, StNotDone) => (t, Failed MNotSuccessful)
    | (t, StDone objs) =>
      if N.eqb (N.of_nat (length req)) (N.of_nat (length objs)) then (t, Success objs)
      else (t, Failed (MCount (N.of_nat (length objs)) (N.of_nat (length req))))
    end
  end.

(* ------------------------------------------------------------------ part 3: the texts *)

(* an ASCII literal as bytes *)
Definition str (s : string) : bytes := map N_of_ascii (list_ascii_of_string s).

Fixpoint uint_bytes (d : Decimal.uint) : bytes :=
  match d with
  | Decimal.Nil => []
  | Decimal.D0 r => 48 :: uint_bytes r | Decimal.D1 r => 49 :: uint_bytes r
  | Decimal.D2 r => 50 :: uint_bytes r | Decimal.D3 r => 51 :: uint_bytes r
  | Decimal.D4 r => 52 :: uint_bytes r | Decimal.D5 r => 53 :: uint_bytes r
  | Decimal.D6 r => 54 :: uint_bytes r | Decimal.D7 r => 55 :: uint_bytes r
  | Decimal.D8 r => 56 :: uint_bytes r | Decimal.D9 r => 57 :: uint_bytes r
  end%N.
Definition dec_text (n : N) : bytes := uint_bytes (N.to_uint n).      (* fmt verb %d of a count *)

(* The text of each message.  [dtext] is request.DesiredAPIVersion exactly as the request
   spells it (fmt verb %s of a string copies its bytes).  The hook's message is NOT a format:
   it is copied. *)
Definition msg_text (dtext : bytes) (m : fmsg) : bytes :=
  match m with
  | MHook m => m
  | MHookFailed => str "Hook failed to convert to " ++ dtext                       (* operator.go:370 *)
  | MPropError => str "hook task prop error"                                       (* operator.go:382 *)
  | MNotSuccessful => str "Conversion to " ++ dtext ++ str " was not successuful"  (* operator.go:410 *)
  | MCount got want =>                                                             (* handler.go:110 *)
    str "hook returned " ++ dec_text got ++ str " objects instead of " ++ dec_text want
  | MOther => []
  end.

(* what conversionEventHandler returns: a conversion.Response or an error *)
Inductive op_result :=
| OpResponse (failedMessage : bytes) (objs : list obj)
| OpError (text : bytes).

(* operator.go:321-413 once more, now with the values it returns *)
Definition event_handler (dtext : bytes) (desired : version) (chain : list rule) (outs : list outcome)
           (req : list obj) : list invocation * op_result :=
  match extract req with
  | [] => ([], OpResponse (msg_text dtext MNotSuccessful) [])       (* no source version: the loop body never runs *)
  | _ =>
    match steps desired chain outs req with
    | (t, StFailed MPropError) => (t, OpError (msg_text dtext MPropError))          (* return nil, fmt.Errorf(...) *)
    | (t, StFailed m) => (t, OpResponse (msg_text dtext m) [])      (* &Response{FailedMessage: ...}: generic text, or
                                                                       response.FailedMessage itself (F4c) *)
    | (t, StDone objs) => (t, OpResponse [] objs)                   (* &Response{ConvertedObjects: request.Objects} *)
    | (t, StNotDone) => (t, OpResponse (msg_text dtext MNotSuccessful) [])
    end
  end.

(* the ConversionReview answer: result.status and, for Failure, result.message *)
Inductive review := RSuccess (objs : list obj) | RFailure (message : bytes).

(* handler.go:92-117 handleReviewRequest, :143 errored, :69-74 serveReviewRequest.
   errors.New(FailedMessage).Error() is FailedMessage, byte for byte; err.Error() of the
   handler's own error is its text.  [requested] = len(request.Objects) before the event
   handler ran (F4d). *)
Definition handle_review (requested : nat) (r : op_result) : review :=
  match r with
  | OpError text => RFailure text
  | OpResponse (c :: m) _ => RFailure (c :: m)
  | OpResponse [] objs =>
    if N.eqb (N.of_nat requested) (N.of_nat (length objs)) then RSuccess objs
    else RFailure (msg_text [] (MCount (N.of_nat (length objs)) (N.of_nat requested)))
  end.

(* one ConversionReview served *)
Definition serve (dtext : bytes) (desired : version) (chain : list rule) (outs : list outcome) (req : list obj)
  : list invocation * review :=
  let '(t, r) := event_handler dtext desired chain outs req in (t, handle_review (length req) r).

(* the abstract answer of [convert], written out *)
Definition respond (dtext : bytes) (a : answer) : review :=
  match a with
  | Success objs => RSuccess objs
  | Failed m => RFailure (msg_text dtext m)
  end.

(* ------------------------------------------------------------------ part 4: hooks with `settings`

   A conversion hook is an ordinary hook: its configuration may carry
     settings: { executionMinInterval: <duration>, executionBurst: <int> }
   and conversionEventHandler runs every step of the chain through the generic task handler
   (op.taskHandler -> taskHandleHookRun), whose FIRST action is
     err := taskHook.RateLimitWait(context.Background());  if err != nil { return Status "Repeat" }
   The conversion task is NOT queued: nobody repeats it.  conversionEventHandler special-cases
   only Status "Fail"; after any other status it reads the task prop "conversionResponse" - a task
   whose hook was not executed has none ("hook task prop error").
   So the answer depends on the limiter only through the ERROR of Wait; a Wait that merely
   sleeps delays the step.  This part models the limiter (golang.org/x/time/rate v0.11.0, as
   C18_Model does; local copy so that C15 does not move when C18 does), the hook-run task and
   the handler loop over a set of hooks that own the rules, for a SEQUENCE of requests served
   by one operator (the limiters are state that survives a request).

   Time: [clock] lists what time.Now() reads at the 1st, 2nd, ... Wait call (ns; a missing reading
   counts as 0).  Nothing is assumed about the clock (C15_Proofs: the trace and the answer do
   not depend on it, nor on the limiter's tokens).  The sleep itself is the runtime's timer and is
   not modelled: Wait(context.Background()) returns nil at timeToAct. *)

(* htypes.Settings after CheckAndConvertSettings: (ExecutionMinInterval in ns, ExecutionBurst) *)
Definition hsettings := (Z * Z)%type.

Definition max_duration : Z := 9223372036854775807%Z.     (* math.MaxInt64 *)

(* rate.Limiter.  limit: None = rate.Inf, Some I = one event every I ns (I > 0);
   tokens are scaled by I (meaningless when the limit is Inf); last: None = zero time.Time *)
Record bucket := mkBucket { b_limit : option Z; b_burst : Z; b_tokens : Z; b_last : option Z }.

(* rate.Every *)
Definition every (interval : Z) : option Z := if (interval <=? 0)%Z then None else Some interval.

(* rate.NewLimiter(r, b): tokens = float64(b) *)
Definition new_limiter (r : option Z) (b : Z) : bucket :=
  mkBucket r b (b * match r with Some i => i | None => 1 end)%Z None.

(* hook.go:330 CreateRateLimiter:
     limit := rate.Inf; burst := 1
     if cfg.Settings != nil {
       if ExecutionMinInterval != 0 { limit = rate.Every(ExecutionMinInterval) }
       if ExecutionBurst != 0       { burst = ExecutionBurst } }
     return rate.NewLimiter(limit, burst) *)
Definition create_rate_limiter (cfg : option hsettings) : bucket :=
  match cfg with
  | None => new_limiter None 1
  | Some (interval, burst) =>
    new_limiter (if (interval =? 0)%Z then None else every interval) (if (burst =? 0)%Z then 1%Z else burst)
  end.

(* Limiter.advance(t) for a finite limit with interval I:
     last := lim.last; if t.Before(last) { last = t }
     tokens := lim.tokens + tokensFromDuration(t.Sub(last)); if tokens > burst { tokens = burst } *)
Definition advance (I : Z) (b : bucket) (t : Z) : Z :=
  let elapsed := match b_last b with
                 | None => max_duration
                 | Some l => (t - Z.min l t)%Z
                 end in
  Z.min (b_tokens b + elapsed) (b_burst b * I).

(* hook.go:87 RateLimitWait(context.Background()) = Limiter.Wait = wait(ctx, 1, time.Now(), ...),
   the clock reading t:
     if n > burst && limit != Inf { return error }                 (rate.go:259)
     ctx.Done() never fires, ctx has no deadline: waitLimit = InfDuration
     r := reserveN(t, 1, InfDuration)
        limit == Inf: ok, timeToAct = t, state untouched
        else tokens := advance(t) - 1; waitDuration := -tokens if negative;
             ok := 1 <= burst && waitDuration <= InfDuration; state updated when ok
     if !r.ok { return error };  sleep r.DelayFrom(t);  return nil
   Result: the new state and Some timeToAct (nil was returned, at that instant) / None (error). *)
Definition rate_limit_wait (b : bucket) (t : Z) : bucket * option Z :=
  match b_limit b with
  | None => (b, Some t)
  | Some iv =>
    if (1 <=? b_burst b)%Z then
      let tokens := (advance iv b t - iv)%Z in
      (mkBucket (b_limit b) (b_burst b) tokens (Some t), Some (t + Z.max 0 (- tokens))%Z)
    else (b, None)
  end.

(* queue.TaskResult.Status of the hook-run task *)
Inductive tstatus := TSuccess | TFail | TRepeat.

(* operator.go taskHandleHookRun + handleRunHook for a Conversion task (AllowFailure is false
   for conversion bindings): the limiter after the call, whether the hook was executed, the
   status, and the task prop "conversionResponse" (set by handleRunHook only when the hook run
   succeeded and its response file was not empty). *)
Definition hook_run_task (b : bucket) (now : Z) (o : outcome)
  : bucket * bool * tstatus * option (bytes * list obj) :=
  match rate_limit_wait b now with
  | (b', None) => (b', false, TRepeat, None)             (* the hook is NOT executed *)
  | (b', Some _) =>
    match o with
    | OExitFail | OBadResponse => (b', true, TFail, None)
    | ONoResponse => (b', true, TSuccess, None)
    | OResp m objs => (b', true, TSuccess, Some (m, objs))
    end
  end.

(* which hook registered a rule: [owners] runs parallel to the declared rules (hook numbers,
   dense); an undeclared rule has no hook (never asked: chains consist of declared rules) *)
Fixpoint owner_of (rules : list rule) (owners : list N) (r : rule) : N :=
  match rules, owners with
  | r' :: rs, h :: hs => if rule_eqb r' r then h else owner_of rs hs r
  | _, _ => 0%N
  end.

(* the hooks' limiters, by hook number *)
Definition lim_get (lims : list bucket) (h : N) : bucket := nth (N.to_nat h) lims (new_limiter None 1).
Fixpoint lim_set_nat (lims : list bucket) (h : nat) (b : bucket) : list bucket :=
  match lims, h with
  | [], _ => []
  | _ :: r, O => b :: r
  | x :: r, S h' => x :: lim_set_nat r h' b
  end.
Definition lim_set (lims : list bucket) (h : N) (b : bucket) : list bucket := lim_set_nat lims (N.to_nat h) b.

(* the operator's state that a conversion request reads and writes: limiters and the clock *)
Definition lstate := (list bucket * list Z)%type.

(* operator.go:348-397 once more, every step through the task handler.  outs = outcome of the
   1st, 2nd, ... hook EXECUTION of this request. *)
Fixpoint steps_lim (rules : list rule) (owners : list N) (st : lstate) (desired : version)
         (chain : list rule) (outs : list outcome) (objs : list obj) : list invocation * stop * lstate :=
  match chain with
  | [] => ([], StNotDone, st)
  | r :: rest =>
    let h := owner_of rules owners r in
    let '(b', ran, status, prop) := hook_run_task (lim_get (fst st) h) (hd 0%Z (snd st)) (hd OExitFail outs) in
    let st' := (lim_set (fst st) h b', tl (snd st)) in
    let inv := if ran then [(r, objs)] else [] in
    match status with
    | TFail => (inv, StFailed MHookFailed, st')                       (* res.Status == "Fail" *)
    | TSuccess | TRepeat =>                                           (* any other status: the prop is read *)
      match prop with
      | None => (inv, StFailed MPropError, st')
      | Some (c :: m, _) => (inv, StFailed (MHook (c :: m)), st')
      | Some ([], objs') =>
        if is_done desired objs' then (inv, StDone objs', st')
        else let '(t, s, st'') := steps_lim rules owners st' desired rest (tl outs) objs' in (inv ++ t, s, st'')
      end
    end
  end.

(* conversionEventHandler + handleReviewRequest for one request, on the operator state [st] *)
Definition serve_lim (rules : list rule) (owners : list N) (st : lstate) (dtext : bytes) (desired : version)
           (chain : list rule) (outs : list outcome) (req : list obj) : list invocation * review * lstate :=
  match extract req with
  | [] => ([], handle_review (length req) (OpResponse (msg_text dtext MNotSuccessful) []), st)
  | _ =>
    let '(t, s, st') := steps_lim rules owners st desired chain outs req in
    let r := match s with
             | StFailed MPropError => OpError (msg_text dtext MPropError)
             | StFailed m => OpResponse (msg_text dtext m) []
             | StDone objs => OpResponse [] objs
             | StNotDone => OpResponse (msg_text dtext MNotSuccessful) []
             end in
    (t, handle_review (length req) r, st')
  end.

(* one request of a session: desiredAPIVersion as spelt, desired version, the chain
   FindConversionChain answered, the outcomes of the hook executions, the objects *)
Definition squery := (bytes * version * list rule * list outcome * list obj)%type.

(* the hooks' limiters when the operator has loaded the hooks (LoadConfig) *)
Definition initial_limiters (hsets : list (option hsettings)) : list bucket := map create_rate_limiter hsets.

(* a sequence of ConversionReviews served one after the other by one operator *)
Fixpoint serve_session (rules : list rule) (owners : list N) (st : lstate) (qs : list squery)
  : list (list invocation * review) :=
  match qs with
  | [] => []
  | (dtext, desired, chain, outs, req) :: qs' =>
    let '(t, a, st') := serve_lim rules owners st dtext desired chain outs req in
    (t, a) :: serve_session rules owners st' qs'
  end.
