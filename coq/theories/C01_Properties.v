(* C01_Properties.v — the property theorems of C01 (one informer of one kubernetes binding;
   a monitor is a finite product of informers, see C01_Monitor for the namespace-selector
   part) and nothing else.

   Full statement (every schedule, no hypothesis):
     Definition C01_full_statement := forall i, P i (k_of i) (obs_of (run i)) = true.
   It is FALSE of the faithful model and of the code: C01_refuted_F23 — a reader other than
   the binding's own Synchronization run (another binding's includeSnapshotsFrom in another
   queue, an admission hook, the debug endpoint) that reads the still-locked binding empties
   its buffer (recorded finding F23).  C01_no_loss_partial is the full statement outside
   that trigger.  Model = the code after the repairs c7c31b7 (R3) and 4541787 (R1).

   Further down: the monitor level (C01_Monitor: one namespace appearing against the unlock),
   the operator level (Op_Model / C01_OpSpec), the history level (C01_Hist: events of a
   namespace.labelSelector binding over histories of namespaces and objects), the form of the
   handler's argument (C01_Forms: a deletion found by a relist comes as a tombstone by value) and
   histories across watch outages (C01_Relist: the reflectors' relist, Events per object). *)
From Verif Require Import Common C01_Model C01_Spec C01_Corr C01_Proofs.
Open Scope N_scope.

Definition C01_full_statement : Prop := forall i, P i (k_of i) (obs_of (run i)) = true.

Theorem C01_no_loss_partial : forall i, T i = false -> P i (k_of i) (obs_of (run i)) = true.
Proof. exact no_loss. Qed.
Print Assumptions C01_no_loss_partial.

Theorem C01_refuted_F23 : exists i, T i = true /\ P i (k_of i) (obs_of (run i)) = false.
Proof.
  exists (mkIn [Added; Modified; Deleted] [mkCh 1 Added 1; mkCh 1 Modified 2; mkCh 2 Added 1]
               [StartW; StepW; StartS 0; StartW; StepW; StartS 1; E; StartW; StepW]).
  split; vm_compute; reflexivity.
Qed.
Print Assumptions C01_refuted_F23.

(* no Event of a binding is handed over before its unlock — every schedule, foreign readers included *)
Theorem C01_no_event_before_unlock : forall types ops s,
  (enabled s = false -> out s = []) ->
  enabled (exec types s ops) = false -> out (exec types s ops) = [].
Proof. exact no_event_before_unlock. Qed.
Print Assumptions C01_no_event_before_unlock.

(* the invariant behind C01_no_loss_partial, for every reachable state of a disciplined schedule *)
Theorem C01_invariant : forall types chs ops,
  disciplined types (init chs) ops ->
  Inv types chs (exec types (init chs) ops) (ghost_k types (init chs) ops 0).
Proof. intros. apply exec_inv; [apply init_inv | assumption]. Qed.
Print Assumptions C01_invariant.

(* non-vacuity: a schedule with a change in flight during the Synchronization read, a failed
   first Synchronization (second read), changes during the run and after the unlock *)
Example C01_hyp_met :
  let i := mkIn [Added; Modified; Deleted]
                [mkCh 1 Added 1; mkCh 1 Modified 2; mkCh 2 Added 1; mkCh 1 Deleted 2; mkCh 2 Modified 3]
                [StartW; StepW; StartW; StartS 0; StepW; StartW; StartS 0; StepW; E; StartW; StepW; StartW; StepW] in
  T i = false /\ k_of i = 3 /\ ob_out (obs_of (run i)) = [(2, Added, 1); (1, Deleted, 2); (2, Modified, 3)].
Proof. vm_compute. repeat split. Qed.

(* ---- monitor level (namespace.labelSelector): C01_Monitor ---- *)
From Verif Require Import C01_Monitor.

(* for EVERY interleaving of the namespace callback with the unlock, once both have finished
   no informer of the binding is left locked (after repair cba4b0e, R4) *)
Theorem C01_no_informer_left_locked : forall sched,
  let s := mrun sched in ienabled s = true /\ flag s = true /\ stored s = true.
Proof. exact no_informer_left_locked. Qed.
Print Assumptions C01_no_informer_left_locked.

(* the monitor-level predicate holds unless the namespace brings matching objects along ... *)
Theorem C01_monitor_partial : forall i, MT i = false -> MP i (mobserve i) = true.
Proof. exact monitor_P_partial. Qed.
Print Assumptions C01_monitor_partial.

(* ... which are loaded silently by the new informer's initial list: in snapshots, never an
   Event, never in a Synchronization (recorded finding F24) *)
Theorem C01_monitor_refuted_F24 : exists i, MT i = true /\ MP i (mobserve i) = false.
Proof. exact monitor_refuted_F24. Qed.
Print Assumptions C01_monitor_refuted_F24.

(* ---- operator level (the whole task flow, Op_Model): C01_OpProofs ---- *)
From Verif Require Import C01_OpProofs.
From Verif Require Op_Model Op_Corr Op_Spec C01_OpSpec.

(* The operator-level predicate of C01 (C01_OpSpec.P_op) holds of the operator model's own
   observations for EVERY well-formed configuration and EVERY sequence of actions (ticks,
   cluster events, successful and failed ends of executions, back-off delays, shutdown): a
   monitor becomes unlocked only by the successful end of a main-queue execution whose task
   carries it (or because its binding is exempt from Synchronization), after such an end every
   monitor the task carries IS unlocked, and every Event context - queued or shown to a hook -
   belongs to an unlocked monitor. *)
Theorem C01_op_P_holds : forall cfg acts,
  Op_Spec.wf_config cfg = true ->
  Op_Model.has_queue (Op_Model.boot_queues cfg) Op_Model.no_queue = false ->
  C01_OpSpec.P_op (cfg, acts, Op_Corr.model_obs (cfg, acts, [])) = true.
Proof. exact C01_OpProofs.P_holds. Qed.
Print Assumptions C01_op_P_holds.

(* non-vacuity: three hooks (one v0), kubernetes bindings in the main queue and in named
   queues, grouped and ungrouped, one exempt from Synchronization (2), one allowing failure
   (7); 29 actions: a tick and an event before Boot and while locked, an onStartup failure
   with a back-off delay (FinishWait / Elapse), a failed Synchronization that is retried
   (nothing unlocked), a Synchronization that fails but allows failure (7 unlocked), Events
   arriving and being handed over after the unlock, shutdown with executions open.  The
   hypotheses hold; the unlocked set grows as the clauses say; after step 18 two hooks are
   shown Event contexts (kind code 2) of the unlocked bindings 1 and 7. *)
Example C01_op_hyp_met :
  let cfg :=
    [Op_Model.mkHook 1 false (Some 1%Z)
       [Op_Model.mkKb 1 0 0 false true 1; Op_Model.mkKb 2 5 7 true false 2; Op_Model.mkKb 3 0 7 false true 3]
       [Op_Model.mkSb 4 5 0 false 1];
     Op_Model.mkHook 2 true None [Op_Model.mkKb 5 0 0 false true 5] [Op_Model.mkSb 6 0 0 true 1];
     Op_Model.mkHook 3 false (Some 0%Z) [Op_Model.mkKb 7 6 0 true true 7] []] in
  let acts :=
    [Op_Model.Tick 1; Op_Model.Boot; Op_Model.KubeEv 1 1; Op_Model.Finish 0 true; Op_Model.FinishWait 0;
     Op_Model.KubeEv 2 1; Op_Model.Elapse 0; Op_Model.Finish 0 true; Op_Model.Finish 0 false;
     Op_Model.KubeEv 1 2; Op_Model.Finish 0 true; Op_Model.KubeEv 1 3; Op_Model.KubeEv 2 4;
     Op_Model.KubeEv 3 5; Op_Model.Finish 0 true; Op_Model.Finish 5 true; Op_Model.KubeEv 7 6;
     Op_Model.Finish 0 false; Op_Model.KubeEv 7 7; Op_Model.Finish 0 true; Op_Model.Tick 1;
     Op_Model.Finish 6 false; Op_Model.FinishWait 6; Op_Model.Finish 0 true; Op_Model.Elapse 6;
     Op_Model.Stop; Op_Model.KubeEv 5 8; Op_Model.Finish 6 true; Op_Model.Finish 5 true] in
  let obs := Op_Corr.model_obs (cfg, acts, []) in
  Op_Spec.wf_config cfg = true /\
  Op_Model.has_queue (Op_Model.boot_queues cfg) Op_Model.no_queue = false /\
  map Op_Corr.so_unlocked obs
  = repeat [] 10%nat ++ repeat [1; 2] 4%nat ++ repeat [1; 2; 3; 5] 3%nat ++ repeat [1; 2; 3; 5; 7] 12%nat /\
  Op_Corr.so_execs (nth 18%nat obs Op_Spec.empty_obs)
  = [Op_Corr.mkEO 0 1 [(1, 2, 0, 3)]; Op_Corr.mkEO 6 3 [(7, 2, 0, 7)]].
Proof. vm_compute. repeat split. Qed.

(* ---- namespace.labelSelector over histories of namespaces and objects: C01_Hist ---- *)
From Verif Require Import C02_Model C02_DynProofs C01_Hist C01_HistSpec C01_HistProofs C01_Comp C01_CompSpec C01_CompProofs.

(* The statement about the code path, for EVERY configuration (names, event types, jqFilter),
   EVERY initial cluster and EVERY history of object create / modify / delete and namespace
   create / relabel / delete (initial namespaces and late ones, stopping to match and matching
   again any number of times), no hypothesis: after the unlock the monitor hands over exactly
   the Events of the changes of objects that match AT THAT MOMENT - one per change that passes
   the event-type and change filters, in the order of the changes, nothing for namespaces that
   do not match.  (The reference [changes_only] walks the cluster alone; the model walks the
   informer set: VaryingInformers / cancelForNs, the add and delete callbacks, the caches.) *)
Theorem C01_hist_events_exact : forall i, hist_out i = changes_only i.
Proof. exact hist_events_exact. Qed.
Print Assumptions C01_hist_events_exact.

(* the informer set behind it: after any history the namespaces that have running informers
   are exactly the namespaces that match now - a namespace of the start-up list that stopped
   matching and matches again is watched again *)
Theorem C01_hist_informers_follow_matching : forall i ops ns,
  let st := fold_left (dstep (h_names i)) (map dop_of ops) (hist_init i) in
  In ns (map fst (dm_vary (snd st))) <-> ns_lab ns (snd (fst st)) = true.
Proof. exact hist_informers_follow_matching. Qed.
Print Assumptions C01_hist_informers_follow_matching.

(* the Spec predicate HP (which also wants the objects a namespace BRINGS ALONG reported as
   Added) holds of the model for every history in which no step brings objects along ... *)
Definition C01_hist_full_statement : Prop := forall i, HP i (mkHOb (hist_out i) 0 false) = true.

Theorem C01_hist_partial : forall i, HT i = false -> HP i (mkHOb (hist_out i) 0 false) = true.
Proof. exact hist_P_partial. Qed.
Print Assumptions C01_hist_partial.

(* ... and fails when one does: the recorded finding F24 on a history.  By
   C01_hist_events_exact this is ALL F24 costs: every change made after the namespace's
   informers exist is reported, also a change of an object that was brought along. *)
Theorem C01_hist_refuted_F24 : exists i, HT i = true /\ HP i (mkHOb (hist_out i) 0 false) = false.
Proof. exact hist_refuted_F24. Qed.
Print Assumptions C01_hist_refuted_F24.

(* non-vacuity: namespace 1 is in the start-up list (with an object of the Synchronization
   view), namespace 2 exists without the label, namespace 3 appears later; 1 is emptied and
   deleted, created again, an object appears in it; 2 gains the label while empty, loses it,
   a change in it meanwhile is not reported, gains it again after the object is gone; a
   modification outside the jqFilter (11 -> 21) is not reported.  HT is false and the Events
   are the ten listed ones. *)
Example C01_hist_hyp_met :
  let i := mkHistIn [] [Added; Modified; Deleted] true [(1, 1, 1)] [(1, true); (2, false)]
             [HSet (1, 2, 5); HSet (1, 1, 2); HDel 1 1; HDel 1 2; HNsDel 1; HNs 3 true; HSet (3, 1, 11);
              HNs 1 true; HSet (1, 3, 4); HSet (3, 1, 21); HNs 2 true; HSet (2, 1, 7); HNs 2 false;
              HSet (2, 1, 8); HDel 2 1; HNs 2 true; HSet (2, 2, 9); HSet (3, 1, 22); HDel 3 1] in
  HT i = false /\
  hist_out i = [(1, 2, Added, 5); (1, 1, Modified, 2); (1, 1, Deleted, 2); (1, 2, Deleted, 5);
                (3, 1, Added, 11); (1, 3, Added, 4); (2, 1, Added, 7); (2, 2, Added, 9);
                (3, 1, Modified, 22); (3, 1, Deleted, 22)].
Proof. vm_compute. split; reflexivity. Qed.

(* ---- a second binding with static namespaces beside the labelSelector binding (C01_Comp):
   bindings whose informers share client-go shared informers of the process-wide factory store
   (same kind, namespace and selectors).  The companion's Events are exactly the changes of the
   objects in ITS namespaces, whatever the namespaces' labels do - and therefore whatever
   informers the other binding creates and cancels meanwhile; no hypothesis. *)
Theorem C01_comp_events_exact : forall i k, comp_out i k = cexpected i k.
Proof. exact comp_events_exact. Qed.
Print Assumptions C01_comp_events_exact.

Theorem C01_comp_ignores_namespaces : forall i k,
  cexpected i k = cexpected_from k (fst (hcluster0 i)) (filter is_obj_op (h_ops i)).
Proof. exact comp_ignores_namespaces. Qed.
Print Assumptions C01_comp_ignores_namespaces.

(* both bindings meet their spec (the first one outside the trigger of F24) *)
Theorem C01_hist2_partial : forall i k, HT i = false ->
  HP2 i k (mkHOb (hist_out i) 0 false) (mkHOb (comp_out i k) 0 false) = true.
Proof. exact hist2_P_partial. Qed.
Print Assumptions C01_hist2_partial.

(* non-vacuity: namespace 1 matches, stops matching (its informers are cancelled), matches
   again; the companion names namespaces 1 and 2 and is told about every change there, also
   while namespace 1 does not match the first binding - which is told nothing then *)
Example C01_hist2_hyp_met :
  let i := mkHistIn [] [Added; Modified; Deleted] false [] [(1, true)]
             [HSet (1, 1, 1); HNs 1 false; HSet (1, 1, 2); HSet (2, 1, 3); HDel 1 1; HNs 1 true; HSet (1, 2, 4)] in
  let k := mkCompIn [1; 2] [] [Added; Modified; Deleted] false in
  HT i = false /\
  hist_out i = [(1, 1, Added, 1); (1, 2, Added, 4)] /\
  comp_out i k = [(1, 1, Added, 1); (1, 1, Modified, 2); (2, 1, Added, 3); (1, 1, Deleted, 2); (1, 2, Added, 4)].
Proof. vm_compute. repeat split; reflexivity. Qed.

(* REMARK (not a theorem about P; reported to the lead): the mirror image of F24.  When a
   namespace STOPS matching while it holds selected objects, its informers are cancelled and
   nothing is fired: the hook is never told that these objects left the matching set.  HP
   does not demand Deleted Events there (the objects did not change), so the last clause of
   the property text - "applying the delivered Events on top of the Synchronization view
   reproduces the final matching state" - does not hold for such histories either. *)
Example C01_hist_ns_stop_is_silent :
  hist_out (mkHistIn [] [Added; Modified; Deleted] false [(1, 1, 1)] [(1, true)] [HNs 1 false]) = [].
Proof. vm_compute. reflexivity. Qed.

(* ---- the FORM of the handler's argument (C01_Forms; seeded change C01-6) ----
   client-go hands a deletion found by a relist to OnDelete as a cache.DeletedFinalStateUnknown
   tombstone BY VALUE.  For every sequence of handler calls in any mixture of forms that client-go
   produces ([clientgo_wf]: tombstones in Deleted callbacks only, the tombstone's key is the carried
   object's), every subset of event types and every schedule outside the trigger of F23: C01_Spec.P
   holds over the changes the calls MEAN (a deletion is a deletion in either form). *)
From Verif Require Import C01_Forms C01_FormsSpec C01_FormsProofs.

Definition C01_forms_full_statement : Prop :=
  forall fi, forallb clientgo_wf (f_dels fi) = true -> PF fi (k_of (model_input fi)) (obs_of (run_forms fi)) = true.

Theorem C01_forms_no_loss_partial : forall fi,
  forallb clientgo_wf (f_dels fi) = true -> T (model_input fi) = false ->
  PF fi (k_of (model_input fi)) (obs_of (run_forms fi)) = true.
Proof. exact forms_no_loss. Qed.
Print Assumptions C01_forms_no_loss_partial.

(* non-vacuity: object 1 appears and changes, object 2 appears; a relist after a broken watch finds
   1 gone (tombstone) while the Synchronization is still running; the watch sees 2 go (object).
   The appearance of 2 and both deletions are replayed after the unlock, in order; an observation that lacks the
   tombstone's Deleted Event (and keeps the object in the cache) violates the predicate *)
Example C01_forms_hyp_met :
  let fi := mkFIn [Added; Modified; Deleted]
                  [mkDl Added (AObj 1 1); mkDl Modified (AObj 1 2); mkDl Added (AObj 2 1);
                   mkDl Deleted (ATomb 1 1 2); mkDl Deleted (AObj 2 1)]
                  [StartW; StepW; StartW; StepW; StartW; StartS 0; StepW; StartW; StepW; E; StartW; StepW] in
  forallb clientgo_wf (f_dels fi) = true /\ T (model_input fi) = false /\
  ob_out (obs_of (run_forms fi)) = [(2, Added, 1); (1, Deleted, 2); (2, Deleted, 1)] /\
  PF fi (k_of (model_input fi)) (mkOb [(2, Added, 1); (2, Deleted, 1)] [(0, [(1, 2); (2, 1)])] [(1, 2)] true 0 0 5 false) = false.
Proof. vm_compute. repeat split. Qed.

(* ---- histories ACROSS WATCH OUTAGES (C01_Relist; seeded change C01-6) ----
   A history is any sequence of healthy steps (those of C01_Hist) and outages: the watch breaks
   and cannot be resumed, objects are created / modified / deleted meanwhile, any number of
   times, then every reflector relists and the shared informers hand the difference between their
   store and the cluster to the handlers (Added / Modified for what is listed, Deleted as a
   tombstone for what is gone).

   C01_relist_events_exact - no hypothesis, every configuration, initial cluster and history:
   PER OBJECT the Events handed over are exactly, and in the order of, the ones the cluster-only
   reference demands: one per change on a healthy watch; across an outage ONE Event iff the
   object's state when the watch is back differs (in presence, or in the part the change filter
   looks at) from its state when the watch broke - Added / Modified with the final state,
   Deleted -, placed after everything before the outage and before everything after it.
   Intermediate states during an outage are collapsed; nothing else is. *)
From Verif Require Import C01_Relist C01_RelistSpec C01_RelistProofs.

Theorem C01_relist_events_exact : forall i ops k,
  by_key k (relist_out i ops) = by_key k (rchanges_only i ops).
Proof. exact relist_events_exact. Qed.
Print Assumptions C01_relist_events_exact.

(* without outages the class is C01_Hist *)
Theorem C01_relist_without_outage : forall i, relist_out i (map RStep (h_ops i)) = hist_out i.
Proof. exact relist_without_outage. Qed.
Print Assumptions C01_relist_without_outage.

(* "applying the delivered Events on top of the Synchronization view reproduces the final matching
   state of the cluster" - per object, for every history with any number of outages, when every
   event type is listed and no namespace step moves existing objects into or out of the matching
   set (F24 and its documented mirror image): starting from the object's entry in the
   Synchronization view and applying its Events in order ends at its entry in the final matching
   state, up to what the change filter hides *)
Theorem C01_relist_replay : forall i ops k,
  all_listed (h_types i) = true -> quiet i ops = true ->
  same_entry (h_filter i) (replay k (entry (h_names i) (hcluster0 i) k) (relist_out i ops))
             (entry (h_names i) (rfinal i ops) k) = true.
Proof. exact relist_replay. Qed.
Print Assumptions C01_relist_replay.

(* the Spec predicate RP (per-object Events as demanded, the replay clause, none before the
   unlock) holds of the model for every history in which no healthy step brings objects along *)
Definition C01_relist_full_statement : Prop :=
  forall i ops, RP i ops (mkHOb (relist_out i ops) 0 false) = true.

Theorem C01_relist_partial : forall i ops, RT i ops = false -> RP i ops (mkHOb (relist_out i ops) 0 false) = true.
Proof. exact relist_P_partial. Qed.
Print Assumptions C01_relist_partial.

Theorem C01_relist_refuted_F24 : exists i ops, RT i ops = true /\ RP i ops (mkHOb (relist_out i ops) 0 false) = false.
Proof. exact relist_refuted_F24. Qed.
Print Assumptions C01_relist_refuted_F24.

(* non-vacuity: namespaces 1 and 2 match, 3 does not; objects (1,1) and (1,2) are in the
   Synchronization view.  First outage: (1,1) is deleted, (1,2) is changed twice - once outside
   the jqFilter -, (1,3) is created and changed, (2,1) is created and deleted again, (3,1) is
   created in the namespace that does not match.  Then a healthy change, a second outage in which
   (1,3) is deleted and created again with a state the filter cannot tell from the old one and
   (1,2) is deleted, a namespace appears, a last healthy change.  All hypotheses hold; the Events
   are the six listed ones ((2,1), (3,1) and the re-creation of (1,3) are silent); replaying
   them per object over the view gives the final matching state. *)
Example C01_relist_hyp_met :
  let i := mkHistIn [] [Added; Modified; Deleted] true [(1, 1, 1); (1, 2, 1)] [(1, true); (2, true)] [] in
  let ops := [ROut [ODel 1 1; OSet (1, 2, 11); OSet (1, 2, 12); OSet (1, 3, 4); OSet (1, 3, 5);
                    OSet (2, 1, 7); ODel 2 1; OSet (3, 1, 9)];
              RStep (HSet (1, 3, 6));
              ROut [ODel 1 3; OSet (1, 3, 16); ODel 1 2];
              RStep (HNs 3 false); RStep (HSet (2, 2, 8))] in
  RT i ops = false /\ all_listed (h_types i) = true /\ quiet i ops = true /\
  relist_out i ops = [(1, 2, Modified, 12); (1, 3, Added, 5); (1, 1, Deleted, 1);
                      (1, 3, Modified, 6); (1, 2, Deleted, 12); (2, 2, Added, 8)] /\
  map (fun k => replay k (entry (h_names i) (hcluster0 i) k) (relist_out i ops)) [(1, 1); (1, 2); (1, 3); (2, 1); (2, 2); (3, 1)]
  = [None; None; Some 6; None; Some 8; None] /\
  map (entry (h_names i) (rfinal i ops)) [(1, 1); (1, 2); (1, 3); (2, 1); (2, 2); (3, 1)]
  = [None; None; Some 16; None; Some 8; None].
Proof. vm_compute. repeat split; reflexivity. Qed.

(* the relist of ONE informer as the code runs it - the handler calls of C01_Relist.relist_calls
   (listed objects as OnAdd / OnUpdate, vanished ones as OnDelete(tombstone)) one after the other,
   each deciding against the cache the earlier calls left and then changing it - fires exactly
   the events the model's [inf_relist] computes against the cache as it was when the watch
   broke, and leaves, object by object, exactly the listed objects in the cache (what
   [relist_mon] writes).  Hypotheses: cache and list hold one entry per object. *)
From Verif Require C02_Proofs.
Theorem C01_relist_call_by_call : forall types flt cache listed_objs,
  C02_Proofs.keys_distinct cache -> C02_Proofs.keys_distinct listed_objs ->
  fst (inf_relist_run types flt cache (relist_calls cache listed_objs)) = inf_relist types flt cache listed_objs
  /\ forall x, lookup x (snd (inf_relist_run types flt cache (relist_calls cache listed_objs))) = lookup x listed_objs.
Proof. exact relist_run_static. Qed.
Print Assumptions C01_relist_call_by_call.

Example C01_relist_call_by_call_hyp_met :
  let cache := [(1, 1, 1); (1, 2, 1); (1, 4, 3)] in
  let listed_objs := [(1, 2, 2); (1, 3, 1); (1, 4, 3)] in
  C02_Proofs.keys_distinct cache /\ C02_Proofs.keys_distinct listed_objs /\
  relist_calls cache listed_objs
  = [(Modified, FObj, (1, 2, 2)); (Added, FObj, (1, 3, 1)); (Modified, FObj, (1, 4, 3)); (Deleted, FTomb, (1, 1, 1))] /\
  inf_relist_run [Added; Modified; Deleted] false cache (relist_calls cache listed_objs)
  = ([(1, 2, Modified, 2); (1, 3, Added, 1); (1, 1, Deleted, 1)], [(1, 2, 2); (1, 4, 3); (1, 3, 1)]).
Proof.
  split; [|split; [|split; vm_compute; reflexivity]];
    cbv [C02_Proofs.keys_distinct C02_Proofs.key map o_ns o_name fst snd];
    repeat (apply NoDup_cons; [cbn; intuition congruence|]); apply NoDup_nil.
Qed.
