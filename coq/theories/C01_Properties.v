(* C01_Properties.v — the property theorems of C01 (one informer of one kubernetes binding;
   a monitor is a finite product of informers, see C01_Monitor for the namespace-selector
   part) and nothing else.

   Full statement (every schedule, no hypothesis):
     Definition C01_full_statement := forall i, P i (k_of i) (obs_of (run i)) = true.
   It is FALSE of the faithful model and of the code: C01_refuted_F23 — a reader other than
   the binding's own Synchronization run (another binding's includeSnapshotsFrom in another
   queue, an admission hook, the debug endpoint) that reads the still-locked binding empties
   its buffer (recorded finding F23).  C01_no_loss_partial is the full statement outside
   that trigger.  Model = the code after the repairs c7c31b7 (R3) and 4541787 (R1). *)
From Verif Require Import Common C01_Model C01_Spec C01_Corr C01_Proofs.
Open Scope N_scope.

Definition C01_full_statement : Prop := forall i, P i (k_of i) (obs_of (run i)) = true.

Theorem C01_no_loss_partial : forall i, T i = false -> P i (k_of i) (obs_of (run i)) = true.
Proof. exact no_loss. Qed.
Print Assumptions C01_no_loss_partial.

Theorem C01_refuted_F23 : exists i, T i = true /\ P i (k_of i) (obs_of (run i)) = false.
Proof.
  exists (mkIn [Added; Modified; Deleted] [mkCh 1 Added 1; mkCh 1 Modified 2; mkCh 2 Added 1]
               [StartW; StepW; StartS 0; StartW; StepW; StartS 1; E; StartW; StepW]).
  split; vm_compute; reflexivity.
Qed.
Print Assumptions C01_refuted_F23.

(* no Event of a binding is handed over before its unlock — every schedule, foreign readers included *)
Theorem C01_no_event_before_unlock : forall types ops s,
  (enabled s = false -> out s = []) ->
  enabled (exec types s ops) = false -> out (exec types s ops) = [].
Proof. exact no_event_before_unlock. Qed.
Print Assumptions C01_no_event_before_unlock.

(* the invariant behind C01_no_loss_partial, for every reachable state of a disciplined schedule *)
Theorem C01_invariant : forall types chs ops,
  disciplined types (init chs) ops ->
  Inv types chs (exec types (init chs) ops) (ghost_k types (init chs) ops 0).
Proof. intros. apply exec_inv; [apply init_inv | assumption]. Qed.
Print Assumptions C01_invariant.

(* non-vacuity: a schedule with a change in flight during the Synchronization read, a failed
   first Synchronization (second read), changes during the run and after the unlock *)
Example C01_hyp_met :
  let i := mkIn [Added; Modified; Deleted]
                [mkCh 1 Added 1; mkCh 1 Modified 2; mkCh 2 Added 1; mkCh 1 Deleted 2; mkCh 2 Modified 3]
                [StartW; StepW; StartW; StartS 0; StepW; StartW; StartS 0; StepW; E; StartW; StepW; StartW; StepW] in
  T i = false /\ k_of i = 3 /\ ob_out (obs_of (run i)) = [(2, Added, 1); (1, Deleted, 2); (2, Modified, 3)].
Proof. vm_compute. repeat split. Qed.

(* ---- monitor level (namespace.labelSelector): C01_Monitor ---- *)
From Verif Require Import C01_Monitor.

(* for EVERY interleaving of the namespace callback with the unlock, once both have finished
   no informer of the binding is left locked (after repair cba4b0e, R4) *)
Theorem C01_no_informer_left_locked : forall sched,
  let s := mrun sched in ienabled s = true /\ flag s = true /\ stored s = true.
Proof. exact no_informer_left_locked. Qed.
Print Assumptions C01_no_informer_left_locked.

(* the monitor-level predicate holds unless the namespace brings matching objects along ... *)
Theorem C01_monitor_partial : forall i, MT i = false -> MP i (mobserve i) = true.
Proof. exact monitor_P_partial. Qed.
Print Assumptions C01_monitor_partial.

(* ... which are loaded silently by the new informer's initial list: in snapshots, never an
   Event, never in a Synchronization (recorded finding F24) *)
Theorem C01_monitor_refuted_F24 : exists i, MT i = true /\ MP i (mobserve i) = false.
Proof. exact monitor_refuted_F24. Qed.
Print Assumptions C01_monitor_refuted_F24.
