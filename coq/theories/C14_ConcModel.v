(* C14_ConcModel.v — admission requests that OVERLAP in time.  No proofs here.

   Admission hook runs do not go through the task queues: the webhook's HTTP server calls the event
   handler (operator.go:226-279), which calls op.taskHandler(admissionTask), in the goroutine of EVERY
   request.  Two AdmissionReviews for the same hook (same or different bindings of it) or for different
   hooks therefore run concurrently, each through Hook.Run (pkg/hook/hook.go), which hands the hook its
   input and takes its verdict back through FILES in the one temp directory of the operator.

   The transition system.  Request e, at statement level:

     QRecv      serveReviewRequest decodes the body; handleReviewRequest: detect, HandleAdmissionEvent
                (C14_Model.find_task).  Not a review / nobody registered the path: answered at once.
     QCtx       Hook.Run: prepareBindingContextJsonFile   hook-<name>-binding-context-<uuid>.json  (hook.go:279-291)
     QMet       prepareMetricsFile                        hook-<name>-metrics-<uuid>.txt           (hook.go:293-305)
     QAdm       prepareAdmissionResponseFile              hook-<name>-admission-response-<uuid>.json
     QConv      prepareConversionResponseFile             hook-<name>-conversion-response-<uuid>.json
     QPatch     prepareObjectPatchFile                    <name>-object-patch-<uuid>
                  each: os.WriteFile(path, ...) creates or TRUNCATES the file of that name
     QSpawn     the hook process starts: it reads the file under $BINDING_CONTEXT_PATH and looks at its
                four output files
     QWrite     the hook process writes its outputs (the files it has something for; the others stay
                as they are)
     QExit      the hook process ends.  Non-zero status: Run returns the error at once (-> QRemove)
     QRead      Run reads the four files back (hook.go:165-183)
     QRemove    the deferred function removes the five files (hook.go:103-112)
     QAnswer    handleRunHook's steps after Run (C14_Model.handle_run_hook), the event handler and
                handleReviewRequest build the AdmissionResponse (C14_Model.answer_of_task)
     QDone

   A file NAME is (hook, kind, uuid): what the format strings above are made of.  uuid.NewV4 is an
   oracle that never repeats: a counter.  The temp directory maps names to contents; executions
   keep the uuids they drew.  NOTHING in the state says that a file belongs to an execution: a
   create truncates whatever has that name, a read returns whatever the name holds at that moment,
   a remove removes the name.  That every execution reads back what its own hook process wrote is
   a theorem (C14_ConcProofs.Inv), and it rests on the uuid in the name.

   A SCHEDULE is any list of request numbers; each occurrence lets that request take its next
   step: any number of requests in flight, any interleaving of their steps. *)
From Verif Require Import Common C14_Model.
Local Open Scope N_scope.

Record creq := mkCR { cq_path : bytes; cq_body : body; cq_run : run }.

(* ------------------------------------------------------------------ the temp directory *)
Inductive kind := KCtx | KMet | KAdm | KConv | KPatch.
Definition kind_eqb (a b : kind) : bool :=
  match a, b with
  | KCtx, KCtx | KMet, KMet | KAdm, KAdm | KConv, KConv | KPatch, KPatch => true
  | _, _ => false
  end.

Definition fname := (N * kind * N)%type.          (* hook, kind, uuid *)
Definition fname_eqb (a b : fname) : bool :=
  let '(h, k, u) := a in let '(h', k', u') := b in (h =? h') && kind_eqb k k' && (u =? u').

(* what a file holds.  XCtx: a binding context with one AdmissionReview (request uid) for a binding
   (type, name).  The hook's outputs are the abstract contents of C14_Model. *)
Inductive fcont :=
| XEmpty
| XCtx (uid : N) (l : btype * bytes)
| XResp (f : rfile)
| XMet (m : mfile)
| XConv (c : cfile)
| XPatch (k : kfile).

Definition dir := fname -> option fcont.
Definition updf (fs : dir) (nm : fname) (v : option fcont) : dir :=
  fun x => if fname_eqb x nm then v else fs x.

(* what the hook process writes: a file it has nothing for is not touched *)
Definition rcont (f : rfile) : fcont := match f with FEmpty => XEmpty | _ => XResp f end.
Definition mcont (m : mfile) : fcont := match m with MEmpty => XEmpty | _ => XMet m end.
Definition ccont (c : cfile) : fcont := match c with CEmpty => XEmpty | _ => XConv c end.
Definition kcont (k : kfile) : fcont := match k with KEmpty => XEmpty | _ => XPatch k end.
Definition write_if (fs : dir) (nm : fname) (c : fcont) : dir :=
  match c with XEmpty => fs | _ => updf fs nm (Some c) end.

(* what Run makes of a file when it reads it back.  A file that does not exist (os.ReadFile fails)
   and a file with a content of another kind make the respective reader fail. *)
Definition as_rfile (c : option fcont) : rfile :=
  match c with Some XEmpty => FEmpty | Some (XResp f) => f | _ => FMalformed end.
Definition as_mfile (c : option fcont) : mfile :=
  match c with Some XEmpty => MEmpty | Some (XMet m) => m | _ => MUnparsable end.
Definition as_cfile (c : option fcont) : cfile :=
  match c with Some XEmpty => CEmpty | Some (XConv x) => x | _ => CMalformed end.
Definition as_kfile (c : option fcont) : kfile :=
  match c with Some XEmpty => KEmpty | Some (XPatch k) => k | _ => KUnparsable end.

Definition is_empty_file (c : option fcont) : bool := match c with Some XEmpty => true | _ => false end.

(* ------------------------------------------------------------------ the world *)
Inductive cpc :=
| QRecv | QCtx | QMet | QAdm | QConv | QPatch | QSpawn | QWrite | QExit | QRead | QRemove | QAnswer | QDone.

(* what the client and the harness see of one request: the HTTP answer, which hook process ran for
   which binding (as its binding context told it), the marker effects, and whether the hook
   process found its four output files empty when it started (true when no process ran) *)
Definition cout := (answer * ran * (bool * bool) * bool)%type.

Record exec_st := mkES {
  e_pc : cpc;
  e_hook : N;                          (* the task of the request: hook number ... *)
  e_link : btype * bytes;              (* ... binding type and name *)
  e_id : kind -> N;                    (* the uuids drawn so far *)
  e_seen : option fcont;               (* what the hook process read under $BINDING_CONTEXT_PATH *)
  e_empty : bool;                      (* ... and it found its four output files empty *)
  e_back : run;                        (* what Run made of the exit status and the four files *)
  e_out : option cout
}.

Record world := mkW {
  w_next : N;                          (* uuids below this number have been drawn *)
  w_fs : dir;
  w_exec : N -> exec_st
}.

Definition upd {A} (f : N -> A) (k : N) (v : A) : N -> A := fun x => if x =? k then v else f x.

Definition name_of (st : exec_st) (k : kind) : fname := (e_hook st, k, e_id st k).

Definition at_pc (st : exec_st) (p : cpc) : exec_st :=
  mkES p (e_hook st) (e_link st) (e_id st) (e_seen st) (e_empty st) (e_back st) (e_out st).

Definition no_link : btype * bytes := (Validating, []).
Definition fail_run : run := mkRun false FEmpty MEmpty CEmpty KEmpty.
Definition init_st : exec_st := mkES QRecv 0 no_link (fun _ => 0) None true fail_run None.
Definition idle_st : exec_st := mkES QDone 0 no_link (fun _ => 0) None true fail_run None.

Definition dflt_req : creq := mkCR [] BMalformed fail_run.
Definition nth_req (rs : list creq) (e : N) : creq := nth (N.to_nat e) rs dflt_req.

Definition init (rs : list creq) : world :=
  mkW 0 (fun _ => None) (fun e => if e <? N.of_nat (length rs) then init_st else idle_st).

Definition uid_of (b : body) : N := match b with BReview u => u | _ => 0 end.

(* prepare...File: draw a uuid, create (or truncate) the file of that name with content c *)
Definition create (w : world) (e : N) (k : kind) (c : fcont) (p : cpc) : world :=
  let st := w_exec w e in
  mkW (w_next w + 1)
      (updf (w_fs w) (e_hook st, k, w_next w) (Some c))
      (upd (w_exec w) e
           (mkES p (e_hook st) (e_link st) (fun x => if kind_eqb x k then w_next w else e_id st x)
                 (e_seen st) (e_empty st) (e_back st) (e_out st))).

Definition set_exec (w : world) (e : N) (st : exec_st) : world := mkW (w_next w) (w_fs w) (upd (w_exec w) e st).

(* answered without a hook run *)
Definition finish_early (w : world) (e : N) (a : answer) : world :=
  let st := w_exec w e in
  set_exec w e (mkES QDone (e_hook st) (e_link st) (e_id st) (e_seen st) (e_empty st) (e_back st)
                     (Some (a, None, (false, false), true))).

Definition all_kinds : list kind := [KCtx; KMet; KAdm; KConv; KPatch].

(* one step of request e *)
Definition step (hooks : list hook) (rs : list creq) (w : world) (e : N) : world :=
  let st := w_exec w e in
  let q := nth_req rs e in
  let r := cq_run q in
  match e_pc st with
  | QRecv =>
      match cq_body q with
      | BWrongContentType => finish_early w e (AStatus 415)
      | BMalformed | BNoRequest => finish_early w e (AStatus 400)
      | BReview uid =>
          match detect (cq_path q) with
          | (conf, id) =>
              match find_task hooks conf id with
              | None => finish_early w e (AReview (errored uid AMNoHook))
              | Some (h, l) =>
                  set_exec w e (mkES QCtx h l (e_id st) (e_seen st) (e_empty st) (e_back st) (e_out st))
              end
          end
      end
  | QCtx => create w e KCtx (XCtx (uid_of (cq_body q)) (e_link st)) QMet
  | QMet => create w e KMet XEmpty QAdm
  | QAdm => create w e KAdm XEmpty QConv
  | QConv => create w e KConv XEmpty QPatch
  | QPatch => create w e KPatch XEmpty QSpawn
  | QSpawn =>
      set_exec w e
        (mkES QWrite (e_hook st) (e_link st) (e_id st) (w_fs w (name_of st KCtx))
              (is_empty_file (w_fs w (name_of st KMet)) && is_empty_file (w_fs w (name_of st KAdm))
               && is_empty_file (w_fs w (name_of st KConv)) && is_empty_file (w_fs w (name_of st KPatch)))
              (e_back st) (e_out st))
  | QWrite =>
      mkW (w_next w)
          (write_if (write_if (write_if (write_if (w_fs w)
              (name_of st KAdm) (rcont (file r)))
              (name_of st KPatch) (kcont (kpatch r)))
              (name_of st KMet) (mcont (metrics r)))
              (name_of st KConv) (ccont (conv r)))
          (upd (w_exec w) e (at_pc st QExit))
  | QExit =>
      if exit_zero r then set_exec w e (at_pc st QRead)
      else set_exec w e (mkES QRemove (e_hook st) (e_link st) (e_id st) (e_seen st) (e_empty st) fail_run (e_out st))
  | QRead =>
      set_exec w e
        (mkES QRemove (e_hook st) (e_link st) (e_id st) (e_seen st) (e_empty st)
              (mkRun true (as_rfile (w_fs w (name_of st KAdm))) (as_mfile (w_fs w (name_of st KMet)))
                     (as_cfile (w_fs w (name_of st KConv))) (as_kfile (w_fs w (name_of st KPatch))))
              (e_out st))
  | QRemove =>
      mkW (w_next w)
          (fun x => if existsb (fun k => fname_eqb x (name_of st k)) all_kinds then None else w_fs w x)
          (upd (w_exec w) e (at_pc st QAnswer))
  | QAnswer =>
      let t := handle_run_hook (e_back st) in
      set_exec w e
        (mkES QDone (e_hook st) (e_link st) (e_id st) (e_seen st) (e_empty st) (e_back st)
              (Some (AReview (answer_of_task (uid_of (cq_body q)) t),
                     match e_seen st with Some (XCtx _ l) => Some (e_hook st, l) | _ => None end,
                     (t_kapplied t, t_mapplied t), e_empty st)))
  | QDone => w
  end.

Definition run_sched (hooks : list hook) (rs : list creq) (w : world) (s : list N) : world :=
  fold_left (step hooks rs) s w.
Definition conc_run (hooks : list hook) (rs : list creq) (s : list N) : world := run_sched hooks rs (init rs) s.

Definition is_done (st : exec_st) : bool := match e_pc st with QDone => true | _ => false end.

(* ------------------------------------------------------------------ the schedules the harness drives *)
(* The harness holds a hook process at two points: started (about to write) and written (about to
   exit).  One move of request e = its steps up to the next of these points, or to its end. *)
Fixpoint advance (hooks : list hook) (rs : list creq) (fuel : nat) (w : world) (e : N) : world :=
  match fuel with
  | O => w
  | S f =>
    let w' := step hooks rs w e in
    match e_pc (w_exec w' e) with
    | QWrite | QExit | QDone => w'
    | _ => advance hooks rs f w' e
    end
  end.

(* afterwards every request is let run to its end, one after the other *)
Definition steps_max : nat := 13.
Fixpoint finish_from (k : N) (n : nat) : list N :=
  match n with O => [] | S m => repeat k steps_max ++ finish_from (k + 1) m end.
Definition finish_sched (rs : list creq) : list N := finish_from 0 (length rs).

Definition moves_run (hooks : list hook) (rs : list creq) (moves : list N) : world :=
  run_sched hooks rs (fold_left (advance hooks rs 8) moves (init rs)) (finish_sched rs).

(* the sequential answer of C14_Model for one request by itself *)
Definition seq_out (hooks : list hook) (q : creq) : cout :=
  (admit_request hooks (cq_path q) (cq_body q) (cq_run q), admit_effects hooks (cq_path q) (cq_body q) (cq_run q), true).

Fixpoint outs_from (w : world) (k : N) (n : nat) : list (option cout) :=
  match n with O => [] | S m => e_out (w_exec w k) :: outs_from w (k + 1) m end.
Definition outs (rs : list creq) (w : world) : list (option cout) := outs_from w 0 (length rs).
