(* C13_CProofs.v — another writer on the cluster: the model of C13_CModel meets C13_CSpec. *)
From Coq Require Import NArith Lia.
From Verif Require Import Common Json C13_Model C13_Spec C13_Proofs C13_CModel C13_CSpec.

Local Arguments cl_get : simpl never.
Local Arguments cl_set : simpl never.
Local Arguments cl_del : simpl never.

(* ---------- resourceVersions ---------- *)

Lemma ver_put k o s : ver k (st_put k o s) = (ver k s + 1)%N.
Proof. unfold ver, st_put. cbn. now rewrite beq_refl. Qed.

Lemma stale_refused (v : N) : N.eqb v (v + 1) = false.
Proof. apply N.eqb_neq. lia. Qed.

(* ---------- the writer ---------- *)

Lemma apply_write_equiv k w c d : cl_equiv c d -> cl_equiv (apply_write k w c) (apply_write k w d).
Proof.
  intros H. unfold apply_write. rewrite <- (H k).
  destruct (write_obj w (cl_get k c)); [now apply equiv_set | exact H].
Qed.

Lemma st_write_objs k w s : st_objs (st_write k w s) = apply_write k w (st_objs s).
Proof. unfold st_write, apply_write. destruct (write_obj w (cl_get k (st_objs s))); reflexivity. Qed.

(* ---------- what an operation may end with ---------- *)

(* [done_on d op y' e]: the operation has been applied, once, to the state [d] *)
Definition done_on (d : cluster) (o : op) (y' : sys) (e : option err) : Prop :=
  cl_equiv (st_objs (y_store y')) (fst (effect d o)) /\ e = snd (effect d o).

Lemma effect_no_conflict d o : snd (effect d o) <> Some EConflict.
Proof.
  destruct o as [m obj | m k | k body sub im]; cbn [effect].
  - unfold effect_create. destruct (cl_get (key_of_object obj) d); destruct m; cbn; discriminate.
  - cbn. discriminate.
  - destruct (cl_get k d) as [o|].
    + destruct (patched body o); cbn; [discriminate|]. destruct body; cbn; discriminate.
    + destruct im; cbn; discriminate.
Qed.

(* one run of a retried function, on the queue [y_queue y]:
   R0 done on the state as it is, no write happened;
   R1 one write was let in, done on the state after it;
   RC one write was let in and the Update was refused: nothing but the write happened *)
Definition attempt_ok (k : key) (o : op) (Inv : sys -> Prop) (fn : sys -> sys * option err) : Prop :=
  forall y d y' e, Inv y -> cl_equiv (st_objs (y_store y)) d -> fn y = (y', e) ->
    (y_used y' = y_used y /\ done_on d o y' e) \/
    (exists w q, y_queue y = w :: q /\ y_used y' = S (y_used y) /\ done_on (apply_write k w d) o y' e) \/
    (exists w q, y_queue y = w :: q /\ y_queue y' = q /\ y_used y' = S (y_used y) /\ e = Some EConflict /\
                 cl_equiv (st_objs (y_store y')) (apply_write k w d) /\ Inv y').

(* the loop: [m] writes happened; done on the state after them, or given up with a Conflict
   after [more + 1] refused attempts, nothing but the writes having happened *)
Definition loop_ok (k : key) (o : op) (more : nat) (y : sys) (d : cluster) (y' : sys) (e : option err) : Prop :=
  exists m, y_used y' = y_used y + m /\ m <= length (y_queue y) /\
    let d' := apply_writes k (firstn m (y_queue y)) d in
    done_on d' o y' e \/ (e = Some EConflict /\ cl_equiv (st_objs (y_store y')) d' /\ S more <= m).

Lemma retry_ok k o Inv fn :
  attempt_ok k o Inv fn ->
  forall more y d y' e, Inv y -> cl_equiv (st_objs (y_store y)) d -> retry more fn y = (y', e) -> loop_ok k o more y d y' e.
Proof.
  intros Hat. induction more as [|more IH]; intros y d y' e Hinv Heq Hr; cbn [retry] in Hr;
    destruct (fn y) as [y1 e1] eqn:Efn; destruct (Hat y d y1 e1 Hinv Heq Efn) as [[Hu Hd] | [(w & q & Hq & Hu & Hd) | (w & q & Hq & Hq1 & Hu & He & Hc & Hi)]].
  - assert (Hne : e1 <> Some EConflict) by (destruct Hd as [_ ->]; apply effect_no_conflict).
    assert (Hret : (y1, e1) = (y', e)) by (destruct e1 as [[]|]; try exact Hr; contradiction). inversion Hret; subst.
    exists 0. cbn. split; [lia | split; [lia | left; exact Hd]].
  - assert (Hne : e1 <> Some EConflict) by (destruct Hd as [_ ->]; apply effect_no_conflict).
    assert (Hret : (y1, e1) = (y', e)) by (destruct e1 as [[]|]; try exact Hr; contradiction). inversion Hret; subst.
    exists 1. rewrite Hq. cbn. split; [lia | split; [lia | left; exact Hd]].
  - subst e1. inversion Hr; subst. exists 1. rewrite Hq. cbn. split; [lia | split; [lia | right; split; [reflexivity | split; [exact Hc | lia]]]].
  - assert (Hne : e1 <> Some EConflict) by (destruct Hd as [_ ->]; apply effect_no_conflict).
    assert (Hret : (y1, e1) = (y', e)) by (destruct e1 as [[]|]; try exact Hr; contradiction). inversion Hret; subst.
    exists 0. cbn. split; [lia | split; [lia | left; exact Hd]].
  - assert (Hne : e1 <> Some EConflict) by (destruct Hd as [_ ->]; apply effect_no_conflict).
    assert (Hret : (y1, e1) = (y', e)) by (destruct e1 as [[]|]; try exact Hr; contradiction). inversion Hret; subst.
    exists 1. rewrite Hq. cbn. split; [lia | split; [lia | left; exact Hd]].
  - subst e1. destruct (IH y1 (apply_write k w d) y' e Hi Hc Hr) as (m & Hm & Hl & Hres).
    exists (S m). rewrite Hq. rewrite Hq1 in Hl, Hres. cbn [length firstn apply_writes].
    split; [lia | split; [lia|]]. destruct Hres as [Hd | (He & Hc' & Hn)]; [left; exact Hd | right].
    split; [exact He | split; [exact Hc' | lia]].
Qed.

(* ---------- the two retried functions ---------- *)

Lemma filter_attempt_ok k f sub im :
  attempt_ok k (OPatch k (PJq f) sub im) (fun _ => True) (filter_attempt k f sub im).
Proof.
  intros [s q u cl] d y' e _ Heq Hfn. cbn [y_store] in Heq.
  unfold filter_attempt, srv_get, rec_call in Hfn. cbn [y_store y_queue y_used y_calls] in Hfn.
  unfold done_on. cbn [effect patched].
  destruct (cl_get k (st_objs s)) as [o|] eqn:Eg.
  - destruct (apply_jq f o) as [o'|] eqn:Ejq.
    + destruct (json_eqb o o' && negb (has_int o)) eqn:Esame.
      * inversion Hfn; subst. left. cbn. split; [reflexivity|]. rewrite <- (Heq k), Eg, Ejq. cbn.
        apply andb_true_iff in Esame as [Esame _]. apply json_eqb_eq in Esame; subst o'.
        split; [|reflexivity]. apply equiv_set_same; [exact Heq | now rewrite <- (Heq k)].
      * unfold srv_update, interfere, rec_call, with_store in Hfn. cbn [y_store y_queue y_used y_calls] in Hfn.
        destruct q as [|w q].
        -- cbn [y_store] in Hfn. rewrite Eg, N.eqb_refl in Hfn. inversion Hfn; subst. left. cbn.
           split; [reflexivity|]. rewrite <- (Heq k), Eg, Ejq. cbn. split; [now apply equiv_set | reflexivity].
        -- cbn [y_store] in Hfn. unfold st_write in Hfn. rewrite Eg in Hfn.
           destruct (write_obj w (Some o)) as [o2|] eqn:Ew.
           ++ cbn [st_objs st_put] in Hfn. rewrite get_set_eq, ver_put, stale_refused in Hfn. inversion Hfn; subst.
              right; right. exists w, q. cbn. repeat split; try reflexivity.
              unfold apply_write. rewrite <- (Heq k), Eg, Ew. now apply equiv_set.
           ++ rewrite Eg, N.eqb_refl in Hfn. inversion Hfn; subst. right; left. exists w, q. cbn.
              split; [reflexivity | split; [reflexivity|]].
              assert (Haw : apply_write k w d = d) by (unfold apply_write; now rewrite <- (Heq k), Eg, Ew).
              rewrite Haw, <- (Heq k), Eg, Ejq. cbn. split; [now apply equiv_set | reflexivity].
    + inversion Hfn; subst. left. cbn. split; [reflexivity|]. rewrite <- (Heq k), Eg, Ejq. cbn. split; [exact Heq | reflexivity].
  - inversion Hfn; subst. left. cbn. split; [reflexivity|]. rewrite <- (Heq k), Eg. cbn. split; [exact Heq | reflexivity].
Qed.

Definition holds (k : key) (y : sys) : Prop := cl_get k (st_objs (y_store y)) <> None.

Lemma update_attempt_ok obj :
  let k := key_of_object obj in
  attempt_ok k (OCreate COrUpdate obj) (holds k) (update_attempt k obj).
Proof.
  intros k [s q u cl] d y' e Hinv Heq Hfn. unfold holds in Hinv. cbn [y_store] in Heq, Hinv.
  unfold update_attempt, srv_get, rec_call in Hfn. cbn [y_store y_queue y_used y_calls] in Hfn.
  unfold done_on. cbn [effect]. fold k. unfold effect_create.
  destruct (cl_get k (st_objs s)) as [o|] eqn:Eg; [|contradiction].
  unfold srv_update, interfere, rec_call, with_store in Hfn. cbn [y_store y_queue y_used y_calls] in Hfn.
  destruct q as [|w q].
  - cbn [y_store] in Hfn. rewrite Eg, N.eqb_refl in Hfn. inversion Hfn; subst. left. cbn.
    split; [reflexivity|]. rewrite <- (Heq k), Eg. cbn. split; [now apply equiv_set | reflexivity].
  - cbn [y_store] in Hfn. unfold st_write in Hfn. rewrite Eg in Hfn.
    destruct (write_obj w (Some o)) as [o2|] eqn:Ew.
    + cbn [st_objs st_put] in Hfn. rewrite get_set_eq, ver_put, stale_refused in Hfn. inversion Hfn; subst.
      right; right. exists w, q. unfold holds. cbn. repeat split; try reflexivity.
      * unfold apply_write. rewrite <- (Heq k), Eg, Ew. now apply equiv_set.
      * rewrite get_set_eq. discriminate.
    + rewrite Eg, N.eqb_refl in Hfn. inversion Hfn; subst. right; left. exists w, q. cbn.
      split; [reflexivity | split; [reflexivity|]].
      assert (Haw : apply_write k w d = d) by (unfold apply_write; now rewrite <- (Heq k), Eg, Ew).
      rewrite Haw, <- (Heq k), Eg. cbn. split; [now apply equiv_set | reflexivity].
Qed.

(* ---------- one mutating request ---------- *)

(* after the writer has been let in: [m] (0 or 1) writes happened *)
Lemma interfere_ok k y d :
  cl_equiv (st_objs (y_store y)) d ->
  exists m, y_used (interfere k y) = y_used y + m /\ m <= length (y_queue y) /\
            y_queue (interfere k y) = skipn m (y_queue y) /\
            cl_equiv (st_objs (y_store (interfere k y))) (apply_writes k (firstn m (y_queue y)) d).
Proof.
  intros H. unfold interfere. destruct (y_queue y) as [|w q] eqn:Eq.
  - exists 0. cbn. rewrite Eq. repeat split; try lia. exact H.
  - exists 1. cbn. rewrite st_write_objs. repeat split; try lia. now apply apply_write_equiv.
Qed.

(* the result of one operation: [m] writes happened; either done on the state after them or
   given up after the retry budget *)
Definition op_ok (o : op) (q : list write) (d : cluster) (s' : store) (e : option err) (m : nat) : Prop :=
  m <= length q /\
  let d' := apply_writes (target o) (firstn m q) d in
  (cl_equiv (st_objs s') (fst (effect d' o)) /\ e = snd (effect d' o)) \/
  (e = Some EConflict /\ cl_equiv (st_objs s') d' /\ attempts <= m).

Lemma cexec_op_ok s o q d :
  cl_equiv (st_objs s) d ->
  match cexec_op s o q with (s', _, e, m) => op_ok o q d s' e m end.
Proof.
  intros Heq. unfold cexec_op, op_ok.
  destruct o as [cm obj | dm k | k body sub im]; cbn [cexec_sys target].
  - (* create *)
    unfold cexec_create. set (k := key_of_object obj).
    unfold srv_create.
    set (y0 := rec_call VCreate k [] (mkSys s q 0 [])).
    destruct (interfere_ok k y0 d Heq) as (m & Hu & Hl & Hq & Hc). cbn in Hu, Hl. change (y_queue y0) with q in Hq, Hc.
    set (y1 := interfere k y0) in *. remember (apply_writes k (firstn m q) d) as d1 eqn:Ed1.
    destruct (cl_get k (st_objs (y_store y1))) as [old|] eqn:Eg.
    + destruct cm.
      * cbn. rewrite ?Hu. split; [exact Hl|]. left. cbn [effect]. fold k. unfold effect_create. rewrite <- ?Ed1. rewrite <- (Hc k), Eg. cbn. split; [exact Hc | reflexivity].
      * (* CreateOrUpdate: the retry loop *)
        destruct (retry retry_more (update_attempt k obj) y1) as [y2 e2] eqn:Er.
        assert (Hinv : holds k y1) by (unfold holds; rewrite Eg; discriminate).
        destruct (retry_ok k (OCreate COrUpdate obj) (holds k) _ (update_attempt_ok obj) retry_more y1 d1 y2 e2 Hinv Hc Er)
          as (m2 & Hu2 & Hl2 & Hres).
        cbn. rewrite Hq in Hl2, Hres. rewrite skipn_length in Hl2.
        assert (Hcomp : apply_writes k (firstn m2 (skipn m q)) d1 = apply_writes k (firstn (m + m2) q) d).
        { rewrite Ed1. clear -Hl. revert d. generalize dependent m. induction q as [|w q IHq]; intros m Hl d.
          - destruct m; destruct m2; reflexivity.
          - destruct m as [|m]; [reflexivity|]. cbn. cbn in Hl. apply IHq. lia. }
        rewrite Hcomp in Hres. rewrite Hu2, Hu. split; [lia|].
        destruct Hres as [[Hd1 Hd2] | (He & Hc2 & Hn)]; [left; split; assumption | right].
        split; [exact He | split; [exact Hc2 | unfold attempts; lia]].
      * cbn. rewrite ?Hu. split; [exact Hl|]. left. cbn [effect]. fold k. unfold effect_create. rewrite <- ?Ed1. rewrite <- (Hc k), Eg. cbn. split; [exact Hc | reflexivity].
    + cbn. rewrite ?Hu. split; [exact Hl|]. left. cbn [effect]. fold k. unfold effect_create. rewrite <- ?Ed1. rewrite <- (Hc k), Eg.
      destruct cm; cbn; (split; [now apply equiv_set | reflexivity]).
  - (* delete *)
    unfold cexec_delete, srv_delete.
    set (y0 := rec_call VDelete k [] (mkSys s q 0 [])).
    destruct (interfere_ok k y0 d Heq) as (m & Hu & Hl & Hq & Hc). cbn in Hu, Hl. change (y_queue y0) with q in Hq, Hc.
    set (y1 := interfere k y0) in *. remember (apply_writes k (firstn m q) d) as d1 eqn:Ed1.
    destruct (cl_get k (st_objs (y_store y1))) as [old|] eqn:Eg.
    + destruct dm; cbn; rewrite ?Hu, <- ?Ed1; (split; [exact Hl|]; left; split; [now apply equiv_del | reflexivity]).
    + cbn. rewrite ?Hu, <- ?Ed1. split; [exact Hl|]. left. split; [|reflexivity]. apply equiv_del_absent; [exact Hc | now rewrite <- (Hc k)].
  - (* patch *)
    unfold cexec_patch. destruct body as [p | ops | f].
    + unfold srv_patch. set (y0 := rec_call VPatch k sub (mkSys s q 0 [])).
      destruct (interfere_ok k y0 d Heq) as (m & Hu & Hl & Hq & Hc). cbn in Hu, Hl. change (y_queue y0) with q in Hq, Hc.
      set (y1 := interfere k y0) in *. remember (apply_writes k (firstn m q) d) as d1 eqn:Ed1.
      destruct (cl_get k (st_objs (y_store y1))) as [old|] eqn:Eg; cbn.
      * rewrite ?Hu. split; [exact Hl|]. left. rewrite <- ?Ed1. rewrite <- (Hc k), Eg. cbn. split; [now apply equiv_set | reflexivity].
      * rewrite ?Hu. split; [exact Hl|]. left. rewrite <- ?Ed1. rewrite <- (Hc k), Eg. destruct im; cbn; (split; [exact Hc | reflexivity]).
    + unfold srv_patch. set (y0 := rec_call VPatch k sub (mkSys s q 0 [])).
      destruct (interfere_ok k y0 d Heq) as (m & Hu & Hl & Hq & Hc). cbn in Hu, Hl. change (y_queue y0) with q in Hq, Hc.
      set (y1 := interfere k y0) in *. remember (apply_writes k (firstn m q) d) as d1 eqn:Ed1.
      destruct (cl_get k (st_objs (y_store y1))) as [old|] eqn:Eg; cbn.
      * destruct (apply_jps ops old) as [o'|] eqn:Ejp; cbn.
        -- rewrite ?Hu. split; [exact Hl|]. left. rewrite <- ?Ed1. rewrite <- (Hc k), Eg. cbn. rewrite Ejp. cbn. split; [now apply equiv_set | reflexivity].
        -- rewrite ?Hu. split; [exact Hl|]. left. rewrite <- ?Ed1. rewrite <- (Hc k), Eg. cbn. rewrite Ejp. cbn. split; [exact Hc | reflexivity].
      * rewrite ?Hu. split; [exact Hl|]. left. rewrite <- ?Ed1. rewrite <- (Hc k), Eg. destruct im; cbn; (split; [exact Hc | reflexivity]).
    + (* jq: the retry loop *)
      destruct (retry retry_more (filter_attempt k f sub im) (mkSys s q 0 [])) as [y2 e2] eqn:Er.
      destruct (retry_ok k (OPatch k (PJq f) sub im) (fun _ => True) _ (filter_attempt_ok k f sub im) retry_more
                  (mkSys s q 0 []) d y2 e2 I Heq Er) as (m & Hu & Hl & Hres).
      cbn in Hu, Hl, Hres. rewrite Hu. split; [exact Hl|].
      destruct Hres as [[Hd1 Hd2] | (He & Hc & Hn)]; [left; split; assumption | right].
      split; [exact He | split; [exact Hc | exact Hn]].
Qed.

(* ---------- the stream ---------- *)

Lemma is_conflict_true : is_conflict EConflict = true.
Proof. reflexivity. Qed.

Lemma cexec_meets_steps proj steps : forall s d,
  cl_equiv (st_objs s) d ->
  match cexec s steps with (s', _, es, ms) => P_steps attempts proj d steps ms es (st_objs s') = true end.
Proof.
  induction steps as [|[o q] r IH]; intros s d Heq; cbn [cexec P_steps].
  - now apply sameb_of_equiv.
  - pose proof (cexec_op_ok s o q d Heq) as Hop.
    destruct (cexec_op s o q) as [[[s1 calls1] e1] m1]. destruct Hop as [Hl Hres].
    destruct (cexec s1 r) as [[[s2 calls2] es] ms] eqn:Er.
    apply andb_true_iff. split; [now apply Nat.leb_le|].
    destruct Hres as [[Hc He] | (He & Hc & Hn)].
    + apply orb_true_iff. left. destruct (effect (apply_writes (target o) (firstn m1 q) d) o) as [c1 f1]. cbn in Hc, He. subst e1.
      specialize (IH s1 c1 Hc). rewrite Er in IH.
      destruct f1 as [f1|]; cbn [opt_list app]; [|exact IH]. now rewrite err_eqb_refl, IH.
    + apply orb_true_iff. right. subst e1. cbn [opt_list app].
      specialize (IH s1 _ Hc). rewrite Er in IH. rewrite is_conflict_true, IH.
      apply andb_true_iff. split; [now apply Nat.leb_le | reflexivity].
Qed.

Lemma chandle_run_meets_spec proj c ds qs :
  match chandle_run c ds qs with (r, ms) => P_conc attempts proj c ds qs r ms = true end.
Proof.
  unfold chandle_run, P_conc. destruct (all_valid ds) eqn:Ev.
  - rewrite (parse_valid ds Ev).
    pose proof (cexec_meets_steps proj (zipq (ops_of ds) qs) (mkStore c []) c (equiv_refl c)) as H.
    destruct (cexec (mkStore c []) (zipq (ops_of ds) qs)) as [[[s calls] es] ms]. cbn. exact H.
  - rewrite (parse_invalid ds Ev). unfold failed. cbn [r_parse_ok r_cluster r_calls negb orb andb]. now rewrite (sameb_of_equiv proj c c (equiv_refl c)).
Qed.
