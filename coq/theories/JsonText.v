(* JsonText.v — a byte-level JSON reader and printer over [list N] bytes (shared; model, NO proofs).

   Written from RFC 8259, which is also the grammar Go's encoding/json accepts:
     ws      = *( %x20 / %x09 / %x0A / %x0D )
     value   = false / null / true / object / array / number / string
     number  = [ "-" ] ( "0" / digit1-9 *DIGIT ) [ "." 1*DIGIT ] [ ("e"/"E") ["+"/"-"] 1*DIGIT ]
     string  = %x22 *( unescaped(>= %x20, not %x22 %x5C) / "\" ( %x22 %x5C %x2F b f n r t / "u" 4HEXDIG ) ) %x22
     array   = "[" ws [ value *( ws "," value ) ] ws "]"        object likewise with  string ws ":" value
   Functions:
     parse_value  fuel s : res (json * rest)      one value after optional whitespace
     parse_single s      : option json            json.Unmarshal / json.Valid: one document, only whitespace after it
     parse_stream s      : option (list json)     json.Decoder: Decode called until io.EOF (values separated by
                                                  OPTIONAL whitespace, longest match: `{}{}`, `[]1`, `1"a"`, `01`
                                                  and `nullnull` are two documents each - the Decoder's scanner
                                                  notes "invalid character after top-level value" for the byte
                                                  after a scalar but Decode resets the scanner before the next
                                                  value, so the complaint is never reported)
     print_value j       : bytes                  compact printer (no whitespace)
   Fuel: [S (length s)] for an input [s]; running out of fuel is the separate result [OutOfFuel],
   excluded for that amount by JsonText_Proofs.parse_*_fuel.

   Representation choices (Json.json is not extended):
   * numbers: EVERY number is carried as its literal bytes, [JFlt lit] (also integers; [JNum] is
     never produced by the reader; [norm_ints] converts afterwards where a model wants integers).
     Nothing is computed with numbers here; float64 overflow of Go's ParseFloat (1e999) is outside.
   * strings: [JStr s] holds the DECODED bytes: escapes resolved, \uXXXX as UTF-8, a surrogate pair as
     one 4-byte sequence, a lone surrogate as U+FFFD (EF BF BD) - as Go's unquote does.  Raw bytes
     >= 0x80 are kept as they are: Go replaces invalid UTF-8 by U+FFFD, this reader does not (the
     harness generators emit valid UTF-8 only).
   * objects: [JObj m] keeps all members in text order, duplicates included.
   * Go's nesting limit (10000) is not modelled. *)
From Verif Require Import Common Json.
Open Scope N_scope.

Inductive res (A : Type) := Ok (a : A) | Err | OutOfFuel.
Arguments Ok {A} a.
Arguments Err {A}.
Arguments OutOfFuel {A}.

(* ---------- whitespace ---------- *)
Definition is_ws (c : N) : bool := (c =? 32) || (c =? 9) || (c =? 10) || (c =? 13).
Fixpoint skip_ws (s : bytes) : bytes :=
  match s with
  | c :: r => if is_ws c then skip_ws r else s
  | [] => []
  end.
Definition all_ws (s : bytes) : bool := forallb is_ws s.

(* ---------- literals ---------- *)
Fixpoint strip_prefix (p s : bytes) : option bytes :=
  match p, s with
  | [], _ => Some s
  | a :: p', b :: s' => if a =? b then strip_prefix p' s' else None
  | _ :: _, [] => None
  end.

(* ---------- numbers: the scanner returns (literal, rest) ---------- *)
Definition is_digit (c : N) : bool := (48 <=? c) && (c <=? 57).
Fixpoint span_digits (s : bytes) : bytes * bytes :=
  match s with
  | c :: r => if is_digit c then let (d, t) := span_digits r in (c :: d, t) else ([], s)
  | [] => ([], [])
  end.

(* "0" / digit1-9 *DIGIT *)
Definition scan_int (s : bytes) : option (bytes * bytes) :=
  match s with
  | c :: r => if c =? 48 then Some ([48], r)
              else if is_digit c then let (d, t) := span_digits r in Some (c :: d, t)
              else None
  | [] => None
  end.
(* [ "." 1*DIGIT ] *)
Definition scan_frac (s : bytes) : option (bytes * bytes) :=
  match s with
  | c :: r => if c =? 46
              then match span_digits r with
                   | ([], _) => None
                   | (d, t) => Some (46 :: d, t)
                   end
              else Some ([], s)
  | [] => Some ([], [])
  end.
(* [ ("e"/"E") ["+"/"-"] 1*DIGIT ] *)
Definition scan_exp (s : bytes) : option (bytes * bytes) :=
  match s with
  | c :: r => if (c =? 101) || (c =? 69)
              then let (sg, r1) := match r with
                                   | x :: r' => if (x =? 43) || (x =? 45) then ([x], r') else ([], r)
                                   | [] => ([], [])
                                   end in
                   match span_digits r1 with
                   | ([], _) => None
                   | (d, t) => Some (c :: sg ++ d, t)
                   end
              else Some ([], s)
  | [] => Some ([], [])
  end.
Definition scan_number (s : bytes) : option (bytes * bytes) :=
  let (sg, r0) := match s with
                  | c :: r => if c =? 45 then ([45], r) else ([], s)
                  | [] => ([], [])
                  end in
  match scan_int r0 with
  | None => None
  | Some (i, r1) =>
    match scan_frac r1 with
    | None => None
    | Some (f, r2) =>
      match scan_exp r2 with
      | None => None
      | Some (e, r3) => Some (sg ++ i ++ f ++ e, r3)
      end
    end
  end.
(* the whole byte string is one number literal *)
Definition is_number (lit : bytes) : bool :=
  match scan_number lit with Some (_, []) => true | _ => false end.
(* a byte that could continue a number literal *)
Definition numcont (c : N) : bool := is_digit c || (c =? 46) || (c =? 101) || (c =? 69).
Definition no_numcont (s : bytes) : bool := match s with [] => true | c :: _ => negb (numcont c) end.

(* ---------- strings ---------- *)
Definition hex_val (c : N) : option N :=
  if (48 <=? c) && (c <=? 57) then Some (c - 48)
  else if (97 <=? c) && (c <=? 102) then Some (c - 87)
  else if (65 <=? c) && (c <=? 70) then Some (c - 55)
  else None.
Definition is_hex (c : N) : bool := match hex_val c with Some _ => true | None => false end.
Definition hv (c : N) : N := match hex_val c with Some v => v | None => 0 end.
Definition hex4 (a b c d : N) : N := hv a * 4096 + hv b * 256 + hv c * 16 + hv d.

Definition simple_escape (e : N) : option N :=
  if e =? 34 then Some 34 else if e =? 92 then Some 92 else if e =? 47 then Some 47
  else if e =? 98 then Some 8 else if e =? 102 then Some 12 else if e =? 110 then Some 10
  else if e =? 114 then Some 13 else if e =? 116 then Some 9 else None.

Definition opt_prepend (p : bytes) (o : option (bytes * bytes)) : option (bytes * bytes) :=
  match o with Some (x, t) => Some (p ++ x, t) | None => None end.

(* after the opening quote: (raw text between the quotes, rest after the closing quote);
   checks the escapes and rejects control bytes - what Go's scanner does inside a string *)
Fixpoint scan_string (s : bytes) : option (bytes * bytes) :=
  match s with
  | [] => None
  | c :: r =>
    if c =? 34 then Some ([], r)
    else if c =? 92 then
      match r with
      | [] => None
      | e :: r1 =>
        if e =? 117 then
          match r1 with
          | a :: b :: c2 :: d :: r2 =>
              if is_hex a && is_hex b && is_hex c2 && is_hex d
              then opt_prepend [92; 117; a; b; c2; d] (scan_string r2)
              else None
          | _ => None
          end
        else match simple_escape e with
             | Some _ => opt_prepend [92; e] (scan_string r1)
             | None => None
             end
      end
    else if c <? 32 then None
    else opt_prepend [c] (scan_string r)
  end.

Definition utf8_encode (cp : N) : bytes :=
  if cp <? 128 then [cp]
  else if cp <? 2048 then [192 + cp / 64; 128 + cp mod 64]
  else if cp <? 65536 then [224 + cp / 4096; 128 + (cp / 64) mod 64; 128 + cp mod 64]
  else [240 + cp / 262144; 128 + (cp / 4096) mod 64; 128 + (cp / 64) mod 64; 128 + cp mod 64].
Definition replacement_char : bytes := [239; 191; 189].
Definition is_surrogate (cp : N) : bool := (55296 <=? cp) && (cp <? 57344).

(* decoding of a scanned raw string (total; the impossible branches return the shorter result) *)
Fixpoint unescape (s : bytes) : bytes :=
  match s with
  | [] => []
  | c :: r =>
    if c =? 92 then
      match r with
      | [] => []
      | e :: r1 =>
        if e =? 117 then
          match r1 with
          | a :: b :: c2 :: d :: r2 =>
              let cp := hex4 a b c2 d in
              if is_surrogate cp then
                match r2 with
                | b1 :: b2 :: a' :: b' :: c' :: d' :: r3 =>
                    let lo := hex4 a' b' c' d' in
                    if (b1 =? 92) && (b2 =? 117) && is_hex a' && is_hex b' && is_hex c' && is_hex d'
                       && (cp <? 56320) && (56320 <=? lo) && (lo <? 57344)
                    then utf8_encode (65536 + (cp - 55296) * 1024 + (lo - 56320)) ++ unescape r3
                    else replacement_char ++ unescape r2
                | _ => replacement_char ++ unescape r2
                end
              else utf8_encode cp ++ unescape r2
          | _ => []
          end
        else match simple_escape e with
             | Some x => x :: unescape r1
             | None => unescape r1
             end
      end
    else c :: unescape r
  end.

(* ---------- values ---------- *)
(* elements of a non-empty array, [s] positioned where an element must start; ends after "]" *)
Fixpoint parse_elems (pv : bytes -> res (json * bytes)) (n : nat) (s : bytes) : res (list json * bytes) :=
  match n with
  | O => OutOfFuel
  | S n' =>
    match pv s with
    | Ok (v, t) =>
      match skip_ws t with
      | c :: t' =>
          if c =? 44 then
            match parse_elems pv n' t' with
            | Ok (vs, u) => Ok (v :: vs, u)
            | Err => Err
            | OutOfFuel => OutOfFuel
            end
          else if c =? 93 then Ok ([v], t')
          else Err
      | [] => Err
      end
    | Err => Err
    | OutOfFuel => OutOfFuel
    end
  end.

(* members of a non-empty object; ends after "}" *)
Fixpoint parse_members (pv : bytes -> res (json * bytes)) (n : nat) (s : bytes) : res (list (bytes * json) * bytes) :=
  match n with
  | O => OutOfFuel
  | S n' =>
    match skip_ws s with
    | c :: r =>
      if c =? 34 then
        match scan_string r with
        | None => Err
        | Some (raw, t) =>
          match skip_ws t with
          | c2 :: t2 =>
            if c2 =? 58 then
              match pv t2 with
              | Ok (v, t3) =>
                match skip_ws t3 with
                | c3 :: t4 =>
                    if c3 =? 44 then
                      match parse_members pv n' t4 with
                      | Ok (ms, u) => Ok ((unescape raw, v) :: ms, u)
                      | Err => Err
                      | OutOfFuel => OutOfFuel
                      end
                    else if c3 =? 125 then Ok ([(unescape raw, v)], t4)
                    else Err
                | [] => Err
                end
              | Err => Err
              | OutOfFuel => OutOfFuel
              end
            else Err
          | [] => Err
          end
        end
      else Err
    | [] => Err
    end
  end.

Fixpoint parse_value (fuel : nat) (s : bytes) : res (json * bytes) :=
  match fuel with
  | O => OutOfFuel
  | S f =>
    match skip_ws s with
    | [] => Err
    | c :: r =>
      if c =? 123 then
        match skip_ws r with
        | c1 :: r1 =>
            if c1 =? 125 then Ok (JObj [], r1)
            else match parse_members (parse_value f) f r with
                 | Ok (m, t) => Ok (JObj m, t)
                 | Err => Err
                 | OutOfFuel => OutOfFuel
                 end
        | [] => Err
        end
      else if c =? 91 then
        match skip_ws r with
        | c1 :: r1 =>
            if c1 =? 93 then Ok (JArr [], r1)
            else match parse_elems (parse_value f) f r with
                 | Ok (l, t) => Ok (JArr l, t)
                 | Err => Err
                 | OutOfFuel => OutOfFuel
                 end
        | [] => Err
        end
      else if c =? 34 then
        match scan_string r with
        | Some (raw, t) => Ok (JStr (unescape raw), t)
        | None => Err
        end
      else if c =? 116 then
        match strip_prefix [114; 117; 101] r with Some t => Ok (JBool true, t) | None => Err end
      else if c =? 102 then
        match strip_prefix [97; 108; 115; 101] r with Some t => Ok (JBool false, t) | None => Err end
      else if c =? 110 then
        match strip_prefix [117; 108; 108] r with Some t => Ok (JNull, t) | None => Err end
      else
        match scan_number (c :: r) with
        | Some (lit, t) => Ok (JFlt lit, t)
        | None => Err
        end
    end
  end.

Definition fuel_for (s : bytes) : nat := S (length s).

(* json.Unmarshal / json.Valid: exactly one document *)
Definition parse_single_res (s : bytes) : res json :=
  match parse_value (fuel_for s) s with
  | Ok (v, t) => if all_ws t then Ok v else Err
  | Err => Err
  | OutOfFuel => OutOfFuel
  end.
Definition parse_single (s : bytes) : option json :=
  match parse_single_res s with Ok v => Some v | _ => None end.

(* json.Decoder: Decode until io.EOF *)
Definition is_scalar (j : json) : bool := match j with JArr _ | JObj _ => false | _ => true end.

Fixpoint parse_stream_n (n : nat) (s : bytes) : res (list json) :=
  match n with
  | O => OutOfFuel
  | S n' =>
    match skip_ws s with
    | [] => Ok []
    | _ :: _ =>
      match parse_value (fuel_for s) s with
      | Ok (v, t) =>
          match parse_stream_n n' t with
          | Ok vs => Ok (v :: vs)
          | Err => Err
          | OutOfFuel => OutOfFuel
          end
      | Err => Err
      | OutOfFuel => OutOfFuel
      end
    end
  end.
Definition parse_stream_res (s : bytes) : res (list json) := parse_stream_n (fuel_for s) s.
Definition parse_stream (s : bytes) : option (list json) :=
  match parse_stream_res s with Ok l => Some l | _ => None end.

(* the first document of a stream and what follows it (one Decoder.Decode call) *)
Definition parse_first (s : bytes) : option (json * bytes) :=
  match parse_value (fuel_for s) s with
  | Ok (v, t) => Some (v, t)
  | _ => None
  end.

(* ---------- printer ---------- *)
Definition hex_digit (n : N) : N := if n <? 10 then 48 + n else 87 + n.
Definition print_char (c : N) : bytes :=
  if c =? 34 then [92; 34]
  else if c =? 92 then [92; 92]
  else if c <? 32 then [92; 117; 48; 48; hex_digit (c / 16); hex_digit (c mod 16)]
  else [c].
Fixpoint print_string_body (s : bytes) : bytes :=
  match s with
  | [] => []
  | c :: r => print_char c ++ print_string_body r
  end.
Definition print_string (s : bytes) : bytes := 34 :: print_string_body s ++ [34].

Fixpoint sep_concat (sep : N) (l : list bytes) : bytes :=
  match l with
  | [] => []
  | x :: r => match r with [] => x | _ :: _ => x ++ sep :: sep_concat sep r end
  end.

Fixpoint uint_bytes (d : Decimal.uint) : bytes :=
  match d with
  | Decimal.Nil => []
  | Decimal.D0 r => 48 :: uint_bytes r | Decimal.D1 r => 49 :: uint_bytes r
  | Decimal.D2 r => 50 :: uint_bytes r | Decimal.D3 r => 51 :: uint_bytes r
  | Decimal.D4 r => 52 :: uint_bytes r | Decimal.D5 r => 53 :: uint_bytes r
  | Decimal.D6 r => 54 :: uint_bytes r | Decimal.D7 r => 55 :: uint_bytes r
  | Decimal.D8 r => 56 :: uint_bytes r | Decimal.D9 r => 57 :: uint_bytes r
  end.
Definition print_Z (z : Z) : bytes :=
  (if (z <? 0)%Z then [45] else []) ++ uint_bytes (N.to_uint (Z.abs_N z)).

Fixpoint print_value (j : json) : bytes :=
  match j with
  | JNull => [110; 117; 108; 108]
  | JBool true => [116; 114; 117; 101]
  | JBool false => [102; 97; 108; 115; 101]
  | JNum z => print_Z z
  | JFlt t => t
  | JStr s => print_string s
  | JArr l => 91 :: sep_concat 44 (map print_value l) ++ [93]
  | JObj m => 123 :: sep_concat 44 (map (fun kv => print_string (fst kv) ++ 58 :: print_value (snd kv)) m) ++ [125]
  end.

(* one document of a stream: the value and a line feed *)
Definition print_doc (j : json) : bytes := print_value j ++ [10].
Definition print_docs (js : list json) : bytes := concat (map print_doc js).

(* values the reader can produce and the printer gives back: numbers are literals *)
Fixpoint wf_json (j : json) : bool :=
  match j with
  | JNum _ => false
  | JFlt t => is_number t
  | JArr l => forallb wf_json l
  | JObj m => forallb (fun kv => wf_json (snd kv)) m
  | _ => true
  end.

(* integer literals as [JNum] (no theorem uses it) *)
Fixpoint digits_val (acc : N) (s : bytes) : option N :=
  match s with
  | [] => Some acc
  | c :: r => if is_digit c then digits_val (acc * 10 + (c - 48)) r else None
  end.
Definition int_of_literal (lit : bytes) : option Z :=
  match lit with
  | c :: r => if c =? 45 then match r with [] => None | _ => option_map (fun n => Z.opp (Z.of_N n)) (digits_val 0 r) end
              else option_map Z.of_N (digits_val 0 lit)
  | [] => None
  end.
Fixpoint norm_ints (j : json) : json :=
  match j with
  | JFlt t => match int_of_literal t with Some z => JNum z | None => j end
  | JArr l => JArr (map norm_ints l)
  | JObj m => JObj (map (fun kv => (fst kv, norm_ints (snd kv))) m)
  | _ => j
  end.
