(* C16_Corr.v — correspondence vocabulary for C16: a case is a history of batches
   (hook, operations as written) with, after each batch, whether SendBatch failed and
   the canonicalised Gather().  `judged` is false for the informational stream of
   out-of-domain histories (never judged).  Evaluated by vm_compute. *)
From Verif Require Import Common C16_Model C16_Spec.
Local Open Scope N_scope.

Definition case := (bool * list batch * obs)%type.     (* judged?, input, implementation's observations *)

Definition c_judged (c : case) : bool := fst (fst c).
Definition c_input (c : case) : list batch := snd (fst c).
Definition c_obs (c : case) : obs := snd c.

Definition model_obs (c : case) : obs := run (c_input c).

Definition step_eqb (a b : bool * list series) : bool :=
  Bool.eqb (fst a) (fst b) && same_series (snd a) (snd b)
  && Nat.eqb (length (snd a)) (length (snd b)).

(* Go processes the groups of a batch in the order of a map iteration, and on an F5a
   collision the outcome depends on that order.  So the implementation's observations
   are JUDGED: they must be what the model produces for SOME order of the groups in
   every batch.  The set of model states compatible with the observations so far is
   carried along (states with the same registry content, groups included, are merged). *)
Fixpoint insert_all (x : N) (l : list N) : list (list N) :=
  match l with
  | [] => [[x]]
  | y :: r => (x :: l) :: map (cons y) (insert_all x r)
  end.
Fixpoint perms (l : list N) : list (list N) :=
  match l with
  | [] => [[]]
  | x :: r => flat_map (insert_all x) (perms r)
  end.

Definition gseries (st : state) : list series :=
  flat_map (fun nc => map (fun row => (snd (snd row) + 100 * kind_code (c_kind (snd nc)), fst nc,
                                       shown_labels (c_names (snd nc)) (fst row), (fst (snd row), @nil N)))
                          (c_rows (snd nc))) (st_vault st)
  ++ flat_map (gather_vec KCounter) (st_counters st)
  ++ flat_map (gather_vec KGauge) (st_gauges st)
  ++ flat_map (gather_vec KHistogram) (st_histograms st).
Definition state_sim (a b : state) : bool := same_series (gseries a) (gseries b).
Definition add_state (s : state) (l : list state) : list state :=
  if existsb (state_sim s) l then l else s :: l.

Definition hook_batch_any (st : state) (hook : N) (written : list op) : list (state * bool) :=
  let ops := map shortcut written in
  map (fun gs => send_batch_ordered gs st hook ops) (perms (groups_of ops [])).

Fixpoint agrees_from (sts : list state) (bs : list batch) (os : obs) : bool :=
  match bs, os with
  | [], [] => true
  | (h, ops) :: bs', o :: os' =>
      let next := fold_left (fun acc st =>
                    fold_left (fun acc2 r => if step_eqb (snd r, gather (fst r)) o then add_state (fst r) acc2 else acc2)
                              (hook_batch_any st h ops) acc) sts [] in
      match next with
      | [] => false
      | _ => agrees_from next bs' os'
      end
  | _, _ => false
  end.
Definition agrees (c : case) : bool := agrees_from [init_state] (c_input c) (c_obs c).

(* a judged case must be in the domain (the harness's generator claims it is) *)
Definition mismatches (cs : list case) : list N :=
  indices_where (fun c => if c_judged c then negb (if in_domain (c_input c) then agrees c else false) else false) cs.
Definition spec_violations (cs : list case) : list N :=
  indices_where (fun c => if c_judged c then negb (P (c_input c) (c_obs c)) else false) cs.
Definition trigger_F5a (cs : list case) : list N := indices_where (fun c => T_F5a (c_input c)) cs.
