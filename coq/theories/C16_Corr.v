(* C16_Corr.v — correspondence vocabulary for C16: a case is a history of batches
   (hook, operations as written) with, after each batch, whether SendBatch failed and
   the canonicalised Gather().  `judged` is false for the informational stream of
   out-of-domain histories (never judged).  Evaluated by vm_compute. *)
From Verif Require Import Common C16_Model C16_Spec.
Local Open Scope N_scope.

Definition case := (bool * list batch * obs)%type.     (* judged?, input, implementation's observations *)

Definition c_judged (c : case) : bool := fst (fst c).
Definition c_input (c : case) : list batch := snd (fst c).
Definition c_obs (c : case) : obs := snd c.

Definition model_obs (c : case) : obs := run (c_input c).

Definition step_eqb (a b : bool * list series) : bool :=
  Bool.eqb (fst a) (fst b) && same_series (snd a) (snd b)
  && Nat.eqb (length (snd a)) (length (snd b)).
Definition agrees (c : case) : bool := list_eqb step_eqb (model_obs c) (c_obs c).

(* a judged case must be in the domain (the harness's generator claims it is) *)
Definition mismatches (cs : list case) : list N :=
  indices_where (fun c => c_judged c && negb (in_domain (c_input c) && agrees c)) cs.
Definition spec_violations (cs : list case) : list N :=
  indices_where (fun c => c_judged c && negb (P (c_input c) (c_obs c))) cs.
Definition trigger_F5a (cs : list case) : list N := indices_where (fun c => T_F5a (c_input c)) cs.
