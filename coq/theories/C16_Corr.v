(* C16_Corr.v — correspondence vocabulary for C16: a case is a history of batches
   (hook, operations as written) with, after each batch, whether SendBatch failed and
   the canonicalised Gather(); optionally followed by a ROUND of batches handed in at the
   same time by one goroutine each (observed when all have returned: failure flags and
   Gather()) and by batches one after the other again.  `judged` is false for the informational stream of
   out-of-domain histories (never judged).  Evaluated by vm_compute. *)
From Verif Require Import Common C16_Model C16_Spec.
Local Open Scope N_scope.

(* judged?, history, implementation's observations after each batch of it, then the round of
   concurrent batches ([] = none) with the observation made when all of them had returned *)
Definition case := (bool * list batch * obs * (list batch * cobs) * (list batch * obs))%type.

Definition c_judged (c : case) : bool := fst (fst (fst (fst c))).
Definition c_input (c : case) : list batch := snd (fst (fst (fst c))).
Definition c_obs (c : case) : obs := snd (fst (fst c)).
Definition c_round (c : case) : list batch := fst (snd (fst c)).
Definition c_cobs (c : case) : cobs := snd (snd (fst c)).
Definition c_after (c : case) : list batch := fst (snd c).         (* batches one after the other after the round *)
Definition c_aobs (c : case) : obs := snd (snd c).

(* the model's observation with the round taken in the order it is listed *)
Definition model_obs (c : case) : obs * cobs * obs :=
  (run (c_input c), conc_run (c_input c) (c_round c) (c_round c), after_run (c_input c) (c_round c) (c_after c)).

Definition step_eqb (a b : bool * list series) : bool :=
  Bool.eqb (fst a) (fst b) && same_series (snd a) (snd b)
  && Nat.eqb (length (snd a)) (length (snd b)).

(* Go processes the groups of a batch in the order of a map iteration, and on an F5a
   collision the outcome depends on that order.  So the implementation's observations
   are JUDGED: they must be what the model produces for SOME order of the groups in
   every batch.  The set of model states compatible with the observations so far is
   carried along (states with the same registry content, groups included, are merged). *)
Fixpoint insert_all (x : N) (l : list N) : list (list N) :=
  match l with
  | [] => [[x]]
  | y :: r => (x :: l) :: map (cons y) (insert_all x r)
  end.
Fixpoint perms (l : list N) : list (list N) :=
  match l with
  | [] => [[]]
  | x :: r => flat_map (insert_all x) (perms r)
  end.

Definition gseries (st : state) : list series :=
  flat_map (fun nc => map (fun row => (snd (snd row) + 100 * kind_code (c_kind (snd nc)), fst nc,
                                       shown_labels (c_names (snd nc)) (fst row), (fst (snd row), @nil N)))
                          (c_rows (snd nc))) (st_vault st)
  ++ flat_map (gather_vec KCounter) (st_counters st)
  ++ flat_map (gather_vec KGauge) (st_gauges st)
  ++ flat_map (gather_vec KHistogram) (st_histograms st).
Definition state_sim (a b : state) : bool := same_series (gseries a) (gseries b).
Definition add_state (s : state) (l : list state) : list state :=
  if existsb (state_sim s) l then l else s :: l.

Definition hook_batch_any (st : state) (hook : N) (written : list op) : list (state * bool) :=
  let ops := map shortcut written in
  map (fun gs => send_batch_ordered gs st hook ops) (perms (groups_of ops [])).

Fixpoint agrees_from (sts : list state) (bs : list batch) (os : obs) : bool :=
  match bs, os with
  | [], [] => true
  | (h, ops) :: bs', o :: os' =>
      let next := fold_left (fun acc st =>
                    fold_left (fun acc2 r => if step_eqb (snd r, gather (fst r)) o then add_state (fst r) acc2 else acc2)
                              (hook_batch_any st h ops) acc) sts [] in
      match next with
      | [] => false
      | _ => agrees_from next bs' os'
      end
  | _, _ => false
  end.

(* the same walk, returning the model states compatible with the observations ([] = none) *)
Definition step_states (sts : list state) (h : N) (ops : list op) (ok : state * bool -> bool) : list state :=
  fold_left (fun acc st =>
    fold_left (fun acc2 r => if ok r then add_state (fst r) acc2 else acc2) (hook_batch_any st h ops) acc) sts [].
Fixpoint states_after (sts : list state) (bs : list batch) (os : obs) : list state :=
  match bs, os with
  | [], [] => sts
  | (h, ops) :: bs', o :: os' =>
      states_after (step_states sts h ops (fun r => step_eqb (snd r, gather (fst r)) o)) bs' os'
  | _, _ => []
  end.

(* the round: the implementation's observation must be what the model produces when the
   round's batches are taken as atomic steps in SOME order (and, as before, some order of
   the groups inside each batch); only the failure flags are seen on the way, Gather at the end *)
Fixpoint conc_states (sts : list state) (il : list (batch * bool)) : list state :=
  match il with
  | [] => sts
  | ((h, ops), f) :: r => conc_states (step_states sts h ops (fun x => Bool.eqb (snd x) f)) r
  end.
Definition agrees_conc (sts : list state) (round : list batch) (co : cobs) (after : list batch) (aos : obs) : bool :=
  Nat.eqb (length (fst co)) (length round)
  && existsb (fun il =>
       match filter (fun st => same_series (gather st) (snd co) && Nat.eqb (length (gather st)) (length (snd co)))
                    (conc_states sts il) with
       | [] => false
       | sts' => agrees_from sts' after aos
       end)
     (lperms (combine round (fst co))).

Definition agrees (c : case) : bool :=
  agrees_from [init_state] (c_input c) (c_obs c)
  && match c_round c, c_after c with
     | [], [] => true
     | [], _ => false
     | _, _ => agrees_conc (states_after [init_state] (c_input c) (c_obs c)) (c_round c) (c_cobs c) (c_after c) (c_aobs c)
     end.

(* a judged case must be in the domain (the harness's generator claims it is) *)
Definition mismatches (cs : list case) : list N :=
  indices_where (fun c => if c_judged c then negb (if in_domain_case (c_input c) (c_round c) (c_after c) then agrees c else false) else false) cs.
Definition spec_violations (cs : list case) : list N :=
  indices_where (fun c => if c_judged c then negb (P_case (c_input c) (c_obs c) (c_round c) (c_cobs c) (c_after c) (c_aobs c)) else false) cs.
Definition trigger_F5a (cs : list case) : list N := indices_where (fun c => T_F5a_case (c_input c) (c_round c) (c_after c)) cs.
