(* C14_CtxProofs.v — proofs about C14_CtxModel: what the hook of an admission request is shown. *)
From Verif Require Import Common C14_Model C14_Spec C14_Proofs C14_CtxModel C14_CtxSpec.

Definition rt_of (t : btype) : rtype := match t with Validating => RtValidating | Mutating => RtMutating end.

(* MapV1 on an admission context: whatever the group, the included snapshots and the snapshot map *)
Lemma map_v1_admission t inc all g name snaps rv :
  map_v1 (mkBC (of_btype t) inc all g name snaps rv)
  = mkR name (rt_of t) (if nonempty inc || all then Some snaps else None) None rv.
Proof. destruct t; reflexivity. Qed.

Lemma update_snapshots_fields cfg bc :
  bc_btype (update_snapshots cfg bc) = bc_btype bc /\ bc_include (update_snapshots cfg bc) = bc_include bc
  /\ bc_all (update_snapshots cfg bc) = bc_all bc /\ bc_group (update_snapshots cfg bc) = bc_group bc
  /\ bc_binding (update_snapshots cfg bc) = bc_binding bc /\ bc_review (update_snapshots cfg bc) = bc_review bc.
Proof. unfold update_snapshots. destruct (ph_kube cfg); cbn; repeat split. Qed.

Lemma handle_event_fields cfg t name uid :
  bc_btype (handle_event cfg t name uid) = of_btype t /\ bc_binding (handle_event cfg t name uid) = name
  /\ bc_review (handle_event cfg t name uid) = Some uid /\ bc_all (handle_event cfg t name uid) = false.
Proof. unfold handle_event. destruct (link_binding cfg t (webhook_id name)); cbn; repeat split. Qed.

Lemma bctx_eta bc : bc = mkBC (bc_btype bc) (bc_include bc) (bc_all bc) (bc_group bc) (bc_binding bc) (bc_snapshots bc) (bc_review bc).
Proof. destruct bc; reflexivity. Qed.

(* the hook is shown the request, under the link's binding name and type, never as a group *)
Lemma hook_receives_shape hooks h t name uid :
  let x := hook_receives hooks (h, (t, name)) uid in
  r_type x = rt_of t /\ r_binding x = name /\ r_review x = Some uid /\ r_group x = None.
Proof.
  unfold hook_receives. cbn [fst snd].
  set (cfg := nth (N.to_nat h) hooks no_phook).
  set (bc := update_snapshots cfg (handle_event cfg t name uid)).
  destruct (update_snapshots_fields cfg (handle_event cfg t name uid)) as (Ht & _ & _ & _ & Hb & Hr).
  destruct (handle_event_fields cfg t name uid) as (Ht' & Hb' & Hr' & _).
  fold bc in Ht, Hb, Hr. rewrite (bctx_eta bc), Ht, Ht', map_v1_admission. cbn [r_type r_binding r_review r_group].
  rewrite Hb, Hb', Hr, Hr'. repeat split.
Qed.

Lemma sees_own_request hooks w uid : sees_request (hook_receives hooks w uid) uid = true.
Proof.
  destruct w as [h [t name]]. destruct (hook_receives_shape hooks h t name uid) as (Ht & _ & Hr & _).
  unfold sees_request. rewrite Ht, Hr, N.eqb_refl. destruct t; reflexivity.
Qed.

Lemma snd_admit_request hs path uid r : snd (admit_request hs path (BReview uid) r) = route hs path.
Proof.
  unfold admit_request, admit_review, route. destruct (detect path) as [conf id].
  destruct (find_task hs conf id) as [[h l]|]; reflexivity.
Qed.

Definition shown_of (hooks : list phook) (path : bytes) (b : body) : option rendered :=
  match b with
  | BReview uid => option_map (fun w => hook_receives hooks w uid) (route (map strip hooks) path)
  | _ => None
  end.

(* the verdict relayed is the verdict on the request: the exchange is the one of C14_Model with the
   scripted run, whatever parameters the bindings carry *)
Theorem ctx_request_eq hooks path b r :
  ctx_request hooks path b r
  = (admit_request (map strip hooks) path b r, admit_effects (map strip hooks) path b r, shown_of hooks path b).
Proof.
  unfold ctx_request, shown_of. destruct b as [uid| | |]; try reflexivity.
  destruct (route (map strip hooks) path) as [w|]; [|reflexivity].
  unfold effective_run. rewrite sees_own_request. reflexivity.
Qed.

Lemma who_of_ctx hooks path b r :
  c_who (ctx_request hooks path b r) = match b with BReview _ => route (map strip hooks) path | _ => None end.
Proof.
  rewrite ctx_request_eq. unfold c_who. cbn [fst snd].
  destruct b as [uid| | |]; try reflexivity. apply snd_admit_request.
Qed.

Theorem handed_holds hooks path b r :
  handed b (c_who (ctx_request hooks path b r)) (c_shown (ctx_request hooks path b r)) = true.
Proof.
  rewrite who_of_ctx, ctx_request_eq. unfold c_shown, shown_of. cbn [snd].
  destruct b as [uid| | |]; try reflexivity.
  destruct (route (map strip hooks) path) as [[h [t name]]|]; [|reflexivity].
  cbn [option_map handed]. destruct (hook_receives_shape hooks h t name uid) as (Ht & Hb & Hr & Hg).
  rewrite Ht, Hb, Hr, Hg, N.eqb_refl.
  assert (bytes_eqb name name = true) as -> by (apply bytes_eqb_eq; reflexivity).
  destruct t; reflexivity.
Qed.

(* ---- snapshots *)

Lemma fresh_of_In k l : forall seen, In k (fresh_of seen l) -> In k l.
Proof.
  induction l as [|x l IH]; intros seen Hk; [exact Hk|]. cbn [fresh_of] in Hk.
  destruct (mem_N x seen).
  - right. exact (IH _ Hk).
  - destruct Hk as [<-|Hk]; [now left | right; exact (IH _ Hk)].
Qed.

Lemma group_snapshots_In k kube g : In k (group_snapshots kube g) -> In k (map fst kube).
Proof.
  unfold group_snapshots. intros Hk. apply in_map_iff in Hk. destruct Hk as (kb & <- & Hkb).
  apply filter_In in Hkb. apply in_map. exact (proj1 Hkb).
Qed.

Lemma loaded_include_sound cfg pb :
  (forall k, In k (pb_include pb) -> In k (kube_names cfg)) ->
  forall k, In k (loaded_include cfg pb) -> In k (kube_names cfg).
Proof.
  intros Hinc k Hk. unfold loaded_include in Hk. destruct (pb_group pb) as [g|]; [|exact (Hinc k Hk)].
  destruct (group_snapshots (ph_kube cfg) g) as [|s l] eqn:Eg; [exact (Hinc k Hk)|].
  unfold merge_arrays in Hk. apply in_app_or in Hk. destruct Hk as [Hk|Hk]; [exact (Hinc k Hk)|].
  apply fresh_of_In in Hk. rewrite <- Eg in Hk. exact (group_snapshots_In k _ g Hk).
Qed.

Definition cfg_ok (cfg : phook) : Prop :=
  forall pb, In pb (ph_val cfg ++ ph_mut cfg) -> forall k, In k (pb_include pb) -> In k (kube_names cfg).

Lemma get_include_from_sound cfg t name : cfg_ok cfg ->
  forall k, In k (get_include_from cfg (of_btype t) name) -> In k (kube_names cfg).
Proof.
  intros Hok k Hk. unfold get_include_from in Hk.
  destruct t; cbn [of_btype] in Hk.
  - destruct (find _ (ph_val cfg)) as [pb|] eqn:Ef; [|destruct Hk].
    apply find_some in Ef. apply (loaded_include_sound cfg pb); [|exact Hk].
    apply Hok. apply in_or_app. left. exact (proj1 Ef).
  - destruct (find _ (ph_mut cfg)) as [pb|] eqn:Ef; [|destruct Hk].
    apply find_some in Ef. apply (loaded_include_sound cfg pb); [|exact Hk].
    apply Hok. apply in_or_app. right. exact (proj1 Ef).
Qed.

Lemma nth_cfg_ok hooks n : includes_ok hooks -> cfg_ok (nth n hooks no_phook).
Proof.
  intros Hok. destruct (nth_in_or_default n hooks no_phook) as [Hin| ->].
  - exact (Hok _ Hin).
  - intros pb Hpb. destruct Hpb.
Qed.

Lemma snapshots_of_receives hooks h t name uid keys : includes_ok hooks ->
  r_snapshots (hook_receives hooks (h, (t, name)) uid) = Some keys ->
  forall k, In k keys -> In k (kube_names (nth (N.to_nat h) hooks no_phook)).
Proof.
  intros Hok. unfold hook_receives. cbn [fst snd].
  set (cfg := nth (N.to_nat h) hooks no_phook).
  assert (cfg_ok cfg) as Hcfg by (apply nth_cfg_ok; exact Hok).
  destruct (handle_event_fields cfg t name uid) as (Ht' & Hb' & _ & _).
  unfold update_snapshots. destruct (ph_kube cfg) as [|kb kube] eqn:Ek.
  - rewrite (bctx_eta (handle_event cfg t name uid)), Ht', map_v1_admission. cbn [r_snapshots].
    assert (bc_snapshots (handle_event cfg t name uid) = []) as ->.
    { unfold handle_event. destruct (link_binding cfg t (webhook_id name)); reflexivity. }
    destruct (_ || _); intros E; inversion E; subst. intros k [].
  - rewrite Ht', Hb', map_v1_admission. cbn [r_snapshots].
    destruct (_ || _); intros E; inversion E; subst.
    intros k Hk. exact (get_include_from_sound cfg t name Hcfg k Hk).
Qed.

Theorem snapshots_sound_holds hooks path b r : includes_ok hooks ->
  snapshots_sound hooks (c_who (ctx_request hooks path b r)) (c_shown (ctx_request hooks path b r)) = true.
Proof.
  intros Hok. rewrite who_of_ctx, ctx_request_eq. unfold c_shown, shown_of. cbn [snd].
  destruct b as [uid| | |]; try reflexivity.
  destruct (route (map strip hooks) path) as [[h [t name]]|]; [|reflexivity].
  cbn [option_map snapshots_sound].
  destruct (r_snapshots _) as [keys|] eqn:Es; [|reflexivity].
  apply forallb_forall. intros k Hk. apply mem_N_In.
  exact (snapshots_of_receives hooks h t name uid keys Hok Es k Hk).
Qed.

Theorem P_ctx_holds hooks path b r : names_ok (map strip hooks) -> includes_ok hooks ->
  P_ctx hooks (model_regs (map strip hooks)) path b r
        (c_ans (ctx_request hooks path b r)) (c_who (ctx_request hooks path b r)) (c_shown (ctx_request hooks path b r)) = true.
Proof.
  intros Hn Hi. unfold P_ctx. rewrite handed_holds, (snapshots_sound_holds hooks path b r Hi).
  rewrite ctx_request_eq. unfold c_ans, c_who. cbn [fst snd].
  rewrite (P_holds (map strip hooks) path b r Hn). reflexivity.
Qed.

(* the parameters of a binding change nothing but the "snapshots" field of what its hook is shown *)
Theorem shown_modulo_snapshots hooks hooks' path b :
  map strip hooks = map strip hooks' ->
  option_map (fun x => (r_binding x, r_type x, r_group x, r_review x)) (shown_of hooks path b)
  = option_map (fun x => (r_binding x, r_type x, r_group x, r_review x)) (shown_of hooks' path b).
Proof.
  intros E. unfold shown_of. destruct b as [uid| | |]; try reflexivity. rewrite <- E.
  destruct (route (map strip hooks) path) as [[h [t name]]|]; [|reflexivity]. cbn [option_map].
  destruct (hook_receives_shape hooks h t name uid) as (Ht & Hb & Hr & Hg).
  destruct (hook_receives_shape hooks' h t name uid) as (Ht' & Hb' & Hr' & Hg').
  rewrite Ht, Hb, Hr, Hg, Ht', Hb', Hr', Hg'. reflexivity.
Qed.
