(* C02_WinProofs.v — whatever happens between LIST #1 and LIST #2, and afterwards, the snapshot
   at quiescence shows exactly the matching objects of the final cluster in their current state
   (T_wghost = false).  Per key (namespace, name): the cache of the informer whose scope holds
   the key and the cluster restricted to that scope agree on the key after LIST #2 - or the
   first later change of that key makes them agree - and every delivered change keeps them so. *)
From Verif Require Import Common C02_Model C02_Spec C02_Proofs C02_Win C02_WinSpec.
From Coq Require Import Permutation.
Open Scope N_scope.

Lemma same_key_scope s a b : same_key a b = true -> in_scope s a = in_scope s b.
Proof.
  intros H. apply same_key_iff in H. unfold key in H. injection H as H1 H2.
  rewrite !in_scope_split. now rewrite H1, H2.
Qed.

Lemma same_key_key a o x : key o = key x -> same_key a o = same_key a x.
Proof. unfold key, same_key. intros H. injection H as H1 H2. now rewrite H1, H2. Qed.

Lemma existsb_ext' {A} (f g : A -> bool) : (forall a, f a = g a) -> forall l, existsb f l = existsb g l.
Proof. intros H. induction l as [|x r IH]; [reflexivity|]. simpl. now rewrite H, IH. Qed.

Lemma forallb_ext' {A} (f g : A -> bool) : (forall a, f a = g a) -> forall l, forallb f l = forallb g l.
Proof. intros H. induction l as [|x r IH]; [reflexivity|]. simpl. now rewrite H, IH. Qed.

Lemma same_key_false a b : same_key a b = false -> key a <> key b.
Proof. intros H K. apply same_key_iff in K. congruence. Qed.

(* ---- membership after one change ---- *)
Lemma cl_set_in o c : keys_distinct c -> forall x, In x (cl_set o c) <-> x = o \/ (In x c /\ key x <> key o).
Proof.
  unfold keys_distinct. induction c as [|y r IH]; intros H x; simpl.
  - split; [intros [E|[]]; left; now symmetry | intros [->|[[] _]]; now left].
  - inversion H as [|? ? Hn Hr]; subst. destruct (same_key y o) eqn:E.
    + apply same_key_iff in E. simpl. split.
      * intros [<-|Hx]; [now left|]. right. split; [now right|].
        intros K. apply Hn. rewrite E, <- K. now apply in_map.
      * intros [->|[[->|Hx] K]]; [now left | congruence | now right].
    + apply same_key_false in E. simpl. rewrite (IH Hr x). split.
      * intros [<-|[->|[Hx K]]]; [right; split; [now left | exact E] | now left | right; split; [now right | exact K]].
      * intros [->|[[<-|Hx] K]]; [right; now left | now left | right; right; split; assumption].
Qed.

Lemma cl_del_in o c : keys_distinct c -> forall x, In x (cl_del o c) <-> In x c /\ key x <> key o.
Proof.
  unfold keys_distinct. induction c as [|y r IH]; intros H x; simpl.
  - split; [intros [] | intros [[] _]].
  - inversion H as [|? ? Hn Hr]; subst. destruct (same_key y o) eqn:E.
    + apply same_key_iff in E. split.
      * intros Hx. split; [now right|]. intros K. apply Hn. rewrite E, <- K. now apply in_map.
      * intros [[<-|Hx] K]; [congruence | exact Hx].
    + apply same_key_false in E. simpl. rewrite (IH Hr x). split.
      * intros [<-|[Hx K]]; [split; [now left | exact E] | split; [now right | exact K]].
      * intros [[<-|Hx] K]; [now left | right; split; assumption].
Qed.

Lemma cl_apply_keys op c : keys_distinct c -> keys_distinct (cl_apply c op).
Proof.
  intros H. unfold cl_apply. destruct (fst op); [apply cl_set_keys | apply cl_set_keys | apply cl_del_keys]; exact H.
Qed.

Lemma fold_apply_keys : forall ops c, keys_distinct c -> keys_distinct (fold_left cl_apply ops c).
Proof. induction ops as [|op r IH]; intros c H; [exact H|]. simpl. apply IH, cl_apply_keys, H. Qed.

Lemma cl_apply_in op c : keys_distinct c -> forall x,
  In x (cl_apply c op) <->
  match fst op with
  | ODelete => In x c /\ key x <> key (snd op)
  | _ => x = snd op \/ (In x c /\ key x <> key (snd op))
  end.
Proof.
  intros H x. unfold cl_apply. destruct (fst op); [apply cl_set_in | apply cl_set_in | apply cl_del_in]; exact H.
Qed.

(* ---- agreement on one key ---- *)
Definition agree (k : N * N) (A B : list obj) : Prop := forall x, key x = k -> (In x A <-> In x B).
Definition touches (k : N * N) (op : okind * obj) : Prop := key (snd op) = k.

Lemma apply_agree k op A B : keys_distinct A -> keys_distinct B ->
  agree k A B -> agree k (cl_apply A op) (cl_apply B op).
Proof.
  intros KA KB H x Kx. rewrite (cl_apply_in op A KA), (cl_apply_in op B KB). specialize (H x Kx).
  destruct (fst op); tauto.
Qed.

Lemma apply_touch k op A B : keys_distinct A -> keys_distinct B ->
  touches k op -> agree k (cl_apply A op) (cl_apply B op).
Proof.
  intros KA KB T x Kx. rewrite (cl_apply_in op A KA), (cl_apply_in op B KB).
  unfold touches in T. assert (E : key x = key (snd op)) by congruence.
  destruct (fst op); tauto.
Qed.

Lemma fold_agree k : forall ops A B, keys_distinct A -> keys_distinct B ->
  agree k A B \/ Exists (touches k) ops ->
  agree k (fold_left cl_apply ops A) (fold_left cl_apply ops B).
Proof.
  induction ops as [|op r IH]; intros A B KA KB H; simpl.
  - destruct H as [H|H]; [exact H | inversion H].
  - apply IH; [now apply cl_apply_keys | now apply cl_apply_keys |].
    destruct H as [H|H]; [left; now apply apply_agree|].
    inversion H as [? ? T|? ? T]; subst; [left; now apply apply_touch | now right].
Qed.

(* ---- the restriction to a scope commutes with the changes ---- *)
Lemma filter_cl_set s o : forall c,
  filter (in_scope s) (cl_set o c) = if in_scope s o then cl_set o (filter (in_scope s) c) else filter (in_scope s) c.
Proof.
  induction c as [|y r IH]; simpl.
  - destruct (in_scope s o); reflexivity.
  - destruct (same_key y o) eqn:E.
    + rewrite (same_key_scope s y o E). simpl. destruct (in_scope s o); [simpl; now rewrite E | reflexivity].
    + simpl. rewrite IH. destruct (in_scope s y), (in_scope s o); simpl; rewrite ?E; reflexivity.
Qed.

Lemma filter_cl_del s o : forall c,
  filter (in_scope s) (cl_del o c) = if in_scope s o then cl_del o (filter (in_scope s) c) else filter (in_scope s) c.
Proof.
  induction c as [|y r IH]; simpl.
  - destruct (in_scope s o); reflexivity.
  - destruct (same_key y o) eqn:E.
    + rewrite (same_key_scope s y o E). destruct (in_scope s o); [simpl; now rewrite E | reflexivity].
    + simpl. rewrite IH. destruct (in_scope s y), (in_scope s o); simpl; rewrite ?E; reflexivity.
Qed.

Lemma filter_cl_apply s op c :
  filter (in_scope s) (cl_apply c op)
  = if in_scope s (snd op) then cl_apply (filter (in_scope s) c) op else filter (in_scope s) c.
Proof.
  unfold cl_apply. destruct (fst op); [apply filter_cl_set | apply filter_cl_set | apply filter_cl_del].
Qed.

Lemma filter_fold s : forall ops c,
  filter (in_scope s) (fold_left cl_apply ops c) = watch s ops (filter (in_scope s) c).
Proof.
  unfold watch. induction ops as [|op r IH]; intros c; [reflexivity|]. simpl. rewrite IH, filter_cl_apply.
  destruct (in_scope s (snd op)); reflexivity.
Qed.

(* ---- the informer's initial list ---- *)
Lemma fold_set_in : forall l c, keys_distinct l -> keys_distinct c ->
  keys_distinct (fold_left (fun c o => cl_set o c) l c) /\
  forall x, In x (fold_left (fun c o => cl_set o c) l c) <-> In x l \/ (In x c /\ ~ In (key x) (map key l)).
Proof.
  induction l as [|o r IH]; intros c KL KC; simpl.
  - split; [exact KC | intros x; tauto].
  - destruct (cl_set_keys o c KC) as [K1 _]. inversion KL as [|? ? Hn Hr]; subst.
    destruct (IH (cl_set o c) Hr K1) as [I1 I2]. split; [exact I1|].
    intros x. rewrite I2, (cl_set_in o c KC). split.
    + intros [Hx|[[->|[Hx K]] Hn']]; [left; now right | left; now left |].
      right. split; [exact Hx|]. intros [E|E]; [apply K; now symmetry | contradiction].
    + intros [[<-|Hx]|[Hx Hn']]; [right; split; [now left | exact Hn] | now left |].
      right. split; [right; split; [exact Hx | intros K; apply Hn'; left; now symmetry] | intros E; apply Hn'; now right].
Qed.

(* every entry of a cache is in the informer's scope *)
Lemma fold_scope s : forall ops c, keys_distinct c ->
  (forall y, In y c -> in_scope s y = true) -> (forall op, In op ops -> in_scope s (snd op) = true) ->
  forall x, In x (fold_left cl_apply ops c) -> in_scope s x = true.
Proof.
  induction ops as [|op r IH]; intros c KC Hc Hops x Hx; [now apply Hc|]. simpl in Hx.
  apply (IH (cl_apply c op)) in Hx; [exact Hx | now apply cl_apply_keys | | intros op' H'; apply Hops; now right].
  intros y Hy. apply (cl_apply_in op c KC) in Hy.
  destruct (fst op); [destruct Hy as [->|[Hy _]] | destruct Hy as [->|[Hy _]] | destruct Hy as [Hy _]];
    try (now apply Hc); apply Hops; now left.
Qed.

(* ================================================================== one informer *)
Section OneInformer.
Variable i : win_in.
Variable s : option N * option N.

(* no ghost in this scope: an object of the scope listed by LIST #1 is listed by LIST #2, or
   something happens to its key afterwards *)
Hypothesis Hg : forall o, In o (w_cluster0 i) -> in_scope s o = true ->
  has_key o (w_cluster1 i) = true \/ existsb (fun op => same_key (snd op) o) (wi_after i) = true.

Lemma w_cluster0_keys : keys_distinct (w_cluster0 i).
Proof.
  unfold w_cluster0. apply fold_apply_keys.
  assert (G2 : forall l c, keys_distinct c -> keys_distinct (fold_left (fun c o => cl_set o c) l c)).
  { induction l as [|o r IH]; intros c H; [exact H|]. simpl. apply IH, cl_set_keys, H. }
  apply G2. constructor.
Qed.
Lemma w_cluster1_keys : keys_distinct (w_cluster1 i).
Proof. apply fold_apply_keys, w_cluster0_keys. Qed.
Lemma w_cluster2_keys : keys_distinct (w_cluster2 i).
Proof. apply fold_apply_keys, w_cluster1_keys. Qed.

Let c1 := initial_list s (w_cluster1 i) (load_existed s (w_cluster0 i)).

Lemma c1_spec : keys_distinct c1 /\
  forall x, In x c1 <-> In x (filter (in_scope s) (w_cluster1 i))
                        \/ (In x (filter (in_scope s) (w_cluster0 i)) /\ ~ In (key x) (map key (filter (in_scope s) (w_cluster1 i)))).
Proof.
  unfold c1, initial_list, load_existed. apply fold_set_in; apply filter_keys_distinct; [apply w_cluster1_keys | apply w_cluster0_keys].
Qed.

Lemma w_cache_keys : keys_distinct (w_cache i s).
Proof. unfold w_cache, watch. apply fold_apply_keys. fold c1. apply c1_spec. Qed.

Lemma w_cache_scope x : In x (w_cache i s) -> in_scope s x = true.
Proof.
  unfold w_cache, watch. fold c1. apply fold_scope.
  - apply c1_spec.
  - intros y Hy. apply c1_spec in Hy. destruct Hy as [Hy|[Hy _]]; apply filter_In in Hy; tauto.
  - intros op Hop. apply filter_In in Hop. tauto.
Qed.

Lemma w_cache_in x : In x (w_cache i s) <-> In x (w_cluster2 i) /\ in_scope s x = true.
Proof.
  rewrite <- filter_In. unfold w_cluster2. rewrite filter_fold.
  destruct (in_scope s x) eqn:Sx.
  2:{ split; intros H.
      - apply w_cache_scope in H. congruence.
      - rewrite <- filter_fold in H. apply filter_In in H. destruct H; congruence. }
  unfold w_cache. fold c1. unfold watch.
  apply (fold_agree (key x)); [apply c1_spec | apply filter_keys_distinct, w_cluster1_keys | | reflexivity].
  destruct (existsb (fun op => same_key (snd op) x) (wi_after i)) eqn:Tch.
  - right. apply existsb_exists in Tch as [op [Hop E]]. apply Exists_exists. exists op. split.
    + apply filter_In. split; [exact Hop|]. now rewrite (same_key_scope s _ _ E).
    + unfold touches. now apply same_key_iff.
  - left. intros y Ky. destruct c1_spec as [_ C]. rewrite C. split; [|now left].
    intros [Hy|[Hy Hn]]; [exact Hy|]. exfalso. apply filter_In in Hy as [Hy Sy].
    destruct (Hg y Hy Sy) as [H|H].
    + unfold has_key in H. apply existsb_exists in H as [z [Hz E]]. apply Hn.
      apply same_key_iff in E. rewrite E. apply in_map. apply filter_In. split; [exact Hz|].
      rewrite <- Sy. symmetry. apply same_key_scope. now apply same_key_iff.
    + rewrite (existsb_ext' _ (fun op => same_key (snd op) x)) in H; [congruence|].
      intros op. now apply same_key_key.
Qed.
End OneInformer.

(* ================================================================== the monitor *)
Lemma w_cluster2_final i : w_cluster2 i = final_cluster (w_base i).
Proof.
  unfold w_cluster2, w_cluster1, w_cluster0, final_cluster, w_base. cbn [si_ops si_initial].
  now rewrite !fold_left_app.
Qed.

Lemma wmatching_base i : w_scopes i = scopes (w_base i) -> forall o, wmatching i o = matching (w_base i) o.
Proof.
  intros H o. unfold wmatching, matching, w_base. cbn [si_namespaces si_names].
  unfold w_scopes in H. destruct (wi_dyn i); [|reflexivity].
  destruct (wi_nss i) as [|a r] eqn:E; [|reflexivity].
  exfalso. unfold scopes, w_base in H. cbn [si_namespaces si_names] in H. rewrite E in H. cbn [uniq] in H.
  destruct (match uniq (wi_names i) [] with [] => [None] | l => map Some l end) eqn:E2; [|discriminate H].
  destruct (uniq (wi_names i) []); discriminate E2.
Qed.

Lemma no_ghost_scope i : T_wghost i = false -> w_scopes i = scopes (w_base i) ->
  forall s, In s (scopes (w_base i)) ->
  forall o, In o (w_cluster0 i) -> in_scope s o = true ->
  has_key o (w_cluster1 i) = true \/ existsb (fun op => same_key (snd op) o) (wi_after i) = true.
Proof.
  intros T Hs s Is o Ho So.
  destruct (has_key o (w_cluster1 i)) eqn:H1; [now left|].
  destruct (existsb (fun op => same_key (snd op) o) (wi_after i)) eqn:H2; [now right|].
  exfalso. assert (X : T_wghost i = true); [|congruence].
  unfold T_wghost. apply existsb_exists. exists o. split; [exact Ho|].
  rewrite H1, H2, (wmatching_base i Hs). cbn [negb andb]. rewrite !andb_true_r.
  apply scope_exists_iff. exists s. auto.
Qed.

Section Monitor.
Variable i : win_in.
Hypothesis T : T_wghost i = false.
Hypothesis Hs : w_scopes i = scopes (w_base i).

Lemma w_caches_in o : In o (w_caches i) <-> In o (final_cluster (w_base i)) /\ matching (w_base i) o = true.
Proof.
  unfold w_caches. rewrite Hs, in_flat_map, <- scope_exists_iff, <- w_cluster2_final. split.
  - intros [s [Is Ho]]. apply (w_cache_in i s (no_ghost_scope i T Hs s Is)) in Ho. destruct Ho. split; [assumption | exists s; auto].
  - intros [Ho [s [Is So]]]. exists s. split; [exact Is|]. apply (w_cache_in i s (no_ghost_scope i T Hs s Is)). auto.
Qed.

Lemma w_caches_keys : keys_distinct (w_caches i).
Proof.
  unfold w_caches. rewrite Hs. pose proof (w_cluster2_keys i) as K. pose proof (scopes_nodup (w_base i)) as ND.
  assert (G : forall sc, NoDup sc -> (forall s, In s sc -> In s (scopes (w_base i))) ->
              keys_distinct (flat_map (w_cache i) sc)).
  { induction sc as [|s r IH]; intros Hn Hsub; [constructor|]. simpl. inversion Hn as [|? ? Hns Hr]; subst.
    unfold keys_distinct. rewrite map_app. apply nodup_app_intro.
    - apply w_cache_keys.
    - apply IH; [exact Hr | intros s' H'; apply Hsub; now right].
    - intros k Hk Hk'.
      apply in_map_iff in Hk as [a [Ka Ha]]. apply in_map_iff in Hk' as [b [Kb Hb]].
      apply (w_cache_in i s (no_ghost_scope i T Hs s (Hsub s (or_introl eq_refl)))) in Ha as [Ha Ia].
      apply in_flat_map in Hb as [s' [Hs' Hb]].
      apply (w_cache_in i s' (no_ghost_scope i T Hs s' (Hsub s' (or_intror Hs')))) in Hb as [Hb Ib].
      assert (a = b) by (apply (key_inj_in _ a b K); congruence). subst b.
      assert (s = s') by (apply (scope_unique (w_base i) a); auto; apply Hsub; [now left | now right]).
      subst s'. contradiction. }
  apply G; auto.
Qed.

Lemma w_snapshot_is_matching : P_snap_list (w_base i) (w_snapshot i) = true.
Proof.
  unfold P_snap_list, w_snapshot. rewrite (sort_objs_sorted _ w_caches_keys). cbn [andb].
  apply andb_true_iff. split.
  - apply forallb_forall. intros o Ho. apply (Permutation_in _ (sort_objs_perm _)) in Ho.
    apply w_caches_in in Ho as [H1 H2]. rewrite H2. cbn [andb]. now apply mem_obj_in.
  - apply forallb_forall. intros o Ho. destruct (matching (w_base i) o) eqn:M; [|reflexivity].
    apply mem_obj_in. apply (Permutation_in _ (Permutation_sym (sort_objs_perm _))). apply w_caches_in. auto.
Qed.
End Monitor.

Lemma P_wview_base i vs : w_scopes i = scopes (w_base i) -> P_wview_list i vs = P_view_list (w_base i) vs.
Proof.
  intros Hs. unfold P_wview_list, P_view_list. rewrite w_cluster2_final. f_equal; [f_equal|].
  - apply forallb_ext'. intros v. apply existsb_ext'. intros o. now rewrite (wmatching_base i Hs).
  - apply forallb_ext'. intros o. now rewrite (wmatching_base i Hs).
Qed.

Theorem window_views_are_matching i : T_wghost i = false -> P_win i (w_views i) false = true.
Proof.
  intros T. unfold P_win. cbn [negb andb].
  assert (D : w_scopes i = scopes (w_base i) \/ (wi_dyn i = true /\ wi_nss i = [])).
  { unfold w_scopes. destruct (wi_nss i); [|now left]. destruct (wi_dyn i); [now right | now left]. }
  destruct D as [Hs|[Hd Hn]].
  - rewrite (P_wview_base i _ Hs). unfold w_views. apply view_of_matching. now apply w_snapshot_is_matching.
  - unfold w_views, w_snapshot, w_caches, w_scopes. rewrite Hn, Hd. cbn.
    unfold P_wview_list. cbn [v_strictly_sorted forallb andb].
    apply forallb_forall. intros o _. unfold wmatching. rewrite Hd, Hn. reflexivity.
Qed.

(* the ghost of F26, as a window: the only object is deleted between the two lists *)
Theorem window_ghost_refuted : exists i, T_wghost i = true /\ P_win i (w_views i) false = false.
Proof.
  exists (mkWinIn false [] [] [(1, 1, 1)] [] false [(ODelete, (1, 1, 1))] [] false true). split; vm_compute; reflexivity.
Qed.

(* a later change of the same namespace and name cures it *)
Example window_ghost_cured :
  let i := mkWinIn false [] [] [(1, 1, 1)] [] false [(ODelete, (1, 1, 1))] [(OCreate, (1, 1, 5)); (ODelete, (1, 1, 5))] false true in
  T_wghost i = false /\ w_views i = [].
Proof. vm_compute. split; reflexivity. Qed.
