(* Op_Model.v — executable model of the operator's task flow, shared by C03, C04,
   C06 and C17.  It transcribes, at task granularity:
     bootstrapMainQueue / initAndStartHookQueues        (operator.go)
     ManagerEventsHandler.Start (one goroutine turns a tick / kube event into
       tasks and appends them under the queue-set lock) (manager_events_handler.go)
     TaskQueue.Start worker loop incl. the three ctx.Done checks (task_queue.go)
     taskHandler / taskHandleEnableKubernetesBindings / taskHandleHookRun incl.
       the Synchronization skip rules, combining, allowFailure, unlock
                                                        (operator.go)
     combineBindingContextForHook                       (combine_binding_context.go)
     GetHooksInOrder(OnStartup)                         (hook_manager.go)
   Hook executions are opened by [advance] and closed by the action [Finish].
   No proofs here. *)
From Verif Require Import Common.

Inductive btype := BOnStartup | BKube | BSchedule.
Inductive ckind := KStartup | KSync | KEvent | KSchedule.
Inductive ttype := HookRun | EnableKube | EnableSched.

(* a binding context, reduced to what decides the flow and what the hook can tell apart *)
Record ctx := mkCtx {
  c_binding : N;        (* binding name (dense number; 0 = "onStartup") *)
  c_kind : ckind;
  c_group : N;          (* 0 = no group *)
  c_obj : N             (* payload: object/event number for Event contexts, else 0 *)
}.

Record task := mkTask {
  t_type : ttype;
  t_hook : N;
  t_btype : btype;
  t_ctxs : list ctx;
  t_allow : bool;       (* HookMetadata.AllowFailure *)
  t_group : N;          (* HookMetadata.Group *)
  t_mids : list N;      (* HookMetadata.MonitorIDs *)
  t_execsync : bool;    (* HookMetadata.ExecuteOnSynchronization *)
  t_queue : N;          (* queue name; 0 = "main" *)
  t_fail : N            (* failure count *)
}.

(* ---- static configuration: hooks in path order ---- *)
Record kbinding := mkKb {
  kb_name : N; kb_queue : N; kb_group : N; kb_allow : bool; kb_execsync : bool;
  kb_mon : N            (* monitor id *)
}.
Record sbinding := mkSb {
  sb_name : N; sb_queue : N; sb_group : N; sb_allow : bool; sb_cron : N
}.
Record hook := mkHook {
  h_id : N; h_v0 : bool; h_startup : option Z;
  h_kube : list kbinding; h_sched : list sbinding
}.
Definition config := list hook.

Definition find_hook (cfg : config) (h : N) : option hook :=
  find (fun x => N.eqb (h_id x) h) cfg.

(* ---- dynamic state ---- *)
Record qstate := mkQ {
  q_name : N;
  q_items : list task;
  q_running : option bool;
    (* Some isSync: the worker is blocked on the head task: inside its handler (a hook
       execution is open) or - when [q_delay] - in the back-off delay after its failure;
       isSync is hookMeta.IsSynchronization() as computed when the task was picked,
       i.e. BEFORE combining *)
  q_delay : bool
    (* the worker sits in waitForTask(sleepDelay) after a failed run of the head task: no
       execution is open, nothing of this queue is started until the delay elapses *)
}.

Definition is_running (q : qstate) : bool := match q_running q with Some _ => true | None => false end.
(* a hook execution is open *)
Definition in_handler (q : qstate) : bool := is_running q && negb (q_delay q).

Record state := mkSt {
  queues : list qstate;
  sched_on : list N;    (* hooks whose schedule bindings are enabled *)
  unlocked : list N;    (* monitors whose events are unlocked *)
  mon_started : list N; (* monitors created and started *)
  stopped : bool        (* Shutdown() was called: queue contexts are cancelled *)
}.

Inductive action :=
| Boot
| Tick (c : N)                         (* a crontab fires: ScheduleManager.Ch() *)
| KubeEv (mon : N) (obj : N)           (* an unlocked monitor emits an event: KubeEventsManager.Ch();
                                          obj numbers the event (object and watch-event type) *)
| Finish (q : N) (ok : bool)           (* the hook execution open in queue q ends; after a
                                          failure the queue's back-off delay is zero *)
| Stop                                 (* Shutdown() *)
| FinishWait (q : N)                   (* the execution open in queue q ends with a failure and the
                                          queue's back-off function returns a positive delay *)
| Elapse (q : N).                      (* the back-off delay of queue q is over *)

(* ---- bootstrap ---- *)

(* stable insertion sort by ORDER (GetHooksInOrder(OnStartup) after the F2 repair:
   sort.SliceStable on the path-ordered list) *)
Fixpoint insert_by_order (x : hook * Z) (l : list (hook * Z)) : list (hook * Z) :=
  match l with
  | [] => [x]
  | y :: r => if Z.leb (snd x) (snd y) then x :: y :: r else y :: insert_by_order x r
  end.
Definition sort_by_order (l : list (hook * Z)) : list (hook * Z) :=
  fold_right insert_by_order [] l.

Definition startup_hooks (cfg : config) : list hook :=
  map fst (sort_by_order
             (flat_map (fun h => match h_startup h with Some o => [(h, o)] | None => [] end) cfg)).

Definition startup_ctx : ctx := mkCtx 0 KStartup 0 0.

(* onStartup and Enable* tasks are created without a queue name (""): the harness maps
   the empty name to this number, which never names a queue *)
Definition no_queue : N := 1000.

Definition startup_task (h : hook) : task :=
  mkTask HookRun (h_id h) BOnStartup [startup_ctx] false 0 [] false no_queue 0.

Definition enable_tasks (h : hook) : list task :=
  (match h_kube h with [] => [] | _ => [mkTask EnableKube (h_id h) BKube [] false 0 [] false no_queue 0] end)
  ++ (match h_sched h with [] => [] | _ => [mkTask EnableSched (h_id h) BSchedule [] false 0 [] false no_queue 0] end).

Definition boot_main (cfg : config) : list task :=
  map startup_task (startup_hooks cfg) ++ flat_map enable_tasks cfg.

Definition has_queue (qs : list qstate) (n : N) : bool := existsb (fun q => N.eqb (q_name q) n) qs.

Definition add_queue (qs : list qstate) (n : N) : list qstate :=
  if has_queue qs n then qs else qs ++ [mkQ n [] None false].

(* initAndStartHookQueues: queues of schedule bindings first, then of kubernetes bindings *)
Definition boot_queues (cfg : config) : list qstate :=
  let qs0 := [mkQ 0 (boot_main cfg) None false] in
  let qs1 := fold_left add_queue (flat_map (fun h => map sb_queue (h_sched h)) cfg) qs0 in
  fold_left add_queue (flat_map (fun h => map kb_queue (h_kube h)) cfg) qs1.

(* ---- events handler ---- *)

Definition sched_tasks (cfg : config) (on : list N) (c : N) : list task :=
  flat_map (fun h =>
    if mem_N (h_id h) on then
      flat_map (fun b =>
        if N.eqb (sb_cron b) c then
          [mkTask HookRun (h_id h) BSchedule [mkCtx (sb_name b) KSchedule (sb_group b) 0]
                  (sb_allow b) (sb_group b) [] false (sb_queue b) 0]
        else []) (h_sched h)
    else []) cfg.

Definition kube_tasks (cfg : config) (unl : list N) (mon obj : N) : list task :=
  if mem_N mon unl then
    flat_map (fun h =>
      flat_map (fun b =>
        if N.eqb (kb_mon b) mon then
          [mkTask HookRun (h_id h) BKube [mkCtx (kb_name b) KEvent (kb_group b) obj]
                  (kb_allow b) (kb_group b) [] false (kb_queue b) 0]
        else []) (h_kube h)) cfg
  else [].

(* AddLast to the queue named in the task; a task for a missing queue is logged and dropped *)
Fixpoint append_task (qs : list qstate) (t : task) : list qstate :=
  match qs with
  | [] => []
  | q :: r => if N.eqb (q_name q) (t_queue t)
              then mkQ (q_name q) (q_items q ++ [t]) (q_running q) (q_delay q) :: r
              else q :: append_task r t
  end.
Definition append_tasks (qs : list qstate) (ts : list task) : list qstate :=
  fold_left append_task ts qs.

(* ---- handler pieces ---- *)

(* compaction: a grouped context is dropped iff the next one has the same group *)
Fixpoint compact (l : list ctx) : list ctx :=
  match l with
  | [] => []
  | c :: r =>
      match r with
      | n :: _ => if negb (N.eqb (c_group c) 0) && N.eqb (c_group n) (c_group c)
                  then compact r else c :: compact r
      | [] => [c]
      end
  end.

(* tasks immediately following the head for the same hook and of the same task type;
   when the head is a Synchronization, combining stops at a Synchronization whose
   ExecuteOnSynchronization is false (stopCombineFn, repair F9) *)
Definition is_sync (t : task) : bool :=
  match t_btype t, t_ctxs t with
  | BKube, c :: _ => match c_kind c with KSync => true | _ => false end
  | _, _ => false
  end.

Definition same_ttype (a b : ttype) : bool :=
  match a, b with
  | HookRun, HookRun | EnableKube, EnableKube | EnableSched, EnableSched => true
  | _, _ => false
  end.

Fixpoint take_block (t : task) (l : list task) : list task * list task :=
  match l with
  | [] => ([], [])
  | x :: r =>
      if N.eqb (t_hook x) (t_hook t) && same_ttype (t_type x) (t_type t)
         && negb (is_sync t && is_sync x && negb (t_execsync x))
      then let (b, rest) := take_block t r in (x :: b, rest)
      else ([], l)
  end.

Definition set_combined (t : task) (cs : list ctx) (ms : list N) (allow : bool) : task :=
  mkTask (t_type t) (t_hook t) (t_btype t) cs allow (t_group t) ms
         (t_execsync t) (t_queue t) (t_fail t).

(* combineBindingContextForHook on head [t] of queue [t :: rest]: new head, remaining queue.
   The combined task allows failure only if every merged task does (repair F6). *)
Definition combine (t : task) (rest : list task) : task * list task :=
  let (block, rest') := take_block t rest in
  match block with
  | [] => (t, rest)
  | _ =>
      let cs := compact (t_ctxs t ++ flat_map t_ctxs block) in
      let ms := t_mids t ++ flat_map t_mids block in
      (set_combined t cs ms (t_allow t && forallb t_allow block), rest')
  end.

Definition should_run (v0 : bool) (t : task) : bool :=
  negb (is_sync t && (v0 || negb (t_execsync t))).

Definition should_combine (t : task) : bool :=
  negb (is_sync t && N.eqb (t_group t) 0).

Definition sync_task (h : hook) (b : kbinding) : task :=
  mkTask HookRun (h_id h) BKube [mkCtx (kb_name b) KSync (kb_group b) 0]
         (kb_allow b) (kb_group b) [kb_mon b] (kb_execsync b) 0 0.

(* the part of the state a queue worker touches besides its own queue *)
Record shared := mkSh { s_sched_on : list N; s_unlocked : list N; s_mon_started : list N }.

(* The worker of one queue, run until it blocks in a hook execution or finds the
   queue empty.  Returns the items, whether an execution is open, the shared state. *)
Fixpoint advance_q (fuel : nat) (cfg : config) (qok : N -> bool) (items : list task) (sh : shared)
  : list task * option bool * shared :=
  match fuel with
  | O => (items, None, sh)
  | S fuel' =>
      match items with
      | [] => ([], None, sh)
      | t :: rest =>
          match t_type t with
          | EnableKube =>
              match find_hook cfg (t_hook t) with
              | Some h =>
                  advance_q fuel' cfg qok (map (sync_task h) (h_kube h) ++ rest)
                            (mkSh (s_sched_on sh) (s_unlocked sh)
                                  (s_mon_started sh ++ map kb_mon (h_kube h)))
              | None => advance_q fuel' cfg qok rest sh
              end
          | EnableSched =>
              advance_q fuel' cfg qok rest (mkSh (s_sched_on sh ++ [t_hook t]) (s_unlocked sh) (s_mon_started sh))
          | HookRun =>
              let v0 := match find_hook cfg (t_hook t) with Some h => h_v0 h | None => false end in
              if should_run v0 t then
                if negb v0 && should_combine t && qok (t_queue t) then
                  (* combine looks the queue up by the task's queue name; no such queue: no combining *)
                  let (t', rest') := combine t rest in (t' :: rest', Some (is_sync t), sh)
                else (t :: rest, Some (is_sync t), sh)
              else
                (* skipped Synchronization: Success at once, unlock its monitors *)
                advance_q fuel' cfg qok rest
                          (mkSh (s_sched_on sh) (s_unlocked sh ++ t_mids t) (s_mon_started sh))
          end
      end
  end.

Definition task_weight (cfg : config) (t : task) : nat :=
  match t_type t with
  | EnableKube => match find_hook cfg (t_hook t) with Some h => S (length (h_kube h)) | None => 1 end
  | _ => 1
  end.
Definition fuel_for (cfg : config) (items : list task) : nat :=
  S (fold_right (fun t n => task_weight cfg t + n) 0 items).

Fixpoint advance_all (cfg : config) (qok : N -> bool) (qs : list qstate) (sh : shared) : list qstate * shared :=
  match qs with
  | [] => ([], sh)
  | q :: r =>
      if is_running q then
        let (r', sh') := advance_all cfg qok r sh in (q :: r', sh')
      else
        let '(items, run, sh1) := advance_q (fuel_for cfg (q_items q)) cfg qok (q_items q) sh in
        let (r', sh') := advance_all cfg qok r sh1 in
        (mkQ (q_name q) items run false :: r', sh')
  end.

Definition advance (cfg : config) (s : state) : state :=
  if stopped s then s else
  let (qs, sh) := advance_all cfg (has_queue (queues s)) (queues s) (mkSh (sched_on s) (unlocked s) (mon_started s)) in
  mkSt qs (s_sched_on sh) (s_unlocked sh) (s_mon_started sh) false.

(* ---- the end of a hook execution ---- *)

Definition incr_fail (t : task) : task :=
  mkTask (t_type t) (t_hook t) (t_btype t) (t_ctxs t) (t_allow t) (t_group t) (t_mids t)
         (t_execsync t) (t_queue t) (N.succ (t_fail t)).

(* Finish in queue [q]: the handler computes the status (allowFailure of the task, which
   after combining is the head's), on success unlocks the monitors the task carries (those of
   the Synchronization tasks it is or has absorbed - also when its Synchronization context
   was compacted away after a failed run: repair b4b7f41), returns;
   the worker then checks ctx.Done: when stopped the result is NOT applied.  After a failure
   the worker asks the back-off function for the delay: zero - the task is picked again at
   once; positive ([wait]) - the worker waits in waitForTask, blocked on the same head. *)
Fixpoint finish_in (qs : list qstate) (qn : N) (ok stp wait : bool) (unl : list N) : list qstate * list N :=
  match qs with
  | [] => ([], unl)
  | q :: r =>
      if N.eqb (q_name q) qn then
        match q_running q, q_items q, q_delay q with
        | Some sync, t :: rest, false =>
            let success := ok || t_allow t in
            let unl' := if success then unl ++ t_mids t else unl in
            if stp then (mkQ (q_name q) (q_items q) None false :: r, unl')
            else if success then (mkQ (q_name q) rest None false :: r, unl')
            else if wait then (mkQ (q_name q) (incr_fail t :: rest) (Some false) true :: r, unl')
            else (mkQ (q_name q) (incr_fail t :: rest) None false :: r, unl')
        | _, _, _ => (q :: r, unl)
        end
      else let (r', unl') := finish_in r qn ok stp wait unl in (q :: r', unl')
  end.

(* the back-off delay of queue [qn] is over (waitForTask returns the head task; when the
   context is cancelled it returns nil and the worker exits: [advance] does nothing then) *)
Fixpoint elapse_in (qs : list qstate) (qn : N) : list qstate :=
  match qs with
  | [] => []
  | q :: r =>
      if N.eqb (q_name q) qn
      then (if q_delay q then mkQ (q_name q) (q_items q) None false else q) :: r
      else q :: elapse_in r qn
  end.

Definition step (cfg : config) (s : state) (a : action) : state :=
  let s1 :=
    match a with
    | Boot => match queues s with
              | [] => mkSt (boot_queues cfg) (sched_on s) (unlocked s) (mon_started s) (stopped s)
              | _ => s
              end
    | Tick c => mkSt (append_tasks (queues s) (sched_tasks cfg (sched_on s) c))
                     (sched_on s) (unlocked s) (mon_started s) (stopped s)
    | KubeEv m o => mkSt (append_tasks (queues s) (kube_tasks cfg (unlocked s) m o))
                           (sched_on s) (unlocked s) (mon_started s) (stopped s)
    | Finish qn ok =>
        let (qs, unl) := finish_in (queues s) qn ok (stopped s) false (unlocked s) in
        mkSt qs (sched_on s) unl (mon_started s) (stopped s)
    | Stop => mkSt (queues s) (sched_on s) (unlocked s) (mon_started s) true
    | FinishWait qn =>
        let (qs, unl) := finish_in (queues s) qn false (stopped s) true (unlocked s) in
        mkSt qs (sched_on s) unl (mon_started s) (stopped s)
    | Elapse qn => mkSt (elapse_in (queues s) qn) (sched_on s) (unlocked s) (mon_started s) (stopped s)
    end in
  advance cfg s1.

Definition init : state := mkSt [] [] [] [] false.

Definition exec (cfg : config) (acts : list action) (s : state) : state :=
  fold_left (step cfg) acts s.

Fixpoint trace_from (cfg : config) (s : state) (acts : list action) : list state :=
  match acts with
  | [] => []
  | a :: r => let s' := step cfg s a in s' :: trace_from cfg s' r
  end.
Definition trace (cfg : config) (acts : list action) : list state := trace_from cfg init acts.
