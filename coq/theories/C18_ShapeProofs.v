(* C18_ShapeProofs.v — proofs about hooks of every SHAPE (C18_Model part 5): the limiter a
   hook is loaded with is a function of its settings, whatever bindings it declares; the
   operator started with hooks of any shapes (any number of kubernetes bindings, grouped or
   not, executed on Synchronization or not, schedule bindings, queues) respects, for every
   script, the bound with the CONFIGURED burst - the Synchronization runs of the start-up
   included; an idle period of any length cannot buy more than B executions at once.

   limiter_of_settings_only   create_rate_limiter_hc ignores the shape
   load_limiters_settings     the limiter of hook h = create_rate_limiter (configured settings of h)
   shape_hinv                 the invariant of one hook's limiter (C18_Proofs.hinv) along every
                              run of the operator, from ANY initial limiters
   shape_starts_are_grants, shape_respects_limit, shape_P_holds, shape_P_op_holds
   startup_window             the window that begins with Boot
   after_idle_bound           limiter level: of the requests that arrive from t on - after
                              anything, in particular after nothing for however long - the
                              (B+m)-th is granted no earlier than t + m*I *)
From Verif Require Import Common C18_Model C18_Spec C18_Proofs.
Open Scope Z_scope.

(* ---- the limiter is made from the settings ---- *)

Lemma limiter_of_settings_only hc hc' :
  hc_settings hc = hc_settings hc' -> create_rate_limiter_hc hc = create_rate_limiter_hc hc'.
Proof. unfold create_rate_limiter_hc. intros E. rewrite E. reflexivity. Qed.

Lemma limiter_capacity shape I B : 0 < I -> 1 <= B ->
  let b := create_rate_limiter_hc (mkHC shape (Some (mkSettings I B))) in
  b_limit b = Some I /\ b_burst b = B /\ b_tokens b = B * I /\ b_last b = None.
Proof.
  intros HI HB. cbv zeta. unfold create_rate_limiter_hc. cbn [hc_settings].
  rewrite (create_limited HI HB). unfold bucket0. cbn. repeat split; reflexivity.
Qed.

Lemma limiter_unlimited shape : b_limit (create_rate_limiter_hc (mkHC shape None)) = None.
Proof. reflexivity. Qed.

Lemma load_limiters_settings : forall hcs h,
  load_limiters hcs h = create_rate_limiter (settings_of (configured_settings hcs) h).
Proof.
  unfold load_limiters, settings_of, configured_settings.
  induction hcs as [|hc r IH]; intros h; [reflexivity|].
  cbn [map find fst]. destruct (N.eqb (hc_id hc) h); [reflexivity | apply IH].
Qed.

(* two lists of hooks with the same ids and settings, whatever their shapes: the same limiters *)
Lemma load_limiters_shape_irrelevant hcs hcs' h :
  configured_settings hcs = configured_settings hcs' -> load_limiters hcs h = load_limiters hcs' h.
Proof. intros E. rewrite !load_limiters_settings, E. reflexivity. Qed.

(* ---- the invariant of one hook's limiter, from any initial limiters ---- *)

Lemma hinv_init_any lims0 h now : hinv (lims0 h) h now lims0 [] [].
Proof. unfold hinv. cbn. repeat split; try constructor; try (intros v; cbn; lia). Qed.

Lemma run_hinv cfg lims0 script h : sortedb (map fst script) = true ->
  let ls := run_lim cfg (mkL init [] lims0 [] false) script in
  exists now, hinv (lims0 h) h now (l_lims ls) (l_waiting ls) (l_log ls).
Proof.
  intros Hs. cbv zeta.
  set (now0 := match map fst script with [] => 0 | t :: _ => t end).
  apply (run_lim_Q (hinv (lims0 h) h) Z.le) with (now := now0).
  - intros a b H; exact H.
  - intros a b c; apply Z.le_trans.
  - intros now now' lims wt log. apply hinv_time.
  - intros now n lims wt log e u. apply hinv_wake_time.
  - intros now lims wt log h' b'. apply hinv_req.
  - intros now lims wt log h' b' q. apply hinv_start.
  - intros now lims wt log h' b' q act. apply hinv_wait.
  - intros now lims wt log h' b' q. apply hinv_refused.
  - intros now lims wt log e. apply hinv_wake_start.
  - intros now lims wt log q. apply hinv_wake_skip.
  - apply hinv_init_any.
  - apply chain_le_of_sorted. subst now0. destruct (map fst script) as [|t r]; [reflexivity|].
    apply sortedb_dup. exact Hs.
Qed.

Definition shape_log (hcs : list hook_config) (script : list (Z * action)) : list levent :=
  l_log (run_shape hcs script).

Lemma shape_hinv hcs script h : sortedb (map fst script) = true ->
  exists now, hinv (create_rate_limiter (settings_of (configured_settings hcs) h)) h now
                   (l_lims (run_shape hcs script)) (l_waiting (run_shape hcs script)) (shape_log hcs script).
Proof.
  intros Hs. rewrite <- load_limiters_settings. unfold shape_log, run_shape, init_shape.
  exact (run_hinv (shape_config hcs) (load_limiters hcs) script h Hs).
Qed.

(* every execution start of a hook of any shape - Synchronization runs of the start-up, runs
   for single events after an idle period, retries - is a grant of the limiter made from ITS
   SETTINGS over the sorted list of its request instants *)
Lemma shape_starts_are_grants hcs script h : sortedb (map fst script) = true ->
  let log := shape_log hcs script in
  sortedb (reqs_of h log) = true /\
  acts_of h log = grants (create_rate_limiter (settings_of (configured_settings hcs) h)) (reqs_of h log) /\
  Sub (starts_in h log) (somes (acts_of h log)).
Proof.
  intros Hs. cbv zeta. destruct (shape_hinv hcs script h Hs) as (now & _ & H2 & _ & H4 & _ & H6 & _ & H8).
  split; [exact H4|]. split; [exact H2|].
  apply sorted_msub_sub; [| exact H6 |].
  - rewrite H2. apply grants_sorted. exact H4.
  - intros v. specialize (H8 v). lia.
Qed.

Lemma shape_starts_sorted hcs script h : sortedb (map fst script) = true ->
  sortedb (starts_in h (shape_log hcs script)) = true.
Proof. intros Hs. destruct (shape_hinv hcs script h Hs) as (now & _ & _ & _ & _ & _ & H6 & _). exact H6. Qed.

Lemma shape_respects_limit hcs script h I B :
  settings_of (configured_settings hcs) h = Some (mkSettings I B) -> 0 < I -> 1 <= B ->
  sortedb (map fst script) = true ->
  respects_limit I B (starts_in h (shape_log hcs script)).
Proof.
  intros Hset HI HB Hs. destruct (shape_starts_are_grants hcs script h Hs) as (H4 & H2 & H5).
  rewrite Hset in H2. eapply respects_limit_sub; [exact H5|]. rewrite H2.
  apply (@respects_limit_model I B _ HI HB H4).
Qed.

(* the window that begins with the start of the operator: Boot at t0, then anything *)
Lemma startup_window hcs script h I B t0 :
  settings_of (configured_settings hcs) h = Some (mkSettings I B) -> 0 < I -> 1 <= B ->
  sortedb (t0 :: map fst script) = true ->
  forall T, 0 <= T ->
  count_in t0 T (starts_in h (shape_log hcs ((t0, Boot) :: script))) <= B + ceil_div T I.
Proof.
  intros Hset HI HB Hs T HT.
  apply (shape_respects_limit hcs ((t0, Boot) :: script) h I B Hset HI HB); [|exact HT].
  cbn [map fst]. exact Hs.
Qed.

(* hooks without settings, whatever their shape: no limiter call ever waits *)
Lemma shape_unlimited_acts hcs script h :
  settings_of (configured_settings hcs) h = None ->
  acts_of h (shape_log hcs script) = map Some (reqs_of h (shape_log hcs script)).
Proof.
  intros Hset. unfold shape_log, run_shape.
  destruct (run_lim_Q (uinv h) (fun _ _ => True)) with (cfg := shape_config hcs) (script := script)
      (ls := init_shape hcs) (now := 0) as (now & _ & H2).
  - intros a b _; exact I.
  - intros a b c _ _; exact I.
  - intros now now' lims wt log _ _ H. exact H.
  - intros now n lims wt log e u _ H. exact H.
  - intros now lims wt log h' b'. apply uinv_call.
  - intros now lims wt log h' b' q H Er. apply uinv_startev with (wt := wt). apply (uinv_call h now lims wt wt log h' b' (Some now) H Er).
  - intros now lims wt log h' b' q act H Er _. apply (uinv_call h now lims wt _ log h' b' (Some act) H Er).
  - intros now lims wt log h' b' q H Er. apply (uinv_call h now lims wt _ log h' b' None H Er).
  - intros now lims wt log e H _ _. apply uinv_startev with (wt := wt). exact H.
  - intros now lims wt log q H. exact H.
  - split; [|reflexivity]. unfold init_shape. cbn [l_lims]. rewrite load_limiters_settings, Hset. reflexivity.
  - apply chain_any.
  - exact H2.
Qed.

Lemma shape_not_throttled hcs script h :
  settings_of (configured_settings hcs) h = None -> ~ In h (throttled_in (shape_log hcs script)).
Proof. intros Hset. apply not_throttled_of_acts. apply shape_unlimited_acts. exact Hset. Qed.

(* ---- the decidable predicates on the model's own log ---- *)

Lemma shape_P_timed_holds hcs script anchors : sortedb (map fst script) = true ->
  P_timed (configured_settings hcs) anchors (starts_all (shape_log hcs script)) = true.
Proof.
  intros Hs. unfold P_timed. apply forallb_forall. intros h _. rewrite starts_of_all.
  unfold P_hook_anchored. destruct (settings_of (configured_settings hcs) h) as [[I B]|] eqn:Hset; [|reflexivity].
  cbn [s_interval s_burst].
  destruct (Z.ltb_spec 0 I) as [HI|_]; [|reflexivity].
  destruct (Z.leb_spec 1 B) as [HB|_]; [|reflexivity].
  cbn [andb]. rewrite (shape_starts_sorted hcs script h Hs). cbn [andb].
  apply forallb_forall. intros a _.
  apply (late_observation_sound I B a (starts_in h (shape_log hcs script))); try assumption.
  - exact (shape_respects_limit hcs script h I B Hset HI HB Hs).
  - apply Forall2_le_refl.
  - exact (shape_starts_sorted hcs script h Hs).
  - intros r x Hin Hax. apply In_combine_same in Hin. subst. exact Hax.
Qed.

Lemma shape_P_holds hcs script boot anchors : sortedb (map fst script) = true ->
  P_shape (configured_settings hcs) boot anchors (starts_all (shape_log hcs script)) = true.
Proof. intros Hs. unfold P_shape. apply shape_P_timed_holds. exact Hs. Qed.

Lemma shape_P_op_holds hcs script : sortedb (map fst script) = true ->
  let log := shape_log hcs script in
  P_op (configured_settings hcs) (starts_all log) (throttled_in log) = true.
Proof.
  intros Hs. cbv zeta. unfold P_op. apply forallb_forall. intros h _.
  rewrite starts_of_all. unfold P_hook.
  destruct (settings_of (configured_settings hcs) h) as [[I B]|] eqn:Hset.
  - cbn [s_interval s_burst].
    destruct (Z.ltb_spec 0 I) as [HI|_]; [|reflexivity].
    destruct (Z.leb_spec 1 B) as [HB|_]; [|reflexivity].
    cbn [andb].
    destruct (shape_starts_are_grants hcs script h Hs) as (H4 & H2 & H5).
    apply (window_ok_sub I B _ _ H5). rewrite H2, Hset.
    pose proof (@spec_holds (Some (mkSettings I B)) _ H4) as HP.
    unfold P in HP. cbn [s_interval s_burst] in HP. rewrite H4 in HP.
    destruct (Z.ltb_spec 0 I) as [_|]; [|lia]. destruct (Z.leb_spec 1 B) as [_|]; [|lia].
    exact HP.
  - apply negb_true_iff. destruct (mem_N h (throttled_in (shape_log hcs script))) eqn:Em; [|reflexivity].
    apply mem_N_In in Em. exfalso. exact (shape_not_throttled hcs script h Hset Em).
Qed.

(* ---- an idle period of any length buys at most B ---- *)

Lemma grants_ge : forall arr b i t a,
  nth_error arr i = Some t -> nth_error (grants b arr) i = Some (Some a) -> t <= a.
Proof.
  induction arr as [|x r IH]; intros b i t a Ht Ha; [destruct i; discriminate|].
  cbn [grants] in Ha. destruct (reserve b x) as [b' g] eqn:Er.
  destruct i as [|i'].
  - cbn in Ht, Ha. inversion Ht; inversion Ha; subst. exact (reserve_ge _ _ _ _ Er).
  - cbn [nth_error] in Ht, Ha. exact (IH b' i' t a Ht Ha).
Qed.

Lemma after_idle_bound I B pre post t :
  0 < I -> 1 <= B -> sortedb (pre ++ post) = true -> Forall (fun x => t <= x) post ->
  forall k a,
  nth_error (grants (create_rate_limiter (Some (mkSettings I B))) (pre ++ post)) (length pre + k) = Some (Some a) ->
  t + (Z.of_nat k + 1 - B) * I <= a.
Proof.
  intros HI HB Hs Hpost k a Hk.
  set (g := grants (create_rate_limiter (Some (mkSettings I B))) (pre ++ post)) in *.
  destruct (always_granted (pre ++ post) HI HB Hs) as [Eg El]. fold g in Eg, El.
  (* the first request of [post] *)
  assert (Hlen : (length pre + k < length g)%nat) by (apply nth_error_Some; rewrite Hk; discriminate).
  assert (Hlen0 : (length pre < length g)%nat) by lia.
  destruct (nth_error g (length pre)) as [o|] eqn:E0; [|apply nth_error_None in E0; lia].
  assert (exists a0, o = Some a0) as [a0 Eo].
  { rewrite Eg in E0. rewrite nth_error_map in E0.
    destruct (nth_error (somes g) (length pre)); [|discriminate]. inversion E0. eexists; reflexivity. }
  subst o.
  assert (Hlg : length g = length (pre ++ post)).
  { rewrite Eg at 1. rewrite map_length. exact El. }
  destruct (nth_error (pre ++ post) (length pre)) as [t0|] eqn:Et0;
    [|apply nth_error_None in Et0; lia].
  assert (Ht0 : t <= t0).
  { rewrite nth_error_app2 in Et0 by lia. rewrite Nat.sub_diag in Et0.
    destruct post as [|p ps]; [discriminate|]. cbn in Et0. inversion Et0; subst.
    inversion Hpost; subst. assumption. }
  pose proof (grants_ge _ _ _ _ _ Et0 E0) as Hge.
  assert (Hij : (length pre <= length pre + k)%nat) by lia.
  pose proof (window_bound (pre ++ post) HI HB Hs Hij E0 Hk) as Hw.
  rewrite Nat2Z.inj_add in Hw. nia.
Qed.
