(* C11_Proofs.v — lemmas and proofs for C11 (schedule manager reference counting,
   schedule bindings controller). *)
From Coq Require Import Permutation.
From Verif Require Import Common C11_Model C11_Spec.

(* ------------------------------------------------------------------ generic *)

Lemma ct_eqb_eq a b : ct_eqb a b = true <-> a = b.
Proof. apply bytes_eqb_eq. Qed.
Lemma ct_eqb_refl a : ct_eqb a a = true.
Proof. now apply ct_eqb_eq. Qed.
Lemma ct_eqb_neq a b : ct_eqb a b = false <-> a <> b.
Proof.
  split.
  - intros H E. apply ct_eqb_eq in E. rewrite E in H. discriminate.
  - intros H. destruct (ct_eqb a b) eqn:E; [|reflexivity]. apply ct_eqb_eq in E. contradiction.
Qed.
Lemma ct_eqb_sym a b : ct_eqb a b = ct_eqb b a.
Proof.
  destruct (ct_eqb b a) eqn:E.
  - apply ct_eqb_eq in E. subst. apply ct_eqb_refl.
  - apply ct_eqb_neq. apply ct_eqb_neq in E. auto.
Qed.
Lemma ct_eq_dec (a b : ct) : {a = b} + {a <> b}.
Proof. apply list_eq_dec, N.eq_dec. Qed.
Lemma mem_ct_In c l : mem_ct c l = true <-> In c l.
Proof.
  unfold mem_ct. rewrite existsb_exists. split.
  - intros [y [Hy E]]. apply ct_eqb_eq in E. now subst.
  - intros H. exists c. split; [assumption | apply ct_eqb_refl].
Qed.

Lemma upd_same V k (v : V) f : upd k v f k = v.
Proof. unfold upd. now rewrite ct_eqb_refl. Qed.
Lemma upd_other V k k' (v : V) f : k' <> k -> upd k v f k' = f k'.
Proof. unfold upd. intros H. apply ct_eqb_neq in H. now rewrite H. Qed.

Lemma NoDup_snoc A (l : list A) x : NoDup l -> ~ In x l -> NoDup (l ++ [x]).
Proof.
  induction l as [|a l IH]; simpl; intros Hn Hx; [constructor; [tauto | constructor]|].
  inversion Hn as [|? ? Ha Hl]; subst. constructor.
  - intros Hin. apply in_app_or in Hin as [Hin|[->|[]]]; [contradiction | tauto].
  - apply IH; tauto.
Qed.

Lemma NoDup_filter A (f : A -> bool) l : NoDup l -> NoDup (filter f l).
Proof.
  induction 1 as [|x l Hx Hl IH]; simpl; [constructor|].
  destruct (f x); [constructor; [|assumption] | assumption].
  intros Hin. apply filter_In in Hin. tauto.
Qed.

Lemma map_fst_filter_sub A B (f : A * B -> bool) l x :
  In x (map fst (filter f l)) -> In x (map fst l).
Proof.
  intros H. apply in_map_iff in H as [p [<- Hp]]. apply filter_In in Hp as [Hp _].
  now apply in_map.
Qed.

Lemma NoDup_map_fst_filter A B (f : A * B -> bool) l :
  NoDup (map fst l) -> NoDup (map fst (filter f l)).
Proof.
  induction l as [|p l IH]; simpl; intros H; [constructor|].
  inversion H as [|? ? Hp Hl]; subst. destruct (f p); simpl; [|auto].
  constructor; [|auto]. intros Hin. apply Hp. eapply map_fst_filter_sub; eauto.
Qed.

Lemma filter_all_false A (f : A -> bool) l : (forall x, In x l -> f x = false) -> filter f l = [].
Proof.
  induction l as [|x l IH]; intros H; simpl; [reflexivity|].
  rewrite (H x (or_introl eq_refl)). apply IH. intros y Hy; apply H; now right.
Qed.

Lemma nodupb_NoDup l : nodupb l = true -> NoDup l.
Proof.
  induction l as [|x l IH]; simpl; intros H; [constructor|].
  apply andb_true_iff in H as [H1 H2]. constructor; [|now apply IH].
  intros Hin. apply mem_N_In in Hin. rewrite Hin in H1. discriminate.
Qed.

(* ------------------------------------------------------------------ the registry *)

Lemma pair_eqb_eq p q : pair_eqb p q = true <-> p = q.
Proof.
  destruct p as [a b], q as [c d]. unfold pair_eqb. simpl.
  rewrite andb_true_iff, ct_eqb_eq, N.eqb_eq. split; [intros [-> ->]; reflexivity | intros H; inversion H; auto].
Qed.

Lemma existsb_pair p l : existsb (pair_eqb p) l = true <-> In p l.
Proof.
  rewrite existsb_exists. split.
  - intros [q [Hq E]]. apply pair_eqb_eq in E. now subst.
  - intros H. exists p. split; [assumption | now apply pair_eqb_eq].
Qed.

Lemma In_reg_add p q l : In q (reg_add p l) <-> q = p \/ In q l.
Proof.
  unfold reg_add. destruct (existsb (pair_eqb p) l) eqn:E.
  - apply existsb_pair in E. split; [tauto | intros [->|H]; assumption].
  - rewrite in_app_iff. simpl. split; [intros [H|[<-|[]]]; tauto | intros [->|H]; tauto].
Qed.

Lemma In_reg_remove p q l : In q (reg_remove p l) <-> In q l /\ q <> p.
Proof.
  unfold reg_remove. rewrite filter_In. split; intros [H1 H2]; split; try assumption.
  - intros ->. assert (E : pair_eqb p p = true) by now apply pair_eqb_eq. rewrite E in H2. discriminate.
  - destruct (pair_eqb q p) eqn:E; [|reflexivity]. apply pair_eqb_eq in E. contradiction.
Qed.

Lemma has_binding_In c l : has_binding c l = true <-> exists i, In (c, i) l.
Proof.
  unfold has_binding. rewrite existsb_exists. split.
  - intros [[c' i] [H E]]. simpl in E. apply ct_eqb_eq in E. subst. eauto.
  - intros [i H]. exists (c, i). split; [assumption | apply ct_eqb_refl].
Qed.

(* ------------------------------------------------------------------ the invariant *)

Section SM.
  Variable valid : ct -> bool.

  (* Entries[c] against the registry and the cron entries *)
  Definition okc (cr : list (N * ct)) (reg : list (ct * N)) (c : ct) (en : option (N * list N)) : Prop :=
    match en with
    | None => forall i, ~ In (c, i) reg
    | Some (eid, ids) =>
        ids <> [] /\ NoDup ids /\ (forall i, In i ids <-> In (c, i) reg)
        /\ (if valid c then In (eid, c) cr else eid = 0%N)
    end.

  Definition Inv (s : sm) (reg : list (ct * N)) : Prop :=
    (forall c, okc (cron s) reg c (entries s c))
    /\ (forall e c, In (e, c) (cron s) -> valid c = true /\ exists ids, entries s c = Some (e, ids))
    /\ NoDup (map fst (cron s))
    /\ (forall e c, In (e, c) (cron s) -> (1 <= e <= next s)%N).

  Lemma okc_other cr cr' reg reg' c en :
    okc cr reg c en ->
    (forall i, In (c, i) reg' <-> In (c, i) reg) ->
    (forall e, In (e, c) cr -> In (e, c) cr') ->
    okc cr' reg' c en.
  Proof.
    unfold okc. destruct en as [[eid ids]|]; intros H Hr Hc.
    - destruct H as (H1 & H2 & H3 & H4). repeat split; auto.
      + intros Hi. apply Hr, H3, Hi.
      + intros Hi. apply H3, Hr, Hi.
      + destruct (valid c); auto.
    - intros i Hi. apply (H i), Hr, Hi.
  Qed.

  Lemma Inv_init : Inv sm_init [].
  Proof.
    unfold Inv, sm_init; simpl. repeat split; try contradiction.
    - intros c i H. exact H.
    - constructor.
  Qed.

  Lemma pair_neq_c (c c0 : ct) (i i0 : N) : c <> c0 -> (c, i) <> (c0, i0).
  Proof. intros H E. inversion E. contradiction. Qed.

  Lemma Inv_add s reg c0 i0 : Inv s reg -> Inv (sm_add valid s c0 i0) (reg_add (c0, i0) reg).
  Proof.
    intros (Ha & Hb & Hc & Hd). unfold sm_add.
    pose proof (Ha c0) as Hc0.
    destruct (entries s c0) as [[eid ids]|] eqn:E.
    - (* the crontab is known *)
      destruct Hc0 as (Hne & Hnd & Hin & Hcr).
      destruct (mem_N i0 ids) eqn:M.
      + (* the id is known: nothing changes *)
        apply mem_N_In in M. apply Hin in M.
        assert (R : reg_add (c0, i0) reg = reg).
        { unfold reg_add. apply existsb_pair in M. now rewrite M. }
        rewrite R. exact (conj Ha (conj Hb (conj Hc Hd))).
      + assert (Hni : ~ In i0 ids).
        { intros H. apply mem_N_In in H. rewrite H in M. discriminate. }
        unfold set_add. rewrite M. unfold Inv. cbn [entries cron next].
        split; [|split; [|split; assumption]].
        * intros c. destruct (ct_eq_dec c c0) as [->|Hcc].
          -- rewrite upd_same. unfold okc. repeat split.
             ++ intros H. destruct ids; discriminate.
             ++ apply NoDup_snoc; assumption.
             ++ intros H. apply In_reg_add. apply in_app_or in H as [H|[<-|[]]]; [right; now apply Hin | now left].
             ++ intros H. apply In_reg_add in H as [H|H]; apply in_or_app.
                ** inversion H; subst. right; now left.
                ** left. now apply Hin.
             ++ exact Hcr.
          -- rewrite upd_other by assumption. apply (okc_other _ _ _ _ _ _ (Ha c)); [|auto].
             intros i. rewrite In_reg_add. split; [intros [H|H]; [exfalso; revert H; now apply pair_neq_c | assumption] | tauto].
        * intros e c Hec. destruct (Hb e c Hec) as [Hv [ids1 He]]. split; [assumption|].
          destruct (ct_eq_dec c c0) as [->|Hcc].
          -- rewrite E in He. inversion He; subst. rewrite upd_same. eauto.
          -- rewrite upd_other by assumption. eauto.
    - (* a new crontab *)
      simpl in Hc0.
      assert (Hfresh : forall e, In (e, c0) (cron s) -> False).
      { intros e H. destruct (Hb e c0 H) as [_ [ids He]]. rewrite E in He. discriminate. }
      assert (Hreg : forall c i, c <> c0 -> In (c, i) (reg_add (c0, i0) reg) <-> In (c, i) reg).
      { intros c i Hcc. rewrite In_reg_add. split; [intros [H|H]; [exfalso; revert H; now apply pair_neq_c | assumption] | tauto]. }
      assert (Hreg0 : forall i, In (c0, i) (reg_add (c0, i0) reg) <-> i = i0).
      { intros i. rewrite In_reg_add. split.
        - intros [H|H]; [now inversion H | exfalso; exact (Hc0 i H)].
        - intros ->. now left. }
      destruct (valid c0) eqn:V; cbn iota beta; rewrite upd_same; unfold set_add; simpl mem_N;
        rewrite N.eqb_refl; cbn [orb]; unfold Inv; cbn [entries cron next].
      + split; [|split; [|split]].
        * intros c. destruct (ct_eq_dec c c0) as [->|Hcc].
          -- rewrite upd_same. unfold okc. rewrite V. repeat split.
             ++ discriminate.
             ++ constructor; [intros [] | constructor].
             ++ intros [<-|[]]. now apply Hreg0.
             ++ intros H. apply Hreg0 in H. now left.
             ++ apply in_or_app. right. now left.
          -- rewrite !upd_other by assumption. apply (okc_other _ _ _ _ _ _ (Ha c)); [intros i; now apply Hreg|].
             intros e H. apply in_or_app. now left.
        * intros e c Hec. apply in_app_or in Hec as [Hec|[Hec|[]]].
          -- destruct (Hb e c Hec) as [Hv [ids1 He]]. split; [assumption|].
             destruct (ct_eq_dec c c0) as [->|Hcc]; [exfalso; eauto|].
             rewrite !upd_other by assumption. eauto.
          -- inversion Hec; subst. split; [assumption|]. rewrite upd_same. eauto.
        * rewrite map_app. simpl. apply NoDup_snoc; [assumption|].
          intros H. apply in_map_iff in H as [[e c] [He Hin]]. simpl in He. subst e.
          apply Hd in Hin. lia.
        * intros e c Hec. apply in_app_or in Hec as [Hec|[Hec|[]]].
          -- apply Hd in Hec. lia.
          -- inversion Hec; subst. lia.
      + split; [|split; [|split; assumption]].
        * intros c. destruct (ct_eq_dec c c0) as [->|Hcc].
          -- rewrite upd_same. unfold okc. rewrite V. repeat split.
             ++ discriminate.
             ++ constructor; [intros [] | constructor].
             ++ intros [<-|[]]. now apply Hreg0.
             ++ intros H. apply Hreg0 in H. now left.
          -- rewrite !upd_other by assumption. apply (okc_other _ _ _ _ _ _ (Ha c)); [intros i; now apply Hreg | auto].
        * intros e c Hec. destruct (Hb e c Hec) as [Hv [ids1 He]]. split; [assumption|].
          destruct (ct_eq_dec c c0) as [->|Hcc]; [exfalso; eauto|].
          rewrite !upd_other by assumption. eauto.
  Qed.

  Lemma In_set_del i i0 ids : In i (set_del i0 ids) <-> In i ids /\ i <> i0.
  Proof.
    unfold set_del. rewrite filter_In. split; intros [H1 H2]; split; try assumption.
    - intros ->. rewrite N.eqb_refl in H2. discriminate.
    - apply N.eqb_neq in H2. now rewrite H2.
  Qed.

  Lemma Inv_remove s reg c0 i0 : Inv s reg -> Inv (sm_remove s c0 i0) (reg_remove (c0, i0) reg).
  Proof.
    intros (Ha & Hb & Hc & Hd). unfold sm_remove.
    pose proof (Ha c0) as Hc0.
    assert (Hsame : ~ In (c0, i0) reg -> reg_remove (c0, i0) reg = reg).
    { intros Hn. unfold reg_remove. clear -Hn. induction reg as [|q l IH]; [reflexivity|]. simpl.
      destruct (pair_eqb q (c0, i0)) eqn:Eq.
      - apply pair_eqb_eq in Eq. subst. exfalso. apply Hn. now left.
      - simpl. f_equal. apply IH. intros H. apply Hn. now right. }
    destruct (entries s c0) as [[eid ids]|] eqn:E.
    - destruct Hc0 as (Hne & Hnd & Hin & Hcr).
      destruct (mem_N i0 ids) eqn:M; cbn [negb].
      + assert (Hreg : forall c i, c <> c0 -> In (c, i) (reg_remove (c0, i0) reg) <-> In (c, i) reg).
        { intros c i Hcc. rewrite In_reg_remove. split; [tauto|]. intros H. split; [assumption | now apply pair_neq_c]. }
        assert (Hreg0 : forall i, In (c0, i) (reg_remove (c0, i0) reg) <-> In i (set_del i0 ids)).
        { intros i. rewrite In_reg_remove, In_set_del, Hin. split; intros [H1 H2]; split; try assumption.
          - intros ->. now apply H2.
          - intros H. inversion H. contradiction. }
        destruct (set_del i0 ids) as [|j ids'] eqn:D; unfold Inv; cbn [entries cron next].
        * (* last id: the crontab goes away together with its cron entry *)
          split; [|split; [|split]].
          -- intros c. destruct (ct_eq_dec c c0) as [->|Hcc].
             ++ rewrite upd_same. simpl. intros i H. apply Hreg0 in H. exact H.
             ++ rewrite !upd_other by assumption. apply (okc_other _ _ _ _ _ _ (Ha c)); [intros i; now apply Hreg|].
                intros e He. apply filter_In. split; [assumption|]. simpl.
                destruct (N.eqb e eid) eqn:Ee; [|reflexivity]. apply N.eqb_eq in Ee. subst e. exfalso.
                destruct (valid c0) eqn:V.
                ** (* (eid,c) and (eid,c0) are both cron entries: ids are unique *)
                   clear -Hc He Hcr Hcc.
                   induction (cron s) as [|p l IH]; [contradiction|].
                   simpl in Hc. inversion Hc as [|? ? Hp Hl]; subst.
                   destruct He as [->|He], Hcr as [Hcr|Hcr].
                   --- inversion Hcr. contradiction.
                   --- apply Hp. simpl. change eid with (fst (eid, c0)). now apply in_map.
                   --- subst p. apply Hp. simpl. change eid with (fst (eid, c)). now apply in_map.
                   --- now apply IH.
                ** subst eid. apply Hd in He. lia.
          -- intros e c Hec. apply filter_In in Hec as [Hec Hne']. simpl in Hne'.
             destruct (Hb e c Hec) as [Hv [ids1 He]]. split; [assumption|].
             destruct (ct_eq_dec c c0) as [->|Hcc].
             ++ rewrite E in He. inversion He; subst. rewrite N.eqb_refl in Hne'. discriminate.
             ++ rewrite !upd_other by assumption. eauto.
          -- now apply NoDup_map_fst_filter.
          -- intros e c Hec. apply filter_In in Hec as [Hec _]. exact (Hd e c Hec).
        * split; [|split; [|split; assumption]].
          -- intros c. destruct (ct_eq_dec c c0) as [->|Hcc].
             ++ rewrite upd_same. unfold okc. repeat split.
                ** discriminate.
                ** rewrite <- D. unfold set_del. now apply NoDup_filter.
                ** intros H. now apply Hreg0.
                ** intros H. now apply Hreg0.
                ** exact Hcr.
             ++ rewrite upd_other by assumption. apply (okc_other _ _ _ _ _ _ (Ha c)); [intros i; now apply Hreg | auto].
          -- intros e c Hec. destruct (Hb e c Hec) as [Hv [ids1 He]]. split; [assumption|].
             destruct (ct_eq_dec c c0) as [->|Hcc].
             ++ rewrite E in He. inversion He; subst. rewrite upd_same. eauto.
             ++ rewrite upd_other by assumption. eauto.
      + (* unknown id for a known crontab *)
        rewrite Hsame; [exact (conj Ha (conj Hb (conj Hc Hd)))|].
        intros H. apply Hin in H. apply mem_N_In in H. rewrite H in M. discriminate.
    - (* unknown crontab *)
      rewrite Hsame; [exact (conj Ha (conj Hb (conj Hc Hd)))|]. simpl in Hc0. apply Hc0.
  Qed.

  Lemma Inv_step s reg o : Inv s reg -> Inv (sm_step valid s o) (reg_step reg o).
  Proof. destruct o; simpl; [apply Inv_add | apply Inv_remove]. Qed.

  Lemma Inv_fold h : forall s reg, Inv s reg ->
    Inv (fold_left (sm_step valid) h s) (fold_left reg_step h reg).
  Proof. induction h as [|o h IH]; intros s reg H; simpl; [assumption|]. apply IH, Inv_step, H. Qed.

  Lemma Inv_run h : Inv (sm_run valid h) (registered h).
  Proof. apply Inv_fold, Inv_init. Qed.

  (* ---------------------------------------------------------------- consequences *)

  Lemma count_le_1 (c : ct) (l : list (N * ct)) :
    NoDup (map fst l) ->
    (forall x y, In x l -> In y l -> snd x = c -> snd y = c -> fst x = fst y) ->
    (length (filter (fun e => ct_eqb (snd e) c) l) <= 1)%nat.
  Proof.
    induction l as [|x l IH]; simpl; intros Hn Hs; [lia|].
    inversion Hn as [|? ? Hx Hl]; subst.
    destruct (ct_eqb (snd x) c) eqn:Ex.
    - apply ct_eqb_eq in Ex. rewrite filter_all_false; [simpl; lia|].
      intros y Hy. destruct (ct_eqb (snd y) c) eqn:Ey; [|reflexivity]. apply ct_eqb_eq in Ey.
      exfalso. apply Hx. rewrite (Hs x y); auto. now apply in_map.
    - apply IH; [assumption|]. intros a b Ha Hb. apply Hs; now right.
  Qed.

  Lemma inv_single_entry s reg c : Inv s reg -> (cron_count c s <= 1)%nat.
  Proof.
    intros (Ha & Hb & Hc & Hd). unfold cron_count. apply count_le_1; [assumption|].
    intros [e1 c1] [e2 c2] H1 H2 E1 E2. simpl in *. subst c1 c2.
    destruct (Hb _ _ H1) as [_ [ids1 X1]]. destruct (Hb _ _ H2) as [_ [ids2 X2]].
    rewrite X1 in X2. now inversion X2.
  Qed.

  Lemma inv_refcount s reg c : Inv s reg ->
    ((exists e, In (e, c) (cron s)) <-> (valid c = true /\ exists i, In (c, i) reg)).
  Proof.
    intros (Ha & Hb & Hc & Hd). split.
    - intros [e He]. destruct (Hb e c He) as [Hv [ids Hi]]. split; [assumption|].
      pose proof (Ha c) as Hok. rewrite Hi in Hok. destruct Hok as (Hne & _ & Hin & _).
      destruct ids as [|i ids]; [contradiction|]. exists i. apply Hin. now left.
    - intros [Hv [i Hi]]. pose proof (Ha c) as Hok. destruct (entries s c) as [[eid ids]|].
      + destruct Hok as (_ & _ & _ & Hcr). rewrite Hv in Hcr. eauto.
      + exfalso. exact (Hok i Hi).
  Qed.

  Lemma inv_count_exact s reg c : Inv s reg ->
    cron_count c s = (if valid c && has_binding c reg then 1 else 0)%nat.
  Proof.
    intros HI. pose proof (inv_single_entry s reg c HI) as Hle. pose proof (inv_refcount s reg c HI) as Hrc.
    unfold cron_count in *.
    destruct (valid c && has_binding c reg) eqn:B.
    - apply andb_true_iff in B as [Hv Hb]. apply has_binding_In in Hb.
      destruct (proj2 Hrc (conj Hv Hb)) as [e He].
      assert (Hin : In (e, c) (filter (fun e0 : N * ct => ct_eqb (snd e0) c) (cron s))).
      { apply filter_In. split; [assumption | apply ct_eqb_refl]. }
      destruct (filter (fun e0 : N * ct => ct_eqb (snd e0) c) (cron s)); [contradiction | simpl in *; lia].
    - rewrite filter_all_false; [reflexivity|]. intros [e c'] He. simpl.
      destruct (ct_eqb c' c) eqn:Ec; [|reflexivity]. apply ct_eqb_eq in Ec. subst c'. exfalso.
      destruct (proj1 Hrc (ex_intro _ e He)) as [Hv Hb]. apply has_binding_In in Hb.
      rewrite Hv, Hb in B. discriminate.
  Qed.

  (* Entries refines the registry *)
  Lemma inv_entries s reg c : Inv s reg ->
    match entries s c with
    | None => forall i, ~ In (c, i) reg
    | Some (_, ids) => ids <> [] /\ NoDup ids /\ forall i, In i ids <-> In (c, i) reg
    end.
  Proof.
    intros (Ha & _). pose proof (Ha c) as H. destruct (entries s c) as [[eid ids]|]; [|exact H].
    destruct H as (H1 & H2 & H3 & _). auto.
  Qed.
End SM.

(* ------------------------------------------------------------------ the controller *)

Definition kv (b : binding) : N * link := (b_id b, link_of b).
Definition set_links (m : links) (bs : list binding) : links :=
  fold_left (fun m b => map_set (b_id b) (link_of b) m) bs m.
Definition del_links (m : links) (bs : list binding) : links :=
  fold_left (fun m b => map_del (b_id b) m) bs m.

Lemma enable_split valid bs : forall m s,
  enable valid bs (m, s)
  = (set_links m bs, fold_left (sm_step valid) (map (fun b => Add (b_crontab b) (b_id b)) bs) s).
Proof.
  unfold enable, set_links. induction bs as [|b bs IH]; intros m s; simpl; [reflexivity|]. apply IH.
Qed.

Lemma disable_split valid bs : forall m s,
  disable bs (m, s)
  = (del_links m bs, fold_left (sm_step valid) (map (fun b => Remove (b_crontab b) (b_id b)) bs) s).
Proof.
  unfold disable, del_links. induction bs as [|b bs IH]; intros m s; simpl; [reflexivity|]. apply IH.
Qed.

Lemma map_set_absent k v (m : links) : ~ In k (map fst m) -> map_set k v m = m ++ [(k, v)].
Proof.
  induction m as [|[k' x] m IH]; simpl; intros H; [reflexivity|].
  destruct (N.eqb k' k) eqn:E.
  - apply N.eqb_eq in E. exfalso. apply H. now left.
  - f_equal. apply IH. intros Hin. apply H. now right.
Qed.

Lemma map_set_same k v (m : links) : NoDup (map fst m) -> In (k, v) m -> map_set k v m = m.
Proof.
  induction m as [|[k' x] m IH]; simpl; intros Hn Hin; [contradiction|].
  inversion Hn as [|? ? Hk Hm]; subst.
  destruct (N.eqb k' k) eqn:E.
  - apply N.eqb_eq in E. subst k'. destruct Hin as [Hin|Hin]; [now inversion Hin|].
    exfalso. apply Hk. change k with (fst (k, v)). now apply in_map.
  - destruct Hin as [Hin|Hin]; [inversion Hin; subst; rewrite N.eqb_refl in E; discriminate|].
    f_equal. now apply IH.
Qed.

Lemma map_fst_kv bs : map fst (map kv bs) = map b_id bs.
Proof. rewrite map_map. reflexivity. Qed.

Lemma set_links_from_prefix bs : forall done,
  NoDup (map b_id (done ++ bs)) -> set_links (map kv done) bs = map kv (done ++ bs).
Proof.
  unfold set_links. induction bs as [|b bs IH]; intros done Hn; simpl; [now rewrite app_nil_r|].
  rewrite map_set_absent.
  - change (map kv done ++ [(b_id b, link_of b)]) with (map kv done ++ map kv [b]).
    rewrite <- map_app. rewrite IH; rewrite <- app_assoc; [reflexivity | exact Hn].
  - rewrite map_fst_kv. rewrite map_app in Hn. simpl in Hn.
    apply NoDup_remove_2 in Hn. intros H. apply Hn, in_or_app. now left.
Qed.

Lemma set_links_idem all bs :
  NoDup (map b_id all) -> incl bs all -> set_links (map kv all) bs = map kv all.
Proof.
  unfold set_links. induction bs as [|b bs IH]; intros Hn Hi; simpl; [reflexivity|].
  rewrite map_set_same.
  - apply IH; [assumption|]. intros x Hx. apply Hi. now right.
  - now rewrite map_fst_kv.
  - change (b_id b, link_of b) with (kv b). apply in_map, Hi. now left.
Qed.

Lemma del_links_filter bs : forall m,
  del_links m bs = filter (fun p => negb (mem_N (fst p) (map b_id bs))) m.
Proof.
  unfold del_links. induction bs as [|b bs IH]; intros m; simpl.
  - symmetry. clear. induction m as [|p m IH]; simpl; [reflexivity | now rewrite IH].
  - rewrite IH. unfold map_del. clear. induction m as [|p m IH]; simpl; [reflexivity|].
    rewrite (N.eqb_sym (fst p) (b_id b)).
    destruct (N.eqb (b_id b) (fst p)); simpl; [exact IH|].
    destruct (mem_N (fst p) (map b_id bs)); simpl; [exact IH | now rewrite IH].
Qed.

Lemma del_links_all bs : del_links (map kv bs) bs = [].
Proof.
  rewrite del_links_filter. apply filter_all_false. intros p Hp.
  apply in_map_iff in Hp as [b [<- Hb]]. simpl.
  assert (E : mem_N (b_id b) (map b_id bs) = true) by (apply mem_N_In; now apply in_map).
  now rewrite E.
Qed.

Lemma del_links_nil bs : del_links [] bs = [].
Proof. now rewrite del_links_filter. Qed.

(* the links of one hook: all its bindings when enabled, none otherwise *)
Definition links_of (bs : list binding) (enabled : bool) : links := if enabled then map kv bs else [].

Lemma set_links_of bs e : NoDup (map b_id bs) -> set_links (links_of bs e) bs = links_of bs true.
Proof.
  intros Hn. destruct e; simpl.
  - apply set_links_idem; [assumption | apply incl_refl].
  - apply (set_links_from_prefix bs []). exact Hn.
Qed.

Lemma del_links_of bs e : del_links (links_of bs e) bs = links_of bs false.
Proof. destruct e; simpl; [apply del_links_all | apply del_links_nil]. Qed.

Lemma handle_event_links bs e c : handle_event c (links_of bs e) = expected_infos bs e c.
Proof.
  unfold handle_event, expected_infos, links_of. destruct e; [|reflexivity].
  induction bs as [|b bs IH]; simpl; [reflexivity|].
  destruct (ct_eqb (b_crontab b) c); simpl; now rewrite IH.
Qed.

Lemma can_handle_links bs e c : can_handle c (links_of bs e) = negb (is_nil (expected_infos bs e c)).
Proof.
  unfold can_handle, expected_infos, links_of. destruct e; [|reflexivity].
  induction bs as [|b bs IH]; simpl; [reflexivity|].
  destruct (ct_eqb (b_crontab b) c); simpl; [reflexivity | exact IH].
Qed.

Lemma ns_eqb_refl l : ns_eqb l l = true.
Proof. apply list_eqb_refl, N.eqb_refl. Qed.
Lemma info_eqb_refl x : info_eqb x x = true.
Proof. unfold info_eqb. now rewrite !N.eqb_refl, !ns_eqb_refl, !Bool.eqb_reflx. Qed.
Lemma is_perm_refl l : is_perm l l = true.
Proof. induction l as [|x l IH]; [reflexivity|]. simpl. now rewrite info_eqb_refl. Qed.

(* one controller, any sequence of Enable (true) / Disable (false) calls *)
Definition ctl_step (valid : ct -> bool) (bs : list binding) (st : links * sm) (e : bool) : links * sm :=
  if e then enable valid bs st else disable bs st.

Lemma last_cons_default A (l : list A) : forall x d1 d2, last (x :: l) d1 = last (x :: l) d2.
Proof. induction l as [|y l IH]; intros x d1 d2; [reflexivity|]. exact (IH y d1 d2). Qed.

Lemma last_cons_cons A (x y : A) l d : last (x :: y :: l) d = last (y :: l) d.
Proof. reflexivity. Qed.

Lemma ctl_links valid bs : NoDup (map b_id bs) -> forall calls e0 s0,
  fst (fold_left (ctl_step valid bs) calls (links_of bs e0, s0)) = links_of bs (last calls e0).
Proof.
  intros Hn. induction calls as [|e calls IH]; intros e0 s0; [reflexivity|].
  cbn [fold_left]. unfold ctl_step at 2. destruct e.
  - rewrite enable_split, set_links_of by assumption. rewrite IH. destruct calls; [reflexivity | rewrite last_cons_cons; f_equal; apply last_cons_default].
  - rewrite (disable_split valid), del_links_of. rewrite IH. destruct calls; [reflexivity | rewrite last_cons_cons; f_equal; apply last_cons_default].
Qed.

Lemma ctl_links0 valid bs calls s0 : NoDup (map b_id bs) ->
  fst (fold_left (ctl_step valid bs) calls ([], s0)) = links_of bs (last calls false).
Proof. intros Hn. exact (ctl_links valid bs Hn calls false s0). Qed.

Lemma fire_exactly_bindings valid bs calls s0 c h :
  NoDup (map b_id bs) ->
  let m := fst (fold_left (ctl_step valid bs) calls ([], s0)) in
  let enabled := last calls false in
  let fired := filter (fun b => ct_eqb (b_crontab b) c) bs in
  Permutation (handle_event c m) (if enabled then map info_of_binding fired else [])
  /\ can_handle c m = (if enabled then negb (is_nil fired) else false)
  /\ Permutation (map (task_of_info h) (handle_event c m))
       (if enabled
        then map (fun b => mkSTask h (b_queue b) (b_name b) (b_group b) (b_af b)
                                   (b_name b) (b_snaps b) (b_group b)) fired
        else []).
Proof.
  intros Hn. cbv zeta. rewrite ctl_links0 by assumption. rewrite handle_event_links, can_handle_links.
  unfold expected_infos. destruct (last calls false).
  - split; [apply Permutation_refl|]. split.
    + induction (filter (fun b => ct_eqb (b_crontab b) c) bs); reflexivity.
    + rewrite map_map. apply Permutation_refl.
  - repeat split; constructor.
Qed.

(* ------------------------------------------------------------------ the schedule channel *)

Lemma extract_perm A n : forall (l : list A) y r, extract n l = Some (y, r) -> Permutation l (y :: r).
Proof.
  induction n as [|n IH]; intros [|x l] y r H; cbn [extract] in H; try discriminate.
  - inversion H; subst. apply Permutation_refl.
  - destruct (extract n l) as [[y' r']|] eqn:E; inversion H; subst.
    + eapply Permutation_trans; [apply perm_skip, (IH _ _ _ E)|]. apply perm_swap.
    + apply Permutation_refl.
Qed.

Lemma extract_none A n (l : list A) : extract n l = None -> l = [].
Proof.
  destruct l as [|x l]; [reflexivity|]. destruct n as [|n]; cbn [extract]; [discriminate|].
  destruct (extract n l) as [[y r]|]; discriminate.
Qed.

(* a receive takes one of the pending values and leaves the others pending *)
Lemma ch_recv_perm pick k c k' :
  ch_recv pick k = Some (c, k') -> Permutation (ch_pending k) (c :: ch_pending k').
Proof.
  unfold ch_recv, ch_pending. destruct k as [b p]. cbn [buf parked].
  destruct b as [|x b]; destruct (extract pick p) as [[y r]|] eqn:E; intros H; inversion H; subst; cbn [buf parked app].
  - apply (extract_perm _ _ _ _ _ E).
  - apply perm_skip. rewrite <- app_assoc. apply Permutation_app_head. cbn [app].
    apply (extract_perm _ _ _ _ _ E).
  - apply extract_none in E. subst p. rewrite !app_nil_r. apply Permutation_refl.
Qed.

Lemma ch_recv_none pick k : ch_recv pick k = None -> k = ch_empty.
Proof.
  unfold ch_recv. destruct k as [b p]. cbn [buf parked]. destruct b as [|x b]; [|discriminate].
  destruct (extract pick p) as [[y r]|] eqn:E; [discriminate|]. intros _.
  apply extract_none in E. now subst.
Qed.

Lemma ch_pending_nil k : ch_pending k = [] -> k = ch_empty.
Proof.
  destruct k as [b p]. unfold ch_pending. cbn [buf parked]. intros H.
  apply app_eq_nil in H as [-> ->]. reflexivity.
Qed.

(* whatever the runtime's choices: the consumer receives every pending value exactly once
   and leaves the channel empty, no goroutine parked *)
Lemma ch_drain_perm picks : forall fuel k, fuel = length (ch_pending k) ->
  Permutation (fst (ch_drain fuel picks k)) (ch_pending k) /\ snd (ch_drain fuel picks k) = ch_empty.
Proof.
  induction fuel as [|f IH]; intros k Hf; cbn [ch_drain].
  - symmetry in Hf. apply length_zero_iff_nil in Hf. rewrite Hf. cbn [fst snd].
    split; [constructor | now apply ch_pending_nil].
  - destruct (ch_recv (picks f) k) as [[c k']|] eqn:R.
    + pose proof (ch_recv_perm _ _ _ _ R) as Hp.
      assert (Hl : f = length (ch_pending k')).
      { apply Permutation_length in Hp. cbn [length] in Hp. lia. }
      destruct (IH k' Hl) as [H1 H2]. destruct (ch_drain f picks k') as [r k'']. cbn [fst snd] in *.
      split; [|exact H2]. apply Permutation_sym. eapply Permutation_trans; [exact Hp|].
      apply perm_skip, Permutation_sym, H1.
    + apply ch_recv_none in R. subst k. discriminate.
Qed.

Lemma ch_drain_with_perm picks k :
  Permutation (fst (ch_drain_with picks k)) (ch_pending k) /\ snd (ch_drain_with picks k) = ch_empty.
Proof. apply ch_drain_perm. reflexivity. Qed.

Lemma ch_drain_all_spec k r k' : ch_drain_all k = (r, k') -> Permutation r (ch_pending k) /\ k' = ch_empty.
Proof.
  intros H. destruct (ch_drain_with_perm (fun _ => O) k) as [H1 H2].
  unfold ch_drain_all in H. rewrite H in H1, H2. exact (conj H1 H2).
Qed.

(* a send adds its value to the pending ones: into the buffer or with a parked goroutine,
   never nowhere *)
Lemma ch_send_pending k c : Permutation (ch_pending (ch_send k c)) (ch_pending k ++ [c]).
Proof.
  unfold ch_send, ch_pending. destruct (Nat.ltb (length (buf k)) ch_cap); cbn [buf parked].
  - rewrite <- !app_assoc. apply Permutation_app_head. apply Permutation_app_comm.
  - rewrite app_assoc. apply Permutation_refl.
Qed.

Lemma ch_start_pending cs : forall k, Permutation (ch_pending (ch_start cs k)) (ch_pending k ++ cs).
Proof.
  unfold ch_start. induction cs as [|c cs IH]; intros k; cbn [fold_left].
  - rewrite app_nil_r. apply Permutation_refl.
  - eapply Permutation_trans; [apply IH|].
    eapply Permutation_trans; [apply Permutation_app_tail, ch_send_pending|].
    rewrite <- app_assoc. apply Permutation_refl.
Qed.

(* the jobs [cs] are started together (they reach their send in any order [cs']), nobody
   receives meanwhile; then the consumer receives until nothing arrives: it gets what was
   pending before and the string of every job started, each exactly once *)
Lemma concurrent_all_delivered picks cs cs' k :
  Permutation cs cs' ->
  Permutation (fst (ch_drain_with picks (ch_start cs' k))) (ch_pending k ++ cs)
  /\ snd (ch_drain_with picks (ch_start cs' k)) = ch_empty.
Proof.
  intros Hp. destruct (ch_drain_with_perm picks (ch_start cs' k)) as [H1 H2]. split; [|exact H2].
  eapply Permutation_trans; [exact H1|]. eapply Permutation_trans; [apply ch_start_pending|].
  apply Permutation_app_head, Permutation_sym, Hp.
Qed.

(* the sends block: of the jobs started while nobody receives, as many return as the buffer
   has room for, every other one stays parked in its send *)
Lemma ch_send_lengths k c : (length (buf k) <= ch_cap)%nat ->
  length (buf (ch_send k c)) = Nat.min ch_cap (length (buf k) + 1)
  /\ (length (buf (ch_send k c)) + length (parked (ch_send k c)) = length (buf k) + length (parked k) + 1)%nat.
Proof.
  unfold ch_send, ch_cap. intros H. destruct (Nat.ltb (length (buf k)) 1) eqn:E; cbn [buf parked]; rewrite ?app_length; cbn [length].
  - apply Nat.ltb_lt in E. lia.
  - apply Nat.ltb_ge in E. lia.
Qed.

Lemma ch_start_lengths cs : forall k, (length (buf k) <= ch_cap)%nat ->
  length (buf (ch_start cs k)) = Nat.min ch_cap (length (buf k) + length cs)
  /\ (length (buf (ch_start cs k)) + length (parked (ch_start cs k)) = length (buf k) + length (parked k) + length cs)%nat.
Proof.
  unfold ch_start. induction cs as [|c cs IH]; intros k H; cbn [fold_left length].
  - unfold ch_cap in *. lia.
  - destruct (ch_send_lengths k c H) as [H1 H2].
    assert (H' : (length (buf (ch_send k c)) <= ch_cap)%nat) by (rewrite H1; apply Nat.le_min_l).
    destruct (IH _ H') as [H3 H4]. unfold ch_cap in *. lia.
Qed.

(* ------------------------------------------------------------------ the whole system *)

Fixpoint links_ok (hooks : list (list binding)) (en : list bool) (ls : list links) : Prop :=
  match hooks, en, ls with
  | [], [], [] => True
  | bs :: hr, e :: er, m :: lr => (NoDup (map b_id bs) -> m = links_of bs e) /\ links_ok hr er lr
  | _, _, _ => False
  end.

Lemma links_ok_nth hooks : forall en ls n,
  links_ok hooks en ls -> NoDup (map b_id (nth n hooks [])) ->
  nth n ls [] = links_of (nth n hooks []) (nth n en false).
Proof.
  induction hooks as [|bs hr IH]; intros [|e er] [|m lr] n H Hn; simpl in H; try contradiction.
  - destruct n; reflexivity.
  - destruct H as [H1 H2]. destruct n; simpl in *; [now apply H1 | now apply IH].
Qed.

Lemma links_ok_set hooks : forall en ls n e' m',
  links_ok hooks en ls ->
  (NoDup (map b_id (nth n hooks [])) -> m' = links_of (nth n hooks []) e') ->
  links_ok hooks (set_nth n e' en) (set_nth n m' ls).
Proof.
  induction hooks as [|bs hr IH]; intros [|e er] [|m lr] n e' m' H Hm; simpl in H; try contradiction.
  - destruct n; exact I.
  - destruct H as [H1 H2]. destruct n; simpl in *; [split; assumption | split; [assumption | now apply IH]].
Qed.

Lemma links_ok_init hooks : links_ok hooks (map (fun _ => false) hooks) (map (fun _ => []) hooks).
Proof. induction hooks as [|bs hr IH]; simpl; [exact I | split; [reflexivity | exact IH]]. Qed.

Lemma check_fire_ok c hooks : forall en ls,
  links_ok hooks en ls ->
  check_fire c hooks en (map (fun m => (can_handle c m, handle_event c m)) ls) = true.
Proof.
  induction hooks as [|bs hr IH]; intros [|e er] [|m lr] H; simpl in H; try contradiction; [reflexivity|].
  destruct H as [H1 H2]. cbn [map check_fire]. rewrite (IH _ _ H2), andb_true_r.
  unfold check_hook, check_answer. destruct (nodupb (map b_id bs)) eqn:Nd; [|reflexivity].
  apply nodupb_NoDup in Nd. rewrite (H1 Nd). cbn [fst snd].
  rewrite can_handle_links, handle_event_links, is_perm_refl, Bool.eqb_reflx. reflexivity.
Qed.


(* ------------------------------------------------------------------ the firing path *)

(* HandleScheduleEvent asks CanHandleEvent first; HandleEvent would have answered nothing *)
Lemma handle_event_cannot c m : can_handle c m = false -> handle_event c m = [].
Proof.
  unfold can_handle, handle_event. intros H. rewrite filter_all_false; [reflexivity|].
  intros p Hp. destruct (ct_eqb (l_crontab (snd p)) c) eqn:E; [|reflexivity].
  assert (X : existsb (fun p0 => ct_eqb (l_crontab (snd p0)) c) m = true)
    by (apply existsb_exists; eauto).
  rewrite X in H. discriminate.
Qed.

Lemma dispatch_hook_eq c m : dispatch_hook c m = (can_handle c m, handle_event c m).
Proof.
  unfold dispatch_hook. destruct (can_handle c m) eqn:E; [reflexivity|].
  now rewrite handle_event_cannot.
Qed.

Lemma dispatch_eq c ls : dispatch c ls = map (fun m => (can_handle c m, handle_event c m)) ls.
Proof. unfold dispatch. apply map_ext. intros m. apply dispatch_hook_eq. Qed.

Lemma tick_hook_eq cs m :
  tick_hook cs m = (existsb (fun c => can_handle c m) cs, flat_map (fun c => handle_event c m) cs).
Proof.
  unfold tick_hook. f_equal. induction cs as [|c cs IH]; [reflexivity|].
  cbn [flat_map]. now rewrite IH, dispatch_hook_eq.
Qed.

(* multiset comparison is complete for permutations *)
Lemma info_eqb_eq x y : info_eqb x y = true <-> x = y.
Proof.
  split; [|intros ->; apply info_eqb_refl].
  destruct x, y. unfold info_eqb. cbn.
  rewrite !andb_true_iff. intros [[[[[[[[H1 H2] H3] H4] H5] H6] H7] H8] H9].
  apply N.eqb_eq in H1, H2, H5, H6, H9. apply Bool.eqb_prop in H3, H7.
  apply (list_eqb_eq N.eqb N_eqb_iff) in H4, H8. now subst.
Qed.

Lemma remove_first_In x l : In x l ->
  exists l1 l2, l = l1 ++ x :: l2 /\ remove_first x l = Some (l1 ++ l2).
Proof.
  induction l as [|y l IH]; [contradiction|]. intros Hin. cbn [remove_first].
  destruct (info_eqb x y) eqn:E.
  - apply info_eqb_eq in E. subst y. exists [], l. split; reflexivity.
  - destruct Hin as [->|Hin]; [rewrite info_eqb_refl in E; discriminate|].
    destruct (IH Hin) as (l1 & l2 & -> & R). rewrite R. exists (y :: l1), l2. split; reflexivity.
Qed.

Lemma is_perm_complete a : forall b, Permutation a b -> is_perm a b = true.
Proof.
  induction a as [|x a IH]; intros b Hp.
  - apply Permutation_nil in Hp. now subst.
  - cbn [is_perm].
    assert (Hin : In x b) by (eapply Permutation_in; [exact Hp | now left]).
    destruct (remove_first_In x b Hin) as (l1 & l2 & -> & R). rewrite R.
    apply IH. eapply Permutation_cons_app_inv. exact Hp.
Qed.

(* the strings [cs] arrive, each at most once: what is handled of [bs] *)
Lemma filter_or_perm A (p q : A -> bool) l :
  (forall x, In x l -> p x = true -> q x = false) ->
  Permutation (filter p l ++ filter q l) (filter (fun x => p x || q x) l).
Proof.
  induction l as [|x l IH]; intros H; [constructor|]. cbn [filter].
  assert (IH' : Permutation (filter p l ++ filter q l) (filter (fun x => p x || q x) l)).
  { apply IH. intros y Hy. apply H. now right. }
  destruct (p x) eqn:Px.
  - rewrite (H x (or_introl eq_refl) Px). cbn [orb app]. now constructor.
  - cbn [orb]. destruct (q x).
    + apply Permutation_sym, Permutation_cons_app, Permutation_sym, IH'.
    + exact IH'.
Qed.

Lemma flat_filter_perm (bs : list binding) cs : NoDup cs ->
  Permutation (flat_map (fun c => filter (fun b => ct_eqb (b_crontab b) c) bs) cs)
              (filter (fun b => mem_ct (b_crontab b) cs) bs).
Proof.
  induction 1 as [|c cs Hc Hn IH]; cbn [flat_map].
  - rewrite filter_all_false; [constructor | reflexivity].
  - eapply Permutation_trans; [apply Permutation_app_head, IH|].
    eapply Permutation_trans; [apply filter_or_perm|].
    + intros b _ E. apply ct_eqb_eq in E. subst c.
      destruct (mem_ct (b_crontab b) cs) eqn:M; [|reflexivity]. apply mem_ct_In in M. contradiction.
    + assert (X : forall b, ct_eqb (b_crontab b) c || mem_ct (b_crontab b) cs = mem_ct (b_crontab b) (c :: cs)).
      { intros b. unfold mem_ct. cbn [existsb]. reflexivity. }
      rewrite (filter_ext _ _ X). apply Permutation_refl.
Qed.

Definition count_ct (c : ct) (cs : list ct) : nat := length (filter (fun x => ct_eqb x c) cs).

Lemma count_ct_map c (cr : list (N * ct)) : count_ct c (map snd cr) = count_fires c cr.
Proof.
  unfold count_ct, count_fires. induction cr as [|e cr IH]; [reflexivity|]. cbn [map filter].
  destruct (ct_eqb (snd e) c); cbn [length]; now rewrite IH.
Qed.

Lemma count_ct_pos c cs : In c cs <-> (1 <= count_ct c cs)%nat.
Proof.
  unfold count_ct. split.
  - intros H. assert (X : In c (filter (fun x => ct_eqb x c) cs))
      by (apply filter_In; split; [assumption | apply ct_eqb_refl]).
    destruct (filter (fun x => ct_eqb x c) cs); [contradiction | simpl; lia].
  - intros H. destruct (filter (fun x => ct_eqb x c) cs) as [|y l] eqn:F; [simpl in H; lia|].
    assert (X : In y (filter (fun x => ct_eqb x c) cs)) by (rewrite F; now left).
    apply filter_In in X as [X1 X2]. apply ct_eqb_eq in X2. now subst.
Qed.

Lemma count_ct_nodup cs : (forall c, (count_ct c cs <= 1)%nat) -> NoDup cs.
Proof.
  induction cs as [|x cs IH]; intros H; constructor.
  - intros Hin. apply count_ct_pos in Hin. specialize (H x). unfold count_ct in *. cbn [filter] in H.
    rewrite ct_eqb_refl in H. cbn [length] in H. lia.
  - apply IH. intros c. specialize (H c). unfold count_ct in *. cbn [filter] in H.
    destruct (ct_eqb x c); cbn [length] in H; lia.
Qed.

(* if every string arrives once when [g] says so and never otherwise, the bindings
   handled are those whose crontab satisfies [g], each once *)
Lemma round_perm (g : ct -> bool) bs cs :
  (forall c, count_ct c cs = if g c then 1 else 0)%nat ->
  Permutation (flat_map (fun c => filter (fun b => ct_eqb (b_crontab b) c) bs) cs)
              (filter (fun b => g (b_crontab b)) bs)
  /\ forall c, mem_ct c cs = g c.
Proof.
  intros H.
  assert (M : forall c, mem_ct c cs = g c).
  { intros c. apply Bool.eq_iff_eq_true. rewrite mem_ct_In, count_ct_pos, H. destruct (g c); split; intros; try lia; auto; discriminate. }
  split; [|exact M].
  rewrite <- (filter_ext (fun b => mem_ct (b_crontab b) cs) (fun b => g (b_crontab b)) (fun b => M (b_crontab b))).
  apply flat_filter_perm, count_ct_nodup. intros c. rewrite H. destruct (g c); lia.
Qed.

Lemma flat_map_map_commute A B C (f : B -> C) (k : A -> list B) l :
  flat_map (fun x => map f (k x)) l = map f (flat_map k l).
Proof. induction l as [|x l IH]; [reflexivity|]. cbn [flat_map]. now rewrite map_app, IH. Qed.

Lemma tick_hook_links valid reg bs e cs :
  (forall c, count_ct c cs = if fires valid reg c then 1 else 0)%nat ->
  Permutation (snd (tick_hook cs (links_of bs e))) (expected_round valid reg bs e)
  /\ fst (tick_hook cs (links_of bs e)) = negb (is_nil (expected_round valid reg bs e)).
Proof.
  intros H. rewrite tick_hook_eq. cbn [fst snd].
  destruct (round_perm (fires valid reg) bs cs H) as [Hp Hm].
  destruct e.
  - split.
    + rewrite (flat_map_ext _ _ (fun c => handle_event_links bs true c)).
      unfold expected_infos, expected_round. rewrite flat_map_map_commute. now apply Permutation_map.
    + unfold expected_round. apply Bool.eq_iff_eq_true. rewrite existsb_exists. split.
      * intros [c [Hc Hcan]]. rewrite can_handle_links in Hcan. unfold expected_infos in Hcan.
        destruct (filter (fun b => ct_eqb (b_crontab b) c) bs) as [|b l] eqn:F; [discriminate|].
        assert (X : In b (filter (fun b => ct_eqb (b_crontab b) c) bs)) by (rewrite F; now left).
        apply filter_In in X as [X1 X2]. apply ct_eqb_eq in X2.
        assert (Y : In b (filter (fun b => fires valid reg (b_crontab b)) bs)).
        { apply filter_In. split; [assumption|]. rewrite <- Hm, X2. now apply mem_ct_In. }
        destruct (filter (fun b => fires valid reg (b_crontab b)) bs); [contradiction | reflexivity].
      * intros Hne. destruct (filter (fun b => fires valid reg (b_crontab b)) bs) as [|b l] eqn:F; [discriminate|].
        assert (X : In b (filter (fun b => fires valid reg (b_crontab b)) bs)) by (rewrite F; now left).
        apply filter_In in X as [X1 X2]. rewrite <- Hm in X2. apply mem_ct_In in X2.
        exists (b_crontab b). split; [assumption|]. rewrite can_handle_links. unfold expected_infos.
        assert (Y : In b (filter (fun b0 => ct_eqb (b_crontab b0) (b_crontab b)) bs))
          by (apply filter_In; split; [assumption | apply ct_eqb_refl]).
        destruct (filter (fun b0 => ct_eqb (b_crontab b0) (b_crontab b)) bs); [contradiction | reflexivity].
  - unfold expected_round, links_of. clear. split.
    + induction cs as [|c cs IH]; [constructor|]. exact IH.
    + induction cs as [|c cs IH]; [reflexivity|]. exact IH.
Qed.

Lemma check_round_ok valid reg cs hooks : forall en ls,
  (forall c, count_ct c cs = if fires valid reg c then 1 else 0)%nat ->
  links_ok hooks en ls ->
  check_round valid reg hooks en (tick_all cs ls) = true.
Proof.
  induction hooks as [|bs hr IH]; intros [|e er] [|m lr] Hc H; simpl in H; try contradiction; [reflexivity|].
  destruct H as [H1 H2]. unfold tick_all. cbn [map check_round].
  fold (tick_all cs lr). rewrite (IH _ _ Hc H2), andb_true_r.
  unfold check_answer. destruct (nodupb (map b_id bs)) eqn:Nd; [|reflexivity].
  apply nodupb_NoDup in Nd. rewrite (H1 Nd).
  destruct (tick_hook_links valid reg bs e cs Hc) as [Hp Hf].
  rewrite Hf, Bool.eqb_reflx. now apply is_perm_complete.
Qed.


(* ------------------------------------------------------------------ firings that wait for the consumer *)

Lemma existsb_perm A (f : A -> bool) l l' : Permutation l l' -> existsb f l = existsb f l'.
Proof.
  induction 1 as [|x l l' _ IH|x y l|l l' l'' _ IH1 _ IH2]; cbn [existsb].
  - reflexivity.
  - now rewrite IH.
  - destruct (f x), (f y); reflexivity.
  - now rewrite IH1.
Qed.

Lemma existsb_ext_in A (f g : A -> bool) l : (forall x, f x = g x) -> existsb f l = existsb g l.
Proof. intros H. induction l as [|x l IH]; [reflexivity|]. cbn [existsb]. now rewrite H, IH. Qed.

Lemma is_nil_perm A (l l' : list A) : Permutation l l' -> is_nil l = is_nil l'.
Proof. intros H. apply Permutation_length in H. destruct l, l'; try reflexivity; discriminate. Qed.

Lemma existsb_flat_nil A B (f : A -> list B) l :
  existsb (fun x => negb (is_nil (f x))) l = negb (is_nil (flat_map f l)).
Proof.
  induction l as [|x l IH]; [reflexivity|]. cbn [existsb flat_map]. rewrite IH.
  destruct (f x); reflexivity.
Qed.

(* the strings [cs'] are received in any order: what one hook's controller answers *)
Lemma tick_hook_burst bs e cs cs' : Permutation cs cs' ->
  Permutation (snd (tick_hook cs' (links_of bs e))) (expected_burst bs e cs)
  /\ fst (tick_hook cs' (links_of bs e)) = negb (is_nil (expected_burst bs e cs)).
Proof.
  intros Hp. rewrite tick_hook_eq. cbn [fst snd]. unfold expected_burst.
  rewrite (flat_map_ext _ _ (fun c => handle_event_links bs e c)).
  rewrite (existsb_ext_in _ _ _ _ (fun c => can_handle_links bs e c)).
  split.
  - apply Permutation_flat_map, Permutation_sym, Hp.
  - rewrite existsb_flat_nil. f_equal. apply is_nil_perm, Permutation_flat_map, Permutation_sym, Hp.
Qed.

Lemma check_burst_ok cs cs' hooks : forall en ls,
  Permutation cs cs' -> links_ok hooks en ls ->
  check_burst cs hooks en (tick_all cs' ls) = true.
Proof.
  induction hooks as [|bs hr IH]; intros [|e er] [|m lr] Hp H; simpl in H; try contradiction; [reflexivity|].
  destruct H as [H1 H2]. unfold tick_all. cbn [map check_burst].
  fold (tick_all cs' lr). rewrite (IH _ _ Hp H2), andb_true_r.
  unfold check_answer. destruct (nodupb (map b_id bs)) eqn:Nd; [|reflexivity].
  apply nodupb_NoDup in Nd. rewrite (H1 Nd).
  destruct (tick_hook_burst bs e cs cs' Hp) as [Hq Hf].
  rewrite Hf, Bool.eqb_reflx. now apply is_perm_complete.
Qed.

Lemma tick_all_single c ls : tick_all [c] ls = map (fun m => (can_handle c m, handle_event c m)) ls.
Proof.
  unfold tick_all. apply map_ext. intros m. rewrite tick_hook_eq. cbn [existsb flat_map].
  now rewrite orb_false_r, app_nil_r.
Qed.

Lemma fired_of_strings cr ns : fired_of cr ns = fired_strings cr ns.
Proof. reflexivity. Qed.

Definition Rel (i : input) (s : sys) (st : spec_state) : Prop :=
  Inv (valid_of (i_invalid i)) (s_sm s) (fst st) /\ links_ok (i_hooks i) (snd st) (s_links s).

Lemma nth_nil_default n : forall (hooks : list (list binding)),
  (length hooks <= n)%nat -> nth n hooks [] = [].
Proof. intros hooks. apply nth_overflow. Qed.

(* what a step does to the manager, the links and the channel *)
Lemma step_sm_links i s o :
  match o with
  | OAdd _ _ | ORemove _ _ | OEnable _ | ODisable _ => True
  | _ => s_sm (fst (sys_step i s o)) = s_sm s /\ s_links (fst (sys_step i s o)) = s_links s
  end.
Proof.
  destruct o as [c id|c id|h|h|c|n| |ns| | |]; cbn [sys_step]; try exact I; try (split; reflexivity).
  - destruct (nth_error (cron (s_sm s)) (N.to_nat n)) as [[e c]|]; [|split; reflexivity].
    destruct (ch_drain_all (s_ch s)) as [r k]. split; reflexivity.
  - destruct (ch_drain_all (s_ch s)) as [r k]. split; reflexivity.
  - destruct (ch_drain_all (s_ch s)) as [r k]. split; reflexivity.
Qed.

Lemma step_ch i s o :
  s_ch (fst (sys_step i s o)) =
  match o with
  | OTick n => match nth_error (cron (s_sm s)) (N.to_nat n) with
               | Some _ => snd (ch_drain_all (s_ch s))
               | None => s_ch s
               end
  | OTickAll | ODrain => snd (ch_drain_all (s_ch s))
  | OStart ns => ch_start (fired_strings (cron (s_sm s)) ns) (s_ch s)
  | _ => s_ch s
  end.
Proof.
  destruct o as [c id|c id|h|h|c|n| |ns| | |]; cbn [sys_step]; try reflexivity.
  - destruct (enable _ _ _) as [m s']. reflexivity.
  - destruct (disable _ _) as [m s']. reflexivity.
  - destruct (nth_error (cron (s_sm s)) (N.to_nat n)) as [[e c]|]; [|reflexivity].
    destruct (ch_drain_all (s_ch s)) as [r k]. reflexivity.
  - destruct (ch_drain_all (s_ch s)) as [r k]. reflexivity.
  - destruct (ch_drain_all (s_ch s)) as [r k]. reflexivity.
Qed.

Lemma step_rel i s st o :
  Rel i s st -> Rel i (fst (sys_step i s o)) (spec_step (i_hooks i) st o).
Proof.
  intros [HI HL]. unfold Rel, spec_step. pose proof (step_sm_links i s o) as HS.
  destruct o as [c id|c id|h|h|c|n| |ns| | |].
  5-11: destruct HS as [E1 E2]; rewrite E1, E2; cbn [induced fst snd fold_left]; split; assumption.
  all: clear HS.
  - cbn [sys_step induced fst snd fold_left s_sm s_links]. split; [apply Inv_add, HI | exact HL].
  - cbn [sys_step induced fst snd fold_left s_sm s_links]. split; [apply Inv_remove, HI | exact HL].
  - cbn [sys_step induced]. rewrite enable_split. cbn [fst snd s_sm s_links]. split.
    + apply Inv_fold, HI.
    + apply links_ok_set; [exact HL|]. intros Hn.
      rewrite (links_ok_nth _ _ _ _ HL Hn). now apply set_links_of.
  - cbn [sys_step induced]. rewrite (disable_split (valid_of (i_invalid i))). cbn [fst snd s_sm s_links]. split.
    + apply Inv_fold, HI.
    + apply links_ok_set; [exact HL|]. intros Hn.
      rewrite (links_ok_nth _ _ _ _ HL Hn). apply del_links_of.
Qed.

Lemma check_cron_ok valid alphabet s reg f r a b :
  Inv valid s reg -> check_cron valid alphabet reg (mkObs (map (fun c => (c, entries s c)) alphabet) (cron s) f r a b) = true.
Proof.
  intros HI. unfold check_cron. apply forallb_forall. intros c _. cbn [o_cron].
  change (count_fires c (cron s)) with (cron_count c s).
  rewrite (inv_count_exact valid s reg c HI). apply Nat.eqb_refl.
Qed.

Lemma perm_nil_l A (l : list A) : Permutation [] l -> l = [].
Proof. apply Permutation_nil. Qed.
Lemma perm_nil_r A (l : list A) : Permutation l [] -> l = [].
Proof. intros H. apply Permutation_sym in H. now apply Permutation_nil. Qed.

Lemma o_cron_observe i s f : o_cron (observe i s f) = cron (s_sm s).
Proof. reflexivity. Qed.
Lemma o_fire_observe i s f : o_fire (observe i s f) = fst f.
Proof. reflexivity. Qed.
Lemma check_cron_observe i s reg f :
  Inv (valid_of (i_invalid i)) (s_sm s) reg -> check_cron (valid_of (i_invalid i)) (i_alphabet i) reg (observe i s f) = true.
Proof. apply check_cron_ok. Qed.

(* [pend] (what the Spec reads off the observations) against the channel of the model *)
Lemma P_from_holds i : forall ops s st pend dirty stopped,
  Rel i s st -> Permutation pend (ch_pending (s_ch s)) ->
  P_from i st pend dirty stopped ops (run_from i s ops) = true.
Proof.
  induction ops as [|o ops IH]; intros s st pend dirty stopped HR HP; [reflexivity|].
  cbn [run_from]. pose proof (step_rel i s st o HR) as HR'. pose proof (step_ch i s o) as HC.
  pose proof (step_sm_links i s o) as HS.
  destruct (sys_step i s o) as [s' f] eqn:Es. cbn [fst] in HR', HC, HS.
  cbn [P_from]. pose proof HR' as [HI' HL'].
  rewrite (check_cron_observe _ _ _ _ HI'), orb_true_r, ?o_cron_observe, ?o_fire_observe. cbn [andb].
  destruct o as [c id|c id|h|h|c|n| |ns| | |].
  - cbn [andb]. apply IH; [exact HR' | now rewrite HC].
  - cbn [andb]. apply IH; [exact HR' | now rewrite HC].
  - cbn [andb]. apply IH; [exact HR' | now rewrite HC].
  - cbn [andb]. apply IH; [exact HR' | now rewrite HC].
  - (* OFire *)
    cbn [sys_step] in Es. inversion Es; subst. cbn [fst snd].
    rewrite (check_fire_ok _ _ _ _ HL'). cbn [andb]. apply IH; [exact HR' | exact HP].
  - (* OTick *)
    destruct HS as [S1 S2]. rewrite S1. cbn [sys_step] in Es.
    destruct (nth_error (cron (s_sm s)) (N.to_nat n)) as [[e c]|] eqn:En.
    + destruct (ch_drain_all (s_ch s)) as [r k] eqn:D. inversion Es; subst s' f. cbn [fst snd] in *.
      destruct (ch_drain_all_spec _ _ _ D) as [Hr Hk]. cbn [with_ch s_links] in *.
      assert (Hnext : P_from i (spec_step (i_hooks i) st (OTick n)) [] false stopped ops
                        (run_from i (with_ch s k) ops) = true).
      { apply IH; [exact HR'|]. cbn [with_ch s_ch]. subst k. constructor. }
      rewrite Hnext, andb_true_r. apply orb_true_iff. right.
      destruct pend as [|x pend].
      * apply perm_nil_l in HP. rewrite HP in Hr. apply perm_nil_r in Hr. subst r.
        cbn [app]. rewrite tick_all_single. apply check_fire_ok. exact HL'.
      * rewrite (check_burst_ok ((x :: pend) ++ [c]) (r ++ [c]) _ _ _); [apply orb_true_r | | exact HL'].
        apply Permutation_app_tail. eapply Permutation_trans; [exact HP | apply Permutation_sym, Hr].
    + inversion Es; subst s' f. cbn [fst snd is_nil andb]. apply IH; [exact HR' | exact HP].
  - (* OTickAll *)
    destruct HS as [S1 S2]. rewrite S1. cbn [sys_step] in Es.
    destruct (ch_drain_all (s_ch s)) as [r k] eqn:D. inversion Es; subst s' f. cbn [fst snd] in *.
    destruct (ch_drain_all_spec _ _ _ D) as [Hr Hk]. cbn [with_ch s_links s_sm] in *.
    assert (Hnext : P_from i (spec_step (i_hooks i) st OTickAll) [] false stopped ops
                      (run_from i (with_ch s k) ops) = true).
    { apply IH; [exact HR'|]. cbn [with_ch s_ch]. subst k. constructor. }
    rewrite Hnext, andb_true_r. apply orb_true_iff. right.
    destruct pend as [|x pend].
    + apply perm_nil_l in HP. rewrite HP in Hr. apply perm_nil_r in Hr. subst r. cbn [app].
      apply check_round_ok; [|exact HL'].
      intros c. rewrite count_ct_map. change (count_fires c (cron (s_sm s))) with (cron_count c (s_sm s)).
      apply (inv_count_exact _ _ _ c HI').
    + rewrite (check_burst_ok ((x :: pend) ++ map snd (cron (s_sm s))) (r ++ map snd (cron (s_sm s))) _ _ _);
        [apply orb_true_r | | exact HL'].
      apply Permutation_app_tail. eapply Permutation_trans; [exact HP | apply Permutation_sym, Hr].
  - (* OStart *)
    destruct HS as [S1 S2]. rewrite S1. cbn [andb]. apply IH; [exact HR'|].
    rewrite HC, fired_of_strings. apply Permutation_sym.
    eapply Permutation_trans; [apply ch_start_pending|]. apply Permutation_app_tail, Permutation_sym, HP.
  - (* ODrain *)
    cbn [sys_step] in Es.
    destruct (ch_drain_all (s_ch s)) as [r k] eqn:D. inversion Es; subst s' f. cbn [fst snd] in *.
    destruct (ch_drain_all_spec _ _ _ D) as [Hr Hk]. cbn [with_ch s_links] in *.
    assert (Hnext : P_from i (spec_step (i_hooks i) st ODrain) [] false stopped ops
                      (run_from i (with_ch s k) ops) = true).
    { apply IH; [exact HR'|]. cbn [with_ch s_ch]. subst k. constructor. }
    rewrite Hnext, andb_true_r. apply orb_true_iff. right.
    rewrite (check_burst_ok pend r _ _ _); [apply orb_true_r | | exact HL'].
    eapply Permutation_trans; [exact HP | apply Permutation_sym, Hr].
  - (* OStop *)
    cbn [andb]. apply IH; [exact HR' | now rewrite HC].
  - (* OSmStart *)
    cbn [andb]. apply IH; [exact HR' | now rewrite HC].
Qed.

Lemma P_holds i : P i (run_model i) = true.
Proof.
  unfold P, run_model. apply P_from_holds; [split|].
  - apply Inv_init.
  - apply links_ok_init.
  - constructor.
Qed.

(* the system's manager state is the manager run on the induced add/remove history *)
Lemma sys_sm_induced i : forall ops s,
  s_sm (fold_left (fun s o => fst (sys_step i s o)) ops s)
  = fold_left (sm_step (valid_of (i_invalid i))) (flat_map (induced (i_hooks i)) ops) (s_sm s).
Proof.
  induction ops as [|o ops IH]; intros s; [reflexivity|].
  cbn [fold_left flat_map]. rewrite fold_left_app, IH. f_equal.
  pose proof (step_sm_links i s o) as HS.
  destruct o as [c id|c id|h|h|c|n| |ns| | |]; cbn [induced fold_left sm_step].
  5-11: destruct HS as [S1 _]; exact S1.
  - reflexivity.
  - reflexivity.
  - cbn [sys_step]. rewrite enable_split. reflexivity.
  - cbn [sys_step]. rewrite (disable_split (valid_of (i_invalid i))). reflexivity.
Qed.

(* the registry is "added and not removed since": what one more operation does to it *)
Lemma registered_snoc h o p :
  In p (registered (h ++ [o])) <->
  match o with
  | Add c i => p = (c, i) \/ In p (registered h)
  | Remove c i => In p (registered h) /\ p <> (c, i)
  end.
Proof.
  unfold registered. rewrite fold_left_app. cbn [fold_left].
  destruct o as [c i|c i]; cbn [reg_step]; [apply In_reg_add | apply In_reg_remove].
Qed.

Lemma refcount valid h c :
  ((exists e, In (e, c) (cron (sm_run valid h)))
   <-> (valid c = true /\ exists i, In (c, i) (registered h)))
  /\ cron_count c (sm_run valid h) = (if valid c && has_binding c (registered h) then 1 else 0)%nat.
Proof.
  split; [apply inv_refcount | apply inv_count_exact]; apply Inv_run.
Qed.

Lemma single_entry valid h c :
  (cron_count c (sm_run valid h) <= 1)%nat /\ NoDup (map fst (cron (sm_run valid h))).
Proof.
  pose proof (Inv_run valid h) as HI. split; [exact (inv_single_entry valid _ _ c HI)|].
  destruct HI as (_ & _ & H & _). exact H.
Qed.

Lemma entries_refine valid h c :
  match entries (sm_run valid h) c with
  | None => forall i, ~ In (c, i) (registered h)
  | Some (_, ids) => ids <> [] /\ NoDup ids /\ forall i, In i ids <-> In (c, i) (registered h)
  end.
Proof. apply (inv_entries valid), Inv_run. Qed.

(* ------------------------------------------------------------------ crontab identity, firing rounds *)

(* what a cron entry sends when it fires is the key it is filed under in Entries *)
Lemma entry_sends_key valid h e c :
  In (e, c) (cron (sm_run valid h)) ->
  valid c = true /\ exists ids, entries (sm_run valid h) c = Some (e, ids).
Proof. destruct (Inv_run valid h) as (_ & Hb & _). apply Hb. Qed.

Lemma nodup_fst_fun A B (l : list (A * B)) e c c' :
  NoDup (map fst l) -> In (e, c) l -> In (e, c') l -> c = c'.
Proof.
  induction l as [|p l IH]; intros Hn H1 H2; [contradiction|].
  cbn [map] in Hn. inversion Hn as [|? ? Hp Hl]; subst.
  destruct H1 as [->|H1], H2 as [E|H2].
  - now inversion E.
  - exfalso. apply Hp. cbn [fst]. change e with (fst (e, c')). now apply in_map.
  - subst p. exfalso. apply Hp. cbn [fst]. change e with (fst (e, c)). now apply in_map.
  - now apply IH.
Qed.

(* two different strings - be it two spellings of one schedule - that are both parsable
   and both registered have two different cron entries, each sending its own string *)
Lemma distinct_strings_fire_separately valid h c c' i i' :
  c <> c' -> valid c = true -> valid c' = true ->
  In (c, i) (registered h) -> In (c', i') (registered h) ->
  exists e e', e <> e' /\ In (e, c) (cron (sm_run valid h)) /\ In (e', c') (cron (sm_run valid h)).
Proof.
  intros Hne Hv Hv' Hr Hr'.
  destruct (proj1 (refcount valid h c)) as [_ H1]. destruct (proj1 (refcount valid h c')) as [_ H2].
  destruct (H1 (conj Hv (ex_intro _ i Hr))) as [e He]. destruct (H2 (conj Hv' (ex_intro _ i' Hr'))) as [e' He'].
  exists e, e'. split; [|split; assumption].
  intros ->. apply Hne. destruct (single_entry valid h c) as [_ Hn].
  eapply nodup_fst_fun; eassumption.
Qed.

Lemma rel_fold i ops : forall s st, Rel i s st ->
  Rel i (fold_left (fun s o => fst (sys_step i s o)) ops s) (fold_left (spec_step (i_hooks i)) ops st).
Proof. induction ops as [|o ops IH]; intros s st H; [exact H|]. cbn [fold_left]. apply IH, step_rel, H. Qed.

Lemma rel_init i : Rel i (sys_init i) (spec_init (i_hooks i)).
Proof. split; [apply Inv_init | apply links_ok_init]. Qed.

(* after ANY sequence of operations: when every registered cron entry fires once, hook h
   gets exactly one task per binding of h that is enabled and whose crontab string is
   parsable and still has a registered id; no other task *)
Lemma round_tasks i ops h :
  let s := fold_left (fun s o => fst (sys_step i s o)) ops (sys_init i) in
  let st := fold_left (spec_step (i_hooks i)) ops (spec_init (i_hooks i)) in
  let bs := nth h (i_hooks i) [] in
  NoDup (map b_id bs) ->
  Permutation
    (map (task_of_info (N.of_nat h)) (snd (tick_hook (map snd (cron (s_sm s))) (nth h (s_links s) []))))
    (if nth h (snd st) false
     then map (task_of_binding (N.of_nat h))
              (filter (fun b => fires (valid_of (i_invalid i)) (fst st) (b_crontab b)) bs)
     else []).
Proof.
  cbv zeta. intros Hn.
  destruct (rel_fold i ops _ _ (rel_init i)) as [HI HL].
  rewrite (links_ok_nth _ _ _ _ HL Hn).
  set (s := fold_left (fun s o => fst (sys_step i s o)) ops (sys_init i)) in *.
  set (st := fold_left (spec_step (i_hooks i)) ops (spec_init (i_hooks i))) in *.
  assert (Hc : forall c, count_ct c (map snd (cron (s_sm s)))
                         = if fires (valid_of (i_invalid i)) (fst st) c then 1%nat else 0%nat).
  { intros c. rewrite count_ct_map. change (count_fires c (cron (s_sm s))) with (cron_count c (s_sm s)).
    apply (inv_count_exact _ _ _ c HI). }
  destruct (tick_hook_links (valid_of (i_invalid i)) (fst st) (nth h (i_hooks i) []) (nth h (snd st) false) _ Hc) as [Hp _].
  eapply Permutation_trans; [apply Permutation_map, Hp|].
  unfold expected_round. destruct (nth h (snd st) false); [|constructor].
  rewrite map_map. apply Permutation_refl.
Qed.

(* ------------------------------------------------------------------ coinciding firings, end to end *)

Lemma flat_map_nil_fun A B (l : list A) : flat_map (fun _ : A => @nil B) l = [].
Proof. induction l as [|x l IH]; [reflexivity | exact IH]. Qed.

(* after ANY sequence of operations: the jobs of the crontabs [cs] (any strings, any
   multiplicities) are started together and reach their send in any order [cs'] while
   the consumer is busy; then the consumer catches up, the runtime waking the parked
   senders in any order [picks].  Hook h gets, for every firing that was already waiting
   and for every job started now, exactly one task for each of its enabled bindings with
   that crontab, carrying that binding's data - a crontab that fired twice gives two -
   and no other task. *)
Lemma burst_tasks i ops h cs cs' picks :
  let s := fold_left (fun s o => fst (sys_step i s o)) ops (sys_init i) in
  let st := fold_left (spec_step (i_hooks i)) ops (spec_init (i_hooks i)) in
  let bs := nth h (i_hooks i) [] in
  NoDup (map b_id bs) -> Permutation cs cs' ->
  let received := fst (ch_drain_with picks (ch_start cs' (s_ch s))) in
  Permutation received (ch_pending (s_ch s) ++ cs)
  /\ snd (ch_drain_with picks (ch_start cs' (s_ch s))) = ch_empty
  /\ Permutation
       (map (task_of_info (N.of_nat h)) (snd (tick_hook received (nth h (s_links s) []))))
       (if nth h (snd st) false
        then flat_map (fun c => map (task_of_binding (N.of_nat h)) (filter (fun b => ct_eqb (b_crontab b) c) bs))
                      (ch_pending (s_ch s) ++ cs)
        else []).
Proof.
  cbv zeta. intros Hn Hp.
  destruct (rel_fold i ops _ _ (rel_init i)) as [HI HL].
  rewrite (links_ok_nth _ _ _ _ HL Hn).
  set (s := fold_left (fun s o => fst (sys_step i s o)) ops (sys_init i)) in *.
  set (st := fold_left (spec_step (i_hooks i)) ops (spec_init (i_hooks i))) in *.
  destruct (concurrent_all_delivered picks cs cs' (s_ch s) Hp) as [Hr Hk].
  split; [exact Hr|]. split; [exact Hk|].
  destruct (tick_hook_burst (nth h (i_hooks i) []) (nth h (snd st) false) _ _ (Permutation_sym Hr)) as [Hq _].
  eapply Permutation_trans; [apply Permutation_map, Hq|].
  unfold expected_burst, expected_infos. destruct (nth h (snd st) false).
  - rewrite <- flat_map_map_commute.
    rewrite (flat_map_ext _ (fun c => map (task_of_binding (N.of_nat h))
                                      (filter (fun b => ct_eqb (b_crontab b) c) (nth h (i_hooks i) [])))).
    + apply Permutation_refl.
    + intros c. rewrite map_map. reflexivity.
  - rewrite flat_map_nil_fun. constructor.
Qed.

(* in every reachable state the buffer holds at most ch_cap values *)
Lemma reach_buf_le i : forall ops s, (length (buf (s_ch s)) <= ch_cap)%nat ->
  (length (buf (s_ch (fold_left (fun s o => fst (sys_step i s o)) ops s))) <= ch_cap)%nat.
Proof.
  induction ops as [|o ops IH]; intros s H; [exact H|]. cbn [fold_left]. apply IH.
  rewrite step_ch.
  assert (Hd : (length (buf (snd (ch_drain_all (s_ch s)))) <= ch_cap)%nat).
  { destruct (ch_drain_all (s_ch s)) as [r k] eqn:D. destruct (ch_drain_all_spec _ _ _ D) as [_ ->]. cbn. lia. }
  destruct o as [c id|c id|h|h|c|n| |ns| | |]; try exact H; try exact Hd.
  - destruct (nth_error (cron (s_sm s)) (N.to_nat n)); [exact Hd | exact H].
  - destruct (ch_start_lengths (fired_strings (cron (s_sm s)) ns) (s_ch s) H) as [E _]. rewrite E. apply Nat.le_min_l.
Qed.

Lemma sends_block i ops cs :
  let k := s_ch (fold_left (fun s o => fst (sys_step i s o)) ops (sys_init i)) in
  length (buf (ch_start cs k)) = Nat.min ch_cap (length (buf k) + length cs)
  /\ (length (buf (ch_start cs k)) + length (parked (ch_start cs k)) = length (buf k) + length (parked k) + length cs)%nat.
Proof.
  cbv zeta. apply ch_start_lengths. apply reach_buf_le. cbn. lia.
Qed.

(* no step looks at the cancelled context: sm.Stop() changes nothing of what the manager,
   the controllers, the channel and the jobs do *)
Lemma stop_is_not_looked_at i s o b :
  let s2 := mkSys (s_links s) (s_sm s) (s_ch s) b in
  snd (sys_step i s2 o) = snd (sys_step i s o)
  /\ s_links (fst (sys_step i s2 o)) = s_links (fst (sys_step i s o))
  /\ s_sm (fst (sys_step i s2 o)) = s_sm (fst (sys_step i s o))
  /\ s_ch (fst (sys_step i s2 o)) = s_ch (fst (sys_step i s o)).
Proof.
  cbv zeta. destruct o as [c id|c id|h|h|c|n| |ns| | |]; cbn [sys_step s_links s_sm s_ch s_stopped with_ch].
  - repeat split.
  - repeat split.
  - destruct (enable _ _ _) as [m s']. repeat split.
  - destruct (disable _ _) as [m s']. repeat split.
  - repeat split.
  - destruct (nth_error (cron (s_sm s)) (N.to_nat n)) as [[e c]|]; [|repeat split].
    destruct (ch_drain_all (s_ch s)) as [r k]. repeat split.
  - destruct (ch_drain_all (s_ch s)) as [r k]. repeat split.
  - repeat split.
  - destruct (ch_drain_all (s_ch s)) as [r k]. repeat split.
  - repeat split.
  - repeat split.
Qed.
