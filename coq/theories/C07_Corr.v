(* C07_Corr.v — correspondence vocabulary for C07.  Three case classes:

   [mkCase]  a queue layout together with what the two real functions did on it: the
             unexported combineBindingContextForHook ([c_int]) and the exported twin
             CombineBindingContextForHook ([c_exp]), each on a fresh copy of the layout, the
             queue object handed over directly (part 1 of the model);
   [CSet]    a SET of named queues and an executed task carrying a queue name; both real
             functions called with the expression of taskHandleHookRun,
             combine...(tqs, tqs.GetByName(t.GetQueueName()), t, stop) (part 2);
   [COp]     a session on the real operator: its task handler executing heads of queues (the
             harness plays the queue worker) and the real admission / conversion event handlers
             running their queue-less tasks, real hook processes recording their context files
             (part 3); since seeded change C07-6 also sessions whose queues hold the real
             Synchronization tasks of kubernetes bindings (made by the real EnableKubernetesBindings
             task on a fake cluster; v0 and v1 hooks, with and without group and
             executeHookOnSynchronization), followed by kubernetes Event and schedule tasks; since seeded
             change C07-7 the tasks of every class carry the failure policy of their binding (`allowFailure`,
             [t_af]; in class sync the real Synchronization tasks of bindings that declare it), mixed inside
             one backlog.
   Evaluated by vm_compute in the generated cases files. *)
From Verif Require Import Common C07_Model C07_Spec C07_LongSpec.

Inductive case :=
| mkCase (c_in : input) (c_int c_exp : obs)
| CSet (i : sinput) (o_int o_exp : sobs)
| COp (i : oinput) (o : list ostepobs).

(* short constructors for the generated files; [T] is a task carrying the name "main" (1) *)
Definition T (id hook ty : N) (meta : bool) (cs : list ctx) (mids : list N) : task :=
  mkTask id hook ty meta cs mids 1.
Definition TQ := mkTask.
Definition C := mkCtx.
(* class op: the full task (kubernetes binding type, HookMetadata.Group, ExecuteOnSynchronization)
   and a Synchronization context *)
Definition TG := mkTaskK.
(* a task of a binding with `allowFailure: true` (classes queue and set; [TG] has the policy as its last
   argument): since seeded change C07-7 the layouts and sessions of every class mix both policies *)
Definition AF : task -> task := with_af true.
Definition CS (tag group : N) : ctx := mkCtxK tag group true.
Definition R := mkRun.

Definition res_eqb (a b : list ctx * list N) : bool :=
  ctxs_eqb (fst a) (fst b) && ns_eqb (snd a) (snd b).
Definition obs_eqb (a b : obs) : bool :=
  option_eqb res_eqb (o_res a) (o_res b) && ns_eqb (o_queue a) (o_queue b).
Definition sobs_eqb (a b : sobs) : bool :=
  option_eqb res_eqb (so_res a) (so_res b)
  && list_eqb (pair_eqb N.eqb ns_eqb) (so_queues a) (so_queues b).
Definition run_eqb (a b : orun) : bool :=
  N.eqb (ru_hook a) (ru_hook b) && ctxs_eqb (ru_ctxs a) (ru_ctxs b).
Definition ostepobs_eqb (a b : ostepobs) : bool :=
  list_eqb run_eqb (st_runs a) (st_runs b) && Bool.eqb (st_success a) (st_success b)
  && list_eqb (pair_eqb N.eqb tasks_eqb) (st_state a) (st_state b).

Inductive mobs := MObs (o : obs) | MSet (o : sobs) | MOp (o : list ostepobs).

Definition model_obs (c : case) : mobs :=
  match c with
  | mkCase i _ _ => MObs (run_model i)
  | CSet i _ _ => MSet (run_set i)
  | COp i _ => MOp (run_session (oi_v0 i) (oi_qs i) (oi_steps i))
  end.

Definition agrees (c : case) : bool :=
  match c with
  | mkCase i a b => obs_eqb (run_model i) a && obs_eqb (run_model i) b
  | CSet i a b => sobs_eqb (run_set i) a && sobs_eqb (run_set i) b
  | COp i o => list_eqb ostepobs_eqb (run_session (oi_v0 i) (oi_qs i) (oi_steps i)) o
  end.

(* The predicates of C07_Spec, evaluated in the form of C07_LongSpec ([P_lz] = [P], [P_set_lz] = [P_set],
   [P_session_lz] = [P_session] on every argument: theorems C07_lz_is_P, C07_lz_is_P_set, C07_lz_is_P_session;
   the forms of C07_Spec need 2^n steps under call-by-value for n contexts), and beside each the count clause
   ([P_count] etc., implied by the predicate: C07_P_implies_count ...): since seeded change C07-9 the layouts
   of every class include backlogs of 63 ... 1000 tasks. *)
Definition holds (c : case) : bool :=
  match c with
  | mkCase i a b => P_lz i a && P_lz i b && P_count i a && P_count i b
  | CSet i a b => P_set_lz i a && P_set_lz i b && P_set_count i a && P_set_count i b
  | COp i o => P_session_lz (oi_v0 i) (oi_qs i) (oi_steps i) o
               && P_session_count (oi_v0 i) (oi_qs i) (oi_steps i) o
  end.

Definition mismatches (cs : list case) : list N := indices_where (fun c => negb (agrees c)) cs.
Definition spec_violations (cs : list case) : list N := indices_where (fun c => negb (holds c)) cs.
