(* C07_Corr.v — correspondence vocabulary for C07.  A case is a queue layout together with
   what the two real functions did on it: the unexported combineBindingContextForHook
   ([c_int]) and the exported twin CombineBindingContextForHook ([c_exp]), each on a fresh
   copy of the layout.  Evaluated by vm_compute in the generated cases files. *)
From Verif Require Import Common C07_Model C07_Spec.

Record case := mkCase { c_in : input; c_int : obs; c_exp : obs }.

(* short constructors for the generated files *)
Definition T := mkTask.
Definition C := mkCtx.

Definition res_eqb (a b : list ctx * list N) : bool :=
  ctxs_eqb (fst a) (fst b) && ns_eqb (snd a) (snd b).
Definition obs_eqb (a b : obs) : bool :=
  option_eqb res_eqb (o_res a) (o_res b) && ns_eqb (o_queue a) (o_queue b).

Definition model_obs (c : case) : obs := run_model (c_in c).
Definition agrees (c : case) : bool :=
  obs_eqb (model_obs c) (c_int c) && obs_eqb (model_obs c) (c_exp c).

Definition mismatches (cs : list case) : list N := indices_where (fun c => negb (agrees c)) cs.
Definition spec_violations (cs : list case) : list N :=
  indices_where (fun c => negb (P (c_in c) (c_int c) && P (c_in c) (c_exp c))) cs.
