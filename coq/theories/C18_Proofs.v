(* C18_Proofs.v — proofs about the token-bucket model of C18.

   Key quantity: for a limited bucket with state (tokens, last) let
       z = last - tokens          ("the instant at which the bucket was/would be empty").
   One reservation at t >= last gives   z' = max z (t - B*I) + I   and
   timeToAct = max t z'.  Hence z grows by at least I per grant, every act time is at
   least z', and z' >= act - (B-1)*I: the window bound follows. *)
From Verif Require Import Common C18_Model C18_Spec.
Open Scope Z_scope.
Set Implicit Arguments.

Definition lim_state (I B : Z) (b : bucket) (l : Z) : Prop :=
  b_limit b = Some I /\ b_burst b = B /\ b_last b = Some l.

Definition zb (b : bucket) (l : Z) : Z := l - b_tokens b.

Lemma reserve_step I B b l t :
  0 < I -> 1 <= B -> lim_state I B b l -> l <= t ->
  exists b' a, reserve b t = (b', Some a) /\ lim_state I B b' t /\
               zb b' t = Z.max (zb b l) (t - B * I) + I /\ a = Z.max t (zb b' t).
Proof.
  intros HI HB (Hl & Hb & Hlast) Hle.
  unfold reserve, reserve_n. rewrite Hl. unfold advance. rewrite Hlast, Hb.
  assert (E : (1 <=? B) = true) by (apply Z.leb_le; exact HB).
  rewrite E. cbn [andb].
  eexists. eexists. split; [reflexivity|].
  split; [unfold lim_state; cbn; auto|].
  unfold zb; cbn [b_tokens]. split; lia.
Qed.

Lemma sortedb_cons x y r : sortedb (x :: y :: r) = true -> x <= y /\ sortedb (y :: r) = true.
Proof.
  cbn [sortedb]. intros H. apply andb_true_iff in H as [H1 H2].
  apply Z.leb_le in H1. split; assumption.
Qed.

(* under lim_state every request is granted *)
Lemma grants_all_some I B : 0 < I -> 1 <= B ->
  forall arr b l, lim_state I B b l -> sortedb (l :: arr) = true ->
  grants b arr = map Some (somes (grants b arr)) /\ length (somes (grants b arr)) = length arr.
Proof.
  intros HI HB arr. induction arr as [|t r IH]; intros b l Hst Hs.
  - split; reflexivity.
  - apply sortedb_cons in Hs as [Hle Hs].
    destruct (reserve_step HI HB Hst Hle) as (b' & a & Hr & Hst' & _ & _).
    cbn [grants]. rewrite Hr. cbn [somes map length].
    destruct (IH b' t Hst' Hs) as [E1 E2]. split; [f_equal; exact E1 | f_equal; exact E2].
Qed.

(* every later act time is at least z + (index+1)*I *)
Lemma acts_lower I B : 0 < I -> 1 <= B ->
  forall arr b l, lim_state I B b l -> sortedb (l :: arr) = true ->
  forall j aj, nth_error (somes (grants b arr)) j = Some aj ->
  zb b l + (Z.of_nat j + 1) * I <= aj.
Proof.
  intros HI HB arr. induction arr as [|t r IH]; intros b l Hst Hs j aj Hn.
  - destruct j; discriminate.
  - apply sortedb_cons in Hs as [Hle Hs].
    destruct (reserve_step HI HB Hst Hle) as (b' & a & Hr & Hst' & Hz & Ha).
    cbn [grants] in Hn. rewrite Hr in Hn. cbn [somes] in Hn.
    destruct j as [|j'].
    + cbn in Hn. inversion Hn; subst aj. lia.
    + cbn [nth_error] in Hn. specialize (IH b' t Hst' Hs j' aj Hn).
      rewrite Nat2Z.inj_succ. lia.
Qed.

(* the window bound from any limited state *)
Lemma acts_bound I B : 0 < I -> 1 <= B ->
  forall arr b l, lim_state I B b l -> sortedb (l :: arr) = true ->
  forall i j ai aj, (i <= j)%nat ->
  nth_error (somes (grants b arr)) i = Some ai ->
  nth_error (somes (grants b arr)) j = Some aj ->
  (Z.of_nat j - Z.of_nat i + 1 - B) * I <= aj - ai.
Proof.
  intros HI HB arr. induction arr as [|t r IH]; intros b l Hst Hs i j ai aj Hij Hi Hj.
  - destruct i; discriminate.
  - apply sortedb_cons in Hs as [Hle Hs].
    destruct (reserve_step HI HB Hst Hle) as (b' & a & Hr & Hst' & Hz & Ha).
    cbn [grants] in Hi, Hj. rewrite Hr in Hi, Hj. cbn [somes] in Hi, Hj.
    destruct i as [|i'].
    + cbn in Hi. inversion Hi; subst ai.
      destruct j as [|j'].
      * cbn in Hj. inversion Hj; subst aj. nia.
      * cbn [nth_error] in Hj.
        pose proof (acts_lower HI HB r Hst' Hs j' Hj) as Hlow.
        rewrite Nat2Z.inj_succ. nia.
    + destruct j as [|j']; [lia|].
      cbn [nth_error] in Hi, Hj.
      assert (Hij' : (i' <= j')%nat) by lia.
      specialize (IH b' t Hst' Hs i' j' ai aj Hij' Hi Hj).
      rewrite !Nat2Z.inj_succ. lia.
Qed.

(* ---- from the configuration ---- *)

Definition bucket0 (I B : Z) : bucket := mkBucket (Some I) B (B * I) None.

Lemma create_limited I B : 0 < I -> 1 <= B ->
  create_rate_limiter (Some (mkSettings I B)) = bucket0 I B.
Proof.
  intros HI HB. unfold create_rate_limiter, new_limiter, every, bucket0. cbn [s_interval s_burst].
  destruct (Z.eqb_spec I 0) as [E|_]; [lia|].
  destruct (Z.leb_spec I 0) as [E|_]; [lia|].
  destruct (Z.eqb_spec B 0) as [E|_]; [lia|].
  reflexivity.
Qed.

(* the first reservation on the fresh limiter (last = zero time) behaves as if last = t *)
Lemma first_reserve I B t : 1 <= B ->
  reserve (bucket0 I B) t = reserve (mkBucket (Some I) B (B * I) (Some t)) t.
Proof.
  intros HB. assert (E : (1 <=? B) = true) by (apply Z.leb_le; exact HB).
  unfold reserve, reserve_n, advance, bucket0, max_duration. cbn [b_limit b_last b_tokens b_burst].
  rewrite E. cbn [andb].
  replace (Z.min (B * I + 9223372036854775807) (B * I)) with (B * I) by lia.
  replace (Z.min (B * I + (t - Z.min t t)) (B * I)) with (B * I) by lia.
  reflexivity.
Qed.

Lemma grants_first I B arr : 1 <= B ->
  grants (bucket0 I B) arr =
  match arr with [] => [] | t :: _ => grants (mkBucket (Some I) B (B * I) (Some t)) arr end.
Proof.
  intros HB. destruct arr as [|t r]; [reflexivity|]. cbn [grants]. rewrite (first_reserve I t HB). reflexivity.
Qed.

Lemma sortedb_dup t r : sortedb (t :: r) = true -> sortedb (t :: t :: r) = true.
Proof.
  intros H. change (sortedb (t :: t :: r)) with ((t <=? t) && sortedb (t :: r)).
  rewrite H. rewrite Z.leb_refl. reflexivity.
Qed.

Lemma window_bound I B arrivals :
  0 < I -> 1 <= B -> sortedb arrivals = true ->
  forall i j ai aj, (i <= j)%nat ->
  nth_error (grants (create_rate_limiter (Some (mkSettings I B))) arrivals) i = Some (Some ai) ->
  nth_error (grants (create_rate_limiter (Some (mkSettings I B))) arrivals) j = Some (Some aj) ->
  (Z.of_nat j - Z.of_nat i + 1 - B) * I <= aj - ai.
Proof.
  intros HI HB Hs i j ai aj Hij Hi Hj.
  rewrite (create_limited HI HB) in Hi, Hj. rewrite (grants_first I arrivals HB) in Hi, Hj.
  destruct arrivals as [|t r]; [destruct i; discriminate|].
  set (b := mkBucket (Some I) B (B * I) (Some t)) in *.
  assert (Hst : lim_state I B b t) by (unfold lim_state, b; cbn; auto).
  pose proof (@sortedb_dup t r Hs) as Hs'.
  destruct (grants_all_some HI HB (t :: r) Hst Hs') as [E _].
  rewrite E in Hi, Hj.
  rewrite nth_error_map in Hi, Hj.
  destruct (nth_error (somes (grants b (t :: r))) i) as [x|] eqn:Ei; [|discriminate].
  destruct (nth_error (somes (grants b (t :: r))) j) as [y|] eqn:Ej; [|discriminate].
  cbn in Hi, Hj. inversion Hi; inversion Hj; subst.
  exact (acts_bound HI HB (t :: r) Hst Hs' Hij Ei Ej).
Qed.

Lemma always_granted I B arrivals :
  0 < I -> 1 <= B -> sortedb arrivals = true ->
  let g := grants (create_rate_limiter (Some (mkSettings I B))) arrivals in
  g = map Some (somes g) /\ length (somes g) = length arrivals.
Proof.
  intros HI HB Hs. cbv zeta.
  rewrite (create_limited HI HB). rewrite (grants_first I arrivals HB).
  destruct arrivals as [|t r]; [split; reflexivity|].
  apply (@grants_all_some I B HI HB (t :: r) _ t).
  - unfold lim_state; cbn; auto.
  - apply sortedb_dup; exact Hs.
Qed.

(* B = 0 in the settings is read as 1 *)
Lemma zero_burst_is_one I :
  create_rate_limiter (Some (mkSettings I 0)) = create_rate_limiter (Some (mkSettings I 1)).
Proof. reflexivity. Qed.

(* ---- unlimited ---- *)

Lemma grants_inf b : b_limit b = None -> forall arr, grants b arr = map Some arr.
Proof.
  intros Hb arr. induction arr as [|t r IH]; [reflexivity|].
  cbn [grants]. unfold reserve, reserve_n. rewrite Hb. cbn [map]. f_equal. exact IH.
Qed.

Lemma unlimited_without_settings arrivals :
  grants (create_rate_limiter None) arrivals = map Some arrivals.
Proof. apply grants_inf. reflexivity. Qed.

Lemma unlimited_zero_interval B arrivals :
  grants (create_rate_limiter (Some (mkSettings 0 B))) arrivals = map Some arrivals.
Proof. apply grants_inf. reflexivity. Qed.

(* ---- counting in windows ---- *)

Lemma filter_span (p : Z -> bool) : forall l, filter p l <> [] ->
  exists i j x y, (i <= j)%nat /\ nth_error l i = Some x /\ nth_error l j = Some y /\
                  p x = true /\ p y = true /\ (length (filter p l) <= j - i + 1)%nat.
Proof.
  induction l as [|a r IH]; intros Hne; [exfalso; apply Hne; reflexivity|].
  cbn [filter] in *. destruct (p a) eqn:Pa.
  - destruct (filter p r) as [|f fr] eqn:Ef.
    + exists 0%nat, 0%nat, a, a. cbn. repeat split; auto.
    + destruct IH as (i & j & x & y & Hij & Hi & Hj & Px & Py & Hlen); [discriminate|].
      exists 0%nat, (S j), a, y. cbn [nth_error length] in *. repeat split; auto; lia.
  - destruct (IH Hne) as (i & j & x & y & Hij & Hi & Hj & Px & Py & Hlen).
    exists (S i), (S j), x, y. cbn [nth_error]. repeat split; auto; lia.
Qed.

Lemma ceil_div_ge_floor T I : 0 < I -> T / I <= ceil_div T I.
Proof. intros HI. unfold ceil_div. apply Z.div_le_mono; lia. Qed.

(* a list with the pairwise bound has at most B + T/I elements in any closed window *)
Lemma count_from_pairwise I B l : 0 < I -> 1 <= B ->
  (forall i j x y, (i <= j)%nat -> nth_error l i = Some x -> nth_error l j = Some y ->
                   (Z.of_nat j - Z.of_nat i + 1 - B) * I <= y - x) ->
  forall s T, 0 <= T -> count_in s T l <= B + T / I.
Proof.
  intros HI HB Hpair s T HT. unfold count_in.
  destruct (filter (in_window s T) l) as [|f fr] eqn:Ef.
  - cbn. assert (0 <= T / I) by (apply Z.div_pos; lia). lia.
  - assert (Hne : filter (in_window s T) l <> []) by (rewrite Ef; discriminate).
    destruct (filter_span _ _ Hne) as (i & j & x & y & Hij & Hi & Hj & Px & Py & Hlen).
    rewrite Ef in Hlen.
    specialize (Hpair i j x y Hij Hi Hj).
    unfold in_window in Px, Py.
    apply andb_true_iff in Px as [Px1 Px2]. apply andb_true_iff in Py as [Py1 Py2].
    apply Z.leb_le in Px1, Px2, Py1, Py2.
    assert (Hq : Z.of_nat j - Z.of_nat i + 1 - B <= T / I).
    { apply Z.div_le_lower_bound; [exact HI|]. lia. }
    lia.
Qed.

Lemma count_in_window I B arrivals :
  0 < I -> 1 <= B -> sortedb arrivals = true ->
  forall s T, 0 <= T ->
  count_in s T (somes (grants (create_rate_limiter (Some (mkSettings I B))) arrivals)) <= B + T / I.
Proof.
  intros HI HB Hs. apply (@count_from_pairwise I B _ HI HB).
  intros i j x y Hij Hi Hj.
  destruct (@always_granted I B arrivals HI HB Hs) as [E _].
  apply (@window_bound I B arrivals HI HB Hs _ _ _ _ Hij); rewrite E; rewrite nth_error_map.
  - rewrite Hi; reflexivity.
  - rewrite Hj; reflexivity.
Qed.

Lemma respects_limit_model I B arrivals :
  0 < I -> 1 <= B -> sortedb arrivals = true ->
  respects_limit I B (somes (grants (create_rate_limiter (Some (mkSettings I B))) arrivals)).
Proof.
  intros HI HB Hs s T HT.
  pose proof (@count_in_window I B arrivals HI HB Hs s T HT).
  pose proof (@ceil_div_ge_floor T I HI). lia.
Qed.

(* ---- the decidable form ---- *)

Lemma from_ok_intro I B x : forall rest k,
  (forall m y, nth_error rest m = Some y -> k + Z.of_nat m + 1 <= B + ceil_div (y - x) I) ->
  from_ok I B x k rest = true.
Proof.
  induction rest as [|y r IH]; intros k H; [reflexivity|].
  cbn [from_ok]. apply andb_true_iff; split.
  - apply Z.leb_le. specialize (H 0%nat y eq_refl). cbn in H. lia.
  - apply IH. intros m y' Hm. specialize (H (S m) y' Hm). rewrite Nat2Z.inj_succ in H. lia.
Qed.

Lemma window_ok_intro I B : 0 < I -> forall l,
  (forall i j x y, (i <= j)%nat -> nth_error l i = Some x -> nth_error l j = Some y ->
                   (Z.of_nat j - Z.of_nat i + 1 - B) * I <= y - x) ->
  window_ok I B l = true.
Proof.
  intros HI. induction l as [|x r IH]; intros H; [reflexivity|].
  cbn [window_ok]. apply andb_true_iff; split.
  - apply from_ok_intro. intros m y Hm.
    specialize (H 0%nat (S m) x y (Nat.le_0_l _) eq_refl Hm).
    rewrite Nat2Z.inj_succ in H. cbn [Z.of_nat] in H.
    assert (Hq : Z.succ (Z.of_nat m) - 0 + 1 - B <= (y - x) / I).
    { apply Z.div_le_lower_bound; [exact HI|]. lia. }
    pose proof (@ceil_div_ge_floor (y - x) I HI). lia.
  - apply IH. intros i j a c Hij Hi Hj.
    specialize (H (S i) (S j) a c (le_n_S _ _ Hij) Hi Hj).
    rewrite !Nat2Z.inj_succ in H. lia.
Qed.

Lemma list_eqb_refl_optZ l : list_eqb (option_eqb Z.eqb) l l = true.
Proof.
  apply list_eqb_refl. intros [x|]; cbn; [apply Z.eqb_refl | reflexivity].
Qed.

Lemma spec_holds cfg arrivals :
  sortedb arrivals = true -> P cfg arrivals (grants (create_rate_limiter cfg) arrivals) = true.
Proof.
  intros Hs. unfold P. destruct cfg as [[I B]|].
  - cbn [s_interval s_burst]. rewrite Hs.
    destruct (Z.ltb_spec 0 I) as [HI|_]; [|reflexivity].
    destruct (Z.leb_spec 1 B) as [HB|_]; [|reflexivity].
    cbn [andb]. apply (@window_ok_intro I B HI).
    intros i j x y Hij Hi Hj.
    destruct (@always_granted I B arrivals HI HB Hs) as [E _].
    apply (@window_bound I B arrivals HI HB Hs _ _ _ _ Hij); rewrite E; rewrite nth_error_map.
    + rewrite Hi; reflexivity.
    + rewrite Hj; reflexivity.
  - rewrite unlimited_without_settings. apply list_eqb_refl_optZ.
Qed.

(* ---- the RateLimitWait probe: calls at one instant with a deadline shorter than I ---- *)

Definition count_true (l : list bool) : Z := Z.of_nat (length (filter (fun x => x) l)).

Lemma probe_bound I B t budget : 0 < I -> 0 <= budget < I ->
  forall n b m, b_limit b = Some I -> b_burst b = B -> 0 <= m -> advance I b t <= m * I ->
  count_true (wait_probe b t budget n) <= m.
Proof.
  intros HI Hbud. induction n as [|n IH]; intros b m Hl Hb Hm Hadv.
  - cbn. exact Hm.
  - cbn [wait_probe]. unfold reserve_n. rewrite Hl.
    set (tok := advance I b t - I).
    destruct ((1 <=? b_burst b) && (Z.max 0 (- tok) <=? budget)) eqn:Eok.
    + apply andb_true_iff in Eok as [_ Ew]. apply Z.leb_le in Ew.
      assert (Hm1 : 1 <= m) by (subst tok; nia).
      set (b' := mkBucket (Some I) (b_burst b) tok (Some t)).
      assert (Hadv' : advance I b' t <= (m - 1) * I).
      { unfold advance, b'. cbn [b_last b_tokens b_burst]. subst tok. lia. }
      specialize (IH b' (m - 1) eq_refl Hb ltac:(lia) Hadv').
      unfold count_true in *. cbn [filter length]. rewrite Nat2Z.inj_succ. lia.
    + specialize (IH b m Hl Hb Hm Hadv).
      unfold count_true in *. cbn [filter]. exact IH.
Qed.

Lemma probe_spec I B t budget n : 0 < I -> 1 <= B -> 0 <= budget < I ->
  P_wall (Some (mkSettings I B))
         (count_true (wait_probe (create_rate_limiter (Some (mkSettings I B))) t budget n)) 0 = true.
Proof.
  intros HI HB Hbud. unfold P_wall. cbn [s_interval s_burst].
  destruct (Z.ltb_spec 0 I) as [_|]; [|lia].
  destruct (Z.leb_spec 1 B) as [_|]; [|lia].
  cbn [andb]. apply Z.leb_le.
  rewrite (create_limited HI HB).
  assert (Hc : ceil_div 0 I = 0) by (unfold ceil_div; apply Z.div_small; lia).
  rewrite Hc.
  assert (count_true (wait_probe (bucket0 I B) t budget n) <= B); [|lia].
  apply (@probe_bound I B t budget HI Hbud n (bucket0 I B) B); try reflexivity; try lia.
  unfold advance, bucket0, max_duration. cbn [b_last b_tokens b_burst]. lia.
Qed.

(* ======================================================================================
   Operator level: the queue workers in front of the limiters (C18_Model.advance_q_lim ...).

   Every execution start in the ghost log is preceded by its own limiter call that was
   granted for that very instant, so the starts of a hook are a subsequence of the grants
   of ITS limiter over the sorted list of ITS request instants; the window bound of the
   limiter level carries over to subsequences. *)
Unset Implicit Arguments.

(* ---- subsequences ---- *)
Inductive Sub : list Z -> list Z -> Prop :=
| Sub_nil : forall l, Sub [] l
| Sub_skip : forall l' x l, Sub l' l -> Sub l' (x :: l)
| Sub_take : forall x l' l, Sub l' l -> Sub (x :: l') (x :: l).

Lemma Sub_snoc_r l' l x : Sub l' l -> Sub l' (l ++ [x]).
Proof. intros H. induction H; cbn; constructor; assumption. Qed.

Lemma Sub_snoc l' l x : Sub l' l -> Sub (l' ++ [x]) (l ++ [x]).
Proof.
  intros H. induction H as [l|l' y l H IH|y l' l H IH]; cbn.
  - induction l as [|y l IHl]; cbn; [apply Sub_take, Sub_nil | apply Sub_skip, IHl].
  - apply Sub_skip, IH.
  - apply Sub_take, IH.
Qed.

Lemma count_in_sub s T l' l : Sub l' l -> count_in s T l' <= count_in s T l.
Proof.
  unfold count_in. intros H. induction H as [l|l' y l H IH|y l' l H IH]; cbn [filter length].
  - lia.
  - destruct (in_window s T y); cbn [length]; lia.
  - destruct (in_window s T y); cbn [length]; lia.
Qed.

Lemma respects_limit_sub I B l' l : Sub l' l -> respects_limit I B l -> respects_limit I B l'.
Proof. intros HS H s T HT. pose proof (count_in_sub s T l' l HS). specialize (H s T HT). lia. Qed.

Lemma from_ok_sub I B x : forall r' r, Sub r' r -> forall k k', k' <= k ->
  from_ok I B x k r = true -> from_ok I B x k' r' = true.
Proof.
  intros r' r H. induction H as [l|l' y l H IH|y l' l H IH]; intros k k' Hk Hf.
  - reflexivity.
  - cbn [from_ok] in Hf. apply andb_true_iff in Hf as [_ Hf]. apply (IH (k + 1) k'); [lia | exact Hf].
  - cbn [from_ok] in Hf |- *. apply andb_true_iff in Hf as [H1 Hf]. apply Z.leb_le in H1.
    apply andb_true_iff; split; [apply Z.leb_le; lia | apply (IH (k + 1) (k' + 1)); [lia | exact Hf]].
Qed.

Lemma window_ok_sub I B l' l : Sub l' l -> window_ok I B l = true -> window_ok I B l' = true.
Proof.
  intros H. induction H as [l|l' y l H IH|y l' l H IH]; intros Hw.
  - reflexivity.
  - cbn [window_ok] in Hw. apply andb_true_iff in Hw as [_ Hw]. exact (IH Hw).
  - cbn [window_ok] in Hw |- *. apply andb_true_iff in Hw as [H1 Hw].
    apply andb_true_iff; split; [exact (from_ok_sub I B y l' l H 1 1 ltac:(lia) H1) | exact (IH Hw)].
Qed.

(* ---- lists of requests growing at the end ---- *)
Definition bucket_after (b : bucket) (arr : list Z) : bucket :=
  fold_left (fun b t => fst (reserve b t)) arr b.

Lemma bucket_after_snoc b arr t : bucket_after b (arr ++ [t]) = fst (reserve (bucket_after b arr) t).
Proof. unfold bucket_after. rewrite fold_left_app. reflexivity. Qed.

Lemma grants_snoc : forall arr b t,
  grants b (arr ++ [t]) = grants b arr ++ [snd (reserve (bucket_after b arr) t)].
Proof.
  induction arr as [|x r IH]; intros b t.
  - cbn. destruct (reserve b t); reflexivity.
  - cbn [app grants]. unfold bucket_after. cbn [fold_left].
    destruct (reserve b x) as [b1 a] eqn:E. cbn [fst]. rewrite IH. reflexivity.
Qed.

Lemma somes_app A (l1 l2 : list (option A)) : somes (l1 ++ l2) = somes l1 ++ somes l2.
Proof. induction l1 as [|[x|] r IH]; cbn; [reflexivity | f_equal; exact IH | exact IH]. Qed.

Lemma sortedb_snoc : forall l t, sortedb l = true -> Forall (fun x => x <= t) l -> sortedb (l ++ [t]) = true.
Proof.
  induction l as [|x r IH]; intros t Hs Hf; [reflexivity|].
  inversion Hf as [|? ? Hx Hr]; subst.
  destruct r as [|y r'].
  - cbn. apply andb_true_iff; split; [apply Z.leb_le; exact Hx | reflexivity].
  - apply sortedb_cons in Hs as [Hxy Hs]. specialize (IH t Hs Hr).
    change (sortedb (x :: y :: (r' ++ [t])) = true). cbn [sortedb].
    apply andb_true_iff; split; [apply Z.leb_le; exact Hxy | exact IH].
Qed.

Lemma reserve_ge b t b' a : reserve b t = (b', Some a) -> t <= a.
Proof.
  unfold reserve, reserve_n. destruct (b_limit b) as [iv|].
  - destruct (_ && _); intros H; inversion H; lia.
  - intros H; inversion H; lia.
Qed.

(* ---- projections of the log ---- *)
Lemma reqs_of_app h l1 l2 : reqs_of h (l1 ++ l2) = reqs_of h l1 ++ reqs_of h l2.
Proof. induction l1 as [|[h' t a|h' q t] r IH]; cbn; [reflexivity | destruct (N.eqb h' h); cbn; [f_equal|]; exact IH | exact IH]. Qed.
Lemma acts_of_app h l1 l2 : acts_of h (l1 ++ l2) = acts_of h l1 ++ acts_of h l2.
Proof. induction l1 as [|[h' t a|h' q t] r IH]; cbn; [reflexivity | destruct (N.eqb h' h); cbn; [f_equal|]; exact IH | exact IH]. Qed.
Lemma starts_in_app h l1 l2 : starts_in h (l1 ++ l2) = starts_in h l1 ++ starts_in h l2.
Proof. induction l1 as [|[h' t a|h' q t] r IH]; cbn; [reflexivity | exact IH | destruct (N.eqb h' h); cbn; [f_equal|]; exact IH]. Qed.

(* ---- a generic invariant of the workers: closed under "a limiter call" and under
        "a limiter call granted for now, then the start of the execution" ---- *)
Section Generic.
  Variable Q : Z -> limiters -> list levent -> Prop.
  Variable R : Z -> Z -> Prop.      (* how time may move from one action to the next *)
  Hypothesis Q_time : forall now now' lims log, R now now' -> Q now lims log -> Q now' lims log.
  Hypothesis Q_req : forall now lims log h' b' a,
    Q now lims log -> reserve (lims h') now = (b', a) ->
    Q now (set_lim lims h' b') (log ++ [LReq h' now a]).
  Hypothesis Q_start : forall now lims log h' b' q,
    Q now lims log -> reserve (lims h') now = (b', Some now) ->
    Q now (set_lim lims h' b') ((log ++ [LReq h' now (Some now)]) ++ [LStart h' q now]).

  Lemma advance_q_lim_Q cfg qok now qn : forall fuel items w items' st w',
    Q now (w_lims w) (w_log w) ->
    advance_q_lim fuel cfg qok now qn items w = (items', st, w') ->
    Q now (w_lims w') (w_log w').
  Proof.
    induction fuel as [|fuel IH]; intros items w items' st w' HQ H.
    - cbn in H. inversion H; subst. exact HQ.
    - cbn [advance_q_lim] in H. destruct items as [|t rest]; [inversion H; subst; exact HQ|].
      destruct (t_type t).
      + (* HookRun *)
        destruct (reserve (w_lims w (t_hook t)) now) as [b' a] eqn:Er.
        pose proof (Q_req now _ _ (t_hook t) b' a HQ Er) as H1.
        destruct a as [act|]; [|inversion H; subst; exact H1].
        destruct (now <? act) eqn:El; [inversion H; subst; exact H1|].
        assert (Ea : act = now).
        { apply Z.ltb_ge in El. pose proof (reserve_ge _ _ _ _ Er). lia. }
        subst act.
        destruct (should_run _ t).
        * pose proof (Q_start now _ _ (t_hook t) b' qn HQ Er) as H2.
          cbn [w_sh w_lims w_log] in H.
          destruct (negb _ && should_combine t && qok (t_queue t)).
          -- destruct (combine t rest). inversion H; subst. exact H2.
          -- inversion H; subst. exact H2.
        * eapply IH; [|exact H]. exact H1.
      + (* EnableKube *)
        destruct (find_hook cfg (t_hook t)); eapply IH; try exact H; exact HQ.
      + (* EnableSched *)
        eapply IH; [|exact H]. exact HQ.
  Qed.

  Lemma advance_all_lim_Q cfg qok now : forall qs wt w qs' wt' w',
    Q now (w_lims w) (w_log w) ->
    advance_all_lim cfg qok now wt qs w = (qs', wt', w') ->
    Q now (w_lims w') (w_log w').
  Proof.
    induction qs as [|q r IH]; intros wt w qs' wt' w' HQ H.
    - cbn in H. inversion H; subst. exact HQ.
    - cbn [advance_all_lim] in H. destruct (is_running q || is_waiting wt (q_name q)).
      + destruct (advance_all_lim cfg qok now wt r w) as [[r1 wt1] w1] eqn:E.
        inversion H; subst. exact (IH _ _ _ _ _ HQ E).
      + destruct (advance_q_lim _ cfg qok now (q_name q) (q_items q) w) as [[items st] w1] eqn:E1.
        destruct (advance_all_lim cfg qok now (wt ++ wait_of (q_name q) st) r w1) as [[r1 wt1] w2] eqn:E2.
        inversion H; subst.
        exact (IH _ _ _ _ _ (advance_q_lim_Q _ _ _ _ _ _ _ _ _ _ HQ E1) E2).
  Qed.

  Lemma step_lim_Q cfg ls ta now :
    Q now (l_lims ls) (l_log ls) -> R now (fst ta) ->
    Q (fst ta) (l_lims (step_lim cfg ls ta)) (l_log (step_lim cfg ls ta)).
  Proof.
    intros HQ Ht. apply (Q_time _ _ _ _ Ht) in HQ.
    unfold step_lim, advance_lim. cbn [l_op l_waiting l_lims l_log l_overrun].
    destruct (stopped _); [exact HQ|].
    destruct (advance_all_lim _ _ _ _ _ _) as [[qs wt] w] eqn:E. cbn [l_lims l_log].
    eapply advance_all_lim_Q; [|exact E]. exact HQ.
  Qed.

  Fixpoint chain (now : Z) (l : list Z) : Prop :=
    match l with [] => True | t :: r => R now t /\ chain t r end.

  Lemma run_lim_Q cfg : forall script ls now,
    Q now (l_lims ls) (l_log ls) -> chain now (map fst script) ->
    exists now', Q now' (l_lims (run_lim cfg ls script)) (l_log (run_lim cfg ls script)).
  Proof.
    induction script as [|ta r IH]; intros ls now HQ Hc.
    - exists now. exact HQ.
    - cbn [map chain] in Hc. destruct Hc as [Ht Hc]. cbn [run_lim fold_left].
      apply (IH (step_lim cfg ls ta) (fst ta)); [apply (step_lim_Q cfg ls ta now HQ Ht) | exact Hc].
  Qed.
End Generic.

(* ---- the invariant of one hook's limiter ---- *)
Definition hinv (b0 : bucket) (h : N) (now : Z) (lims : limiters) (log : list levent) : Prop :=
  lims h = bucket_after b0 (reqs_of h log) /\
  acts_of h log = grants b0 (reqs_of h log) /\
  Forall (fun t => t <= now) (reqs_of h log) /\
  sortedb (reqs_of h log) = true /\
  Sub (starts_in h log) (somes (acts_of h log)).

Lemma set_lim_same lims h b : set_lim lims h b h = b.
Proof. unfold set_lim. rewrite N.eqb_refl. reflexivity. Qed.
Lemma set_lim_other lims h h' b : h' <> h -> set_lim lims h' b h = lims h.
Proof. unfold set_lim. intros Hn. destruct (N.eqb_spec h h'); [congruence | reflexivity]. Qed.

Lemma hinv_time b0 h now now' lims log : now <= now' -> hinv b0 h now lims log -> hinv b0 h now' lims log.
Proof.
  intros Hle (H1 & H2 & H3 & H4 & H5). repeat split; try assumption.
  eapply Forall_impl; [|exact H3]. cbn. intros; lia.
Qed.

Lemma hinv_req b0 h now lims log h' b' a :
  hinv b0 h now lims log -> reserve (lims h') now = (b', a) ->
  hinv b0 h now (set_lim lims h' b') (log ++ [LReq h' now a]).
Proof.
  intros (H1 & H2 & H3 & H4 & H5) Er. unfold hinv.
  rewrite reqs_of_app, acts_of_app, starts_in_app. cbn [reqs_of acts_of starts_in].
  destruct (N.eqb_spec h' h) as [E|Hn].
  - subst h'. rewrite set_lim_same, bucket_after_snoc, grants_snoc, <- H1, Er. cbn [fst snd].
    rewrite app_nil_r, somes_app. repeat split.
    + rewrite H2. reflexivity.
    + apply Forall_app; split; [exact H3 | constructor; [lia | constructor]].
    + apply sortedb_snoc; assumption.
    + destruct a as [x|]; cbn [somes]; [apply Sub_snoc_r; exact H5 | rewrite app_nil_r; exact H5].
  - rewrite (set_lim_other _ _ _ _ Hn), !app_nil_r. repeat split; assumption.
Qed.

Lemma hinv_start b0 h now lims log h' b' q :
  hinv b0 h now lims log -> reserve (lims h') now = (b', Some now) ->
  hinv b0 h now (set_lim lims h' b') ((log ++ [LReq h' now (Some now)]) ++ [LStart h' q now]).
Proof.
  intros (H1 & H2 & H3 & H4 & H5) Er. unfold hinv.
  rewrite !reqs_of_app, !acts_of_app, !starts_in_app. cbn [reqs_of acts_of starts_in].
  destruct (N.eqb_spec h' h) as [E|Hn].
  - subst h'. rewrite set_lim_same, !app_nil_r, bucket_after_snoc, grants_snoc, <- H1, Er. cbn [fst snd].
    rewrite somes_app. cbn [somes]. repeat split.
    + rewrite H2. reflexivity.
    + apply Forall_app; split; [exact H3 | constructor; [lia | constructor]].
    + apply sortedb_snoc; assumption.
    + apply Sub_snoc; exact H5.
  - rewrite (set_lim_other _ _ _ _ Hn), !app_nil_r. repeat split; assumption.
Qed.

Lemma hinv_init hs h now : hinv (init_limiters hs h) h now (init_limiters hs) [].
Proof. unfold hinv. cbn. repeat split; constructor. Qed.

Lemma chain_le_of_sorted : forall l now, sortedb (now :: l) = true -> chain Z.le now l.
Proof.
  induction l as [|t r IH]; intros now Hs; [exact I|].
  apply sortedb_cons in Hs as [Hle Hs]. split; [exact Hle | exact (IH t Hs)].
Qed.

Lemma chain_any : forall l now, chain (fun _ _ => True) now l.
Proof. induction l as [|t r IH]; intros now; cbn; auto. Qed.

Definition final_log (cfg : config) (hs : hook_settings) (script : list (Z * action)) : list levent :=
  l_log (run_lim cfg (init_lim hs) script).

Lemma op_hinv cfg hs script h : sortedb (map fst script) = true ->
  exists now, hinv (init_limiters hs h) h now
                   (l_lims (run_lim cfg (init_lim hs) script)) (final_log cfg hs script).
Proof.
  intros Hs. unfold final_log.
  set (now0 := match map fst script with [] => 0 | t :: _ => t end).
  apply (run_lim_Q (hinv (init_limiters hs h) h) Z.le) with (now := now0).
  - intros now now' lims log. apply hinv_time.
  - intros now lims log h' b' a. apply hinv_req.
  - intros now lims log h' b' q. apply hinv_start.
  - apply hinv_init.
  - apply chain_le_of_sorted. subst now0. destruct (map fst script) as [|t r]; [reflexivity|].
    apply sortedb_dup. exact Hs.
Qed.

(* every start of a hook's execution is one of the grants of its limiter *)
Lemma op_starts_are_grants cfg hs script h : sortedb (map fst script) = true ->
  let log := final_log cfg hs script in
  sortedb (reqs_of h log) = true /\
  acts_of h log = grants (create_rate_limiter (settings_of hs h)) (reqs_of h log) /\
  Sub (starts_in h log) (somes (acts_of h log)).
Proof.
  intros Hs. cbv zeta. destruct (op_hinv cfg hs script h Hs) as (now & _ & H2 & _ & H4 & H5).
  repeat split; assumption.
Qed.

Lemma op_respects_limit cfg hs script h I B :
  settings_of hs h = Some (mkSettings I B) -> 0 < I -> 1 <= B -> sortedb (map fst script) = true ->
  respects_limit I B (starts_in h (final_log cfg hs script)).
Proof.
  intros Hset HI HB Hs. destruct (op_starts_are_grants cfg hs script h Hs) as (H4 & H2 & H5).
  rewrite Hset in H2. eapply respects_limit_sub; [exact H5|]. rewrite H2.
  apply (@respects_limit_model I B _ HI HB H4).
Qed.

(* ---- hooks without settings: time plays no role ---- *)
Definition uinv (h : N) (_ : Z) (lims : limiters) (log : list levent) : Prop :=
  b_limit (lims h) = None /\ acts_of h log = map Some (reqs_of h log).

Lemma reserve_inf b t : b_limit b = None -> reserve b t = (b, Some t).
Proof. intros H. unfold reserve, reserve_n. rewrite H. reflexivity. Qed.

Lemma uinv_req h now lims log h' b' a :
  uinv h now lims log -> reserve (lims h') now = (b', a) ->
  uinv h now (set_lim lims h' b') (log ++ [LReq h' now a]).
Proof.
  intros (H1 & H2) Er. unfold uinv. rewrite reqs_of_app, acts_of_app. cbn [reqs_of acts_of].
  destruct (N.eqb_spec h' h) as [E|Hn].
  - subst h'. rewrite (reserve_inf _ now H1) in Er. inversion Er; subst.
    rewrite set_lim_same, map_app, H2. split; [exact H1 | reflexivity].
  - rewrite (set_lim_other _ _ _ _ Hn), !app_nil_r. split; assumption.
Qed.

Lemma uinv_start h now lims log h' b' q :
  uinv h now lims log -> reserve (lims h') now = (b', Some now) ->
  uinv h now (set_lim lims h' b') ((log ++ [LReq h' now (Some now)]) ++ [LStart h' q now]).
Proof.
  intros H Er. destruct (uinv_req h now lims log h' b' (Some now) H Er) as (H1 & H2).
  unfold uinv. rewrite reqs_of_app, acts_of_app. cbn [reqs_of acts_of]. rewrite !app_nil_r.
  split; assumption.
Qed.

Lemma not_throttled_of_acts h : forall log,
  acts_of h log = map Some (reqs_of h log) -> ~ In h (throttled_in log).
Proof.
  induction log as [|[h' t a|h' q t] r IH]; cbn [acts_of reqs_of throttled_in]; intros He Hin.
  - exact Hin.
  - destruct (N.eqb_spec h' h) as [E|Hn].
    + cbn [map] in He. inversion He as [[Ha Hr]]. subst a. rewrite Z.eqb_refl in Hin. exact (IH Hr Hin).
    + destruct a as [x|]; [destruct (x =? t)|]; try exact (IH He Hin);
        destruct Hin as [Hh|Hin]; try (apply Hn; exact Hh); exact (IH He Hin).
  - exact (IH He Hin).
Qed.

Lemma op_unlimited_acts cfg hs script h :
  b_limit (init_limiters hs h) = None ->
  let log := final_log cfg hs script in acts_of h log = map Some (reqs_of h log).
Proof.
  intros Hb. cbv zeta. unfold final_log.
  destruct (run_lim_Q (uinv h) (fun _ _ => True)) with (cfg := cfg) (script := script) (ls := init_lim hs) (now := 0)
    as (now & _ & H2).
  - intros now now' lims log _ H. exact H.
  - intros now lims log h' b' a. apply uinv_req.
  - intros now lims log h' b' q. apply uinv_start.
  - split; [exact Hb | reflexivity].
  - apply chain_any.
  - exact H2.
Qed.

Lemma op_not_throttled cfg hs script h :
  settings_of hs h = None -> ~ In h (throttled_in (final_log cfg hs script)).
Proof.
  intros Hset. apply not_throttled_of_acts. apply op_unlimited_acts.
  unfold init_limiters. rewrite Hset. reflexivity.
Qed.

(* ---- the decidable predicate on the model's own log ---- *)
Lemma starts_of_all h : forall log, starts_of h (starts_all log) = starts_in h log.
Proof.
  unfold starts_of. induction log as [|[h' t a|h' q t] r IH]; cbn [starts_all starts_in]; try exact IH; [reflexivity|].
  cbn [filter fst]. destruct (N.eqb h' h); cbn [map snd]; [f_equal|]; exact IH.
Qed.

Lemma op_P_holds cfg hs script : sortedb (map fst script) = true ->
  let log := final_log cfg hs script in
  P_op hs (starts_all log) (throttled_in log) = true.
Proof.
  intros Hs. cbv zeta. unfold P_op. apply forallb_forall. intros h _.
  rewrite starts_of_all. unfold P_hook.
  destruct (settings_of hs h) as [[I B]|] eqn:Hset.
  - cbn [s_interval s_burst].
    destruct (Z.ltb_spec 0 I) as [HI|_]; [|reflexivity].
    destruct (Z.leb_spec 1 B) as [HB|_]; [|reflexivity].
    cbn [andb].
    destruct (op_starts_are_grants cfg hs script h Hs) as (H4 & H2 & H5).
    apply (window_ok_sub I B _ _ H5). rewrite H2, Hset.
    pose proof (@spec_holds (Some (mkSettings I B)) _ H4) as HP.
    unfold P in HP. cbn [s_interval s_burst] in HP. rewrite H4 in HP.
    destruct (Z.ltb_spec 0 I) as [_|]; [|lia]. destruct (Z.leb_spec 1 B) as [_|]; [|lia].
    exact HP.
  - apply negb_true_iff. destruct (mem_N h (throttled_in (final_log cfg hs script))) eqn:Em; [|reflexivity].
    apply mem_N_In in Em. exfalso. exact (op_not_throttled cfg hs script h Hset Em).
Qed.

(* ---- without any limit the workers are exactly those of the plain task-flow model ---- *)
Definition all_unlimited (lims : limiters) : Prop := forall h, b_limit (lims h) = None.

Lemma all_unlimited_set lims h : all_unlimited lims -> all_unlimited (set_lim lims h (lims h)).
Proof. intros H x. unfold set_lim. destruct (N.eqb x h); apply H. Qed.

Lemma advance_q_lim_unlimited cfg qok now qn : forall fuel items w,
  all_unlimited (w_lims w) ->
  exists st w', advance_q_lim fuel cfg qok now qn items w =
                  (fst (fst (advance_q fuel cfg qok items (w_sh w))), st, w') /\
                run_of st = snd (fst (advance_q fuel cfg qok items (w_sh w))) /\
                wait_of qn st = [] /\
                w_sh w' = snd (advance_q fuel cfg qok items (w_sh w)) /\
                all_unlimited (w_lims w').
Proof.
  induction fuel as [|fuel IH]; intros items w Hu.
  - exists WFree, w. cbn. repeat split; auto.
  - cbn [advance_q_lim advance_q]. destruct items as [|t rest].
    + exists WFree, w. cbn. repeat split; auto.
    + destruct (t_type t).
      * rewrite (reserve_inf _ now (Hu (t_hook t))). rewrite Z.ltb_irrefl.
        cbn [w_sh w_lims w_log].
        destruct (should_run _ t).
        -- destruct (negb _ && should_combine t && qok (t_queue t)).
           ++ destruct (combine t rest) as [t' rest']. eexists. eexists. split; [reflexivity|].
              cbn. repeat split; auto. apply all_unlimited_set; exact Hu.
           ++ eexists. eexists. split; [reflexivity|].
              cbn. repeat split; auto. apply all_unlimited_set; exact Hu.
        -- match goal with |- context [advance_q_lim fuel cfg qok now qn rest ?w1] =>
             destruct (IH rest w1 (all_unlimited_set _ _ Hu)) as (st & w' & H1 & H2 & H3 & H4 & H5) end.
           exists st, w'. cbn [w_sh] in *. repeat split; assumption.
      * destruct (find_hook cfg (t_hook t)) as [h|].
        -- match goal with |- context [advance_q_lim fuel cfg qok now qn ?it ?w1] =>
             destruct (IH it w1 Hu) as (st & w' & H1 & H2 & H3 & H4 & H5) end.
           exists st, w'. cbn [w_sh] in *. repeat split; assumption.
        -- destruct (IH rest w Hu) as (st & w' & H1 & H2 & H3 & H4 & H5).
           exists st, w'. repeat split; assumption.
      * match goal with |- context [advance_q_lim fuel cfg qok now qn rest ?w1] =>
          destruct (IH rest w1 Hu) as (st & w' & H1 & H2 & H3 & H4 & H5) end.
        exists st, w'. cbn [w_sh] in *. repeat split; assumption.
Qed.

Lemma advance_all_lim_unlimited cfg qok now : forall qs w,
  all_unlimited (w_lims w) ->
  exists w', advance_all_lim cfg qok now [] qs w = (fst (advance_all cfg qok qs (w_sh w)), [], w') /\
             w_sh w' = snd (advance_all cfg qok qs (w_sh w)) /\ all_unlimited (w_lims w').
Proof.
  induction qs as [|q r IH]; intros w Hu.
  - exists w. cbn. repeat split; auto.
  - cbn [advance_all_lim advance_all is_waiting existsb]. rewrite orb_false_r.
    destruct (is_running q).
    + destruct (IH w Hu) as (w' & H1 & H2 & H3). rewrite H1.
      destruct (advance_all cfg qok r (w_sh w)) as [r' sh'] eqn:E. cbn [fst snd] in *.
      exists w'. repeat split; assumption.
    + destruct (advance_q_lim_unlimited cfg qok now (q_name q) (fuel_for cfg (q_items q)) (q_items q) w Hu)
        as (st & w1 & H1 & H2 & H3 & H4 & H5).
      rewrite H1, H3. cbn [app].
      destruct (advance_q (fuel_for cfg (q_items q)) cfg qok (q_items q) (w_sh w)) as [[items run] sh1] eqn:E1.
      cbn [fst snd] in *.
      destruct (IH w1 H5) as (w' & G1 & G2 & G3). rewrite G1, H4, H2.
      destruct (advance_all cfg qok r sh1) as [r' sh'] eqn:E2. cbn [fst snd] in *.
      exists w'. rewrite H4, E2 in G2. cbn [snd] in G2. repeat split; assumption.
Qed.

Lemma step_is_pre_advance cfg s a : step cfg s a = op_advance cfg (pre_step cfg s a).
Proof. reflexivity. Qed.

Lemma step_lim_unlimited cfg ls ta :
  all_unlimited (l_lims ls) -> l_waiting ls = [] ->
  l_op (step_lim cfg ls ta) = step cfg (l_op ls) (snd ta) /\
  l_waiting (step_lim cfg ls ta) = [] /\ all_unlimited (l_lims (step_lim cfg ls ta)).
Proof.
  intros Hu Hw. rewrite step_is_pre_advance. unfold step_lim, advance_lim, op_advance.
  cbn [l_op l_waiting l_lims l_log l_overrun]. rewrite Hw.
  destruct (stopped (pre_step cfg (l_op ls) (snd ta))); [cbn; repeat split; auto|].
  match goal with |- context [advance_all_lim cfg ?qok (fst ta) [] ?qs ?w] =>
    destruct (advance_all_lim_unlimited cfg qok (fst ta) qs w Hu) as (w' & H1 & H2 & H3) end.
  rewrite H1. cbn [w_sh] in *.
  destruct (advance_all _ _ _ _) as [qs' sh'] eqn:E. cbn [fst snd l_op l_waiting l_lims] in *.
  rewrite H2. repeat split; auto.
Qed.

Lemma op_unlimited_is_plain_operator cfg hs : forall script,
  all_unlimited (init_limiters hs) ->
  l_op (run_lim cfg (init_lim hs) script) = exec cfg (map snd script) init /\
  l_waiting (run_lim cfg (init_lim hs) script) = [].
Proof.
  intros script Hu.
  assert (G : forall script ls, all_unlimited (l_lims ls) -> l_waiting ls = [] ->
              l_op (run_lim cfg ls script) = exec cfg (map snd script) (l_op ls) /\
              l_waiting (run_lim cfg ls script) = []).
  { clear. induction script as [|ta r IH]; intros ls Hu Hw; [split; [reflexivity | exact Hw]|].
    destruct (step_lim_unlimited cfg ls ta Hu Hw) as (H1 & H2 & H3).
    cbn [run_lim fold_left map exec]. unfold run_lim, exec in IH.
    destruct (IH (step_lim cfg ls ta) H3 H2) as [G1 G2]. rewrite G1, H1. split; [reflexivity | exact G2]. }
  apply (G script (init_lim hs) Hu eq_refl).
Qed.
